"""Per-property configuration of ./check (which suites, which Lean modules, what is trusted)."""

TRUSTED_BASE_COMMON = [
    "Lean 4.33.0 kernel (thorough tier: also leanchecker on the property modules)",
    "hand-written Lean models under lean/VarlinkVerif/Model, tied to /repo by the correspondence run of this check "
    "(differential testing through harness/ on the working tree; reach bounded by the generators, see input_distribution)",
    "harness (Rust) and check (Python): test infrastructure; a bug there can hide a disagreement, it cannot make a false theorem check",
]

WIRE_NONTRIVIAL = r"\(out \(r "

WIRE_RULE = ("suite wire: seeded request streams over the C01 alphabet (built-in calls, scripted and generated "
             "interfaces, unknown interface/method, no dot, bad parameters, malformed frames; more/oneway/upgrade flags) "
             "x service configurations x segmentations (whole, single/double/random cuts, cuts at NULs, bytewise, "
             "systematic single cuts) through VarlinkService::handle in one call or through the documented re-feeding "
             "loop; a case is non-trivial when the implementation wrote at least one reply; distinct = distinct case lines")

WIRE_TRUST = [
    "the decision which byte strings are requests (UTF-8 throughout, then serde_json on the text — the two calls handle() makes) is a parameter `dec` of the model, delivered per case by the real std/serde_json; P_C06 additionally judges UTF-8 validity on the raw bytes itself",
    "std::io::BufReader is modelled as a buffer refilled by an arbitrary read schedule (theorems hold for every schedule)",
    "tools/extract.d/wire.py (pattern-based translator): reply_struct's chain of early returns in source order, its `continues` mark, "
    "reply_parameters' early return, the flag tests of is_oneway / wants_more, the built-in interface name and the library's four error "
    "names are transcribed from varlink/src/lib.rs into Model/ExtractedWire.lean on every run; Lemmas/WireExtracted.lean proves the "
    "hand-written gate of Model/Wire.lean equal to it (C03_names_are_source, C04_gate_is_source, C05_gate_is_source)",
]


def wire(prop, extra_assume=None):
    return {
        "suites": [{"name": "wire", "nontrivial": WIRE_NONTRIVIAL}],
        "lean": ["VarlinkVerif.Props." + prop],
        "rule": WIRE_RULE,
        "trusted": WIRE_TRUST,
        "assumptions": ["user method implementations are modelled as scripts over the Call API; theorems quantify over all scripts"]
                       + (extra_assume or []),
    }


def with_listen(spec):
    """C01/C02 also go through a real socket served by varlink::listen (suite listen, concurrency mode)"""
    spec = dict(spec)
    spec["suites"] = spec["suites"] + [{"name": "listen", "nontrivial": r"\(out \(r "}]
    spec["rule"] = spec["rule"] + ("; plus suite listen: the same request generators over real unix/abstract/TCP sockets served by "
                                   "varlink::listen, 1..32 concurrent pipelining clients with random segmentation, each read to EOF after half-close")
    return spec


def with_client(spec, props_module):
    """the client half of C04 / C05 lives in Model.Client: the `client` suite (real Connection/MethodCall over a
    socketpair against a scripted server) and the client-side theorems of Props/C07.lean are part of the check"""
    spec = dict(spec)
    spec["suites"] = spec["suites"] + [{"name": "client", "nontrivial": r"\((ok|err|inf|ip|mnf|mni|reply) "}]
    spec["lean"] = spec["lean"] + [props_module]
    spec["rule"] = spec["rule"] + ("; plus suite client: operation sequences {call, more+next*, oneway, upgrade, second send, new call "
                                   "while iterating} on the real Connection/MethodCall against a scripted peer, and 2..8 threads sharing one connection")
    return spec


PROPS = {
    "C01": with_listen(wire("C01", ["`Proper` method implementations (continues* + one final, or failure) for the exactly-once clause"])),
    "C02": with_listen(wire("C02")),
    "C03": wire("C03"),
    "C04": with_listen(with_client(wire("C04", ["client half: theorems C04_client_oneway / C04_client_oneway_never_reads in Props/C07.lean over Model.Client"]),
                       "VarlinkVerif.Props.C07")),
    "C05": with_client(wire("C05", ["replies handed to reply_struct are built by Reply::parameters/error (no continues member of their own)",
                                    "client half: theorem C05_iteration in Props/C07.lean over Model.Client"]),
                       "VarlinkVerif.Props.C07"),
    "C06": with_listen(wire("C06", ["absence of panics in serde_json/std for arbitrary bytes is observed on the generated inputs, not proved"])),
}


# fragments written by the owners of the other suites: tools/props.d/Cxx.json
def _load_fragments():
    import glob
    import json
    import os
    d = os.path.join(os.path.dirname(os.path.abspath(__file__)), "props.d")
    out = {}
    for f in sorted(glob.glob(os.path.join(d, "C*.json"))):
        j = json.load(open(f))
        out[j["property"]] = j
    return out


FRAGMENTS = _load_fragments()
for _p, _j in FRAGMENTS.items():
    PROPS[_p] = _j["spec"]
