#!/usr/bin/env python3
"""Rewrite §12 of DESIGN.md (between the markers) from seeded/index.json."""
import json, os, re
ROOT = os.path.dirname(os.path.dirname(os.path.abspath(__file__)))
idx = json.load(open(os.path.join(ROOT, "seeded", "index.json")))
rows = []
caught = missed = 0
for k in sorted(idx):
    e = idx[k]
    cb = e.get("caught_by") or {}
    if cb:
        caught += 1
        c = "; ".join("%s: %s" % (p, r) for p, r in cb.items())
    else:
        missed += 1
        c = "**not caught** — " + (e.get("missed") or "")
    extra = (" *Machinery strengthened:* " + e["strengthened"]) if e.get("strengthened") else ""
    rows.append("| %s | %s | %s | %s%s |" % (k.replace("/", "-"), e["site"].replace("|", "\\|"), e["needs"].replace("|", "\\|"), c.replace("|", "\\|"), extra.replace("|", "\\|")))
text = """## 12. Seeded changes: which checks catch which changes

Fresh sub-agents were given only the text of one property and a scratch worktree of /repo and asked for three
realistic changes each that compile, keep the existing suite green and break the property only under a specific
condition, with a demonstration. Every change listed here was confirmed independently (`tools/confirm_mutant.sh`:
patch applies, workspace suite green with it, demonstration fails with it and passes without) and then run against
the checks (`tools/mutcheck.sh`, equivalent to `git -C /repo apply; ./check; git -C /repo checkout -- .`). Patches,
demonstrations and `meta.json` are under `seeded/<property>-<m>/`; `seeded/index.json` is the source of this table.
%d changes, %d caught by a VIOLATION (with a concrete failing input unless stated), %d not caught.

| Change | Site | Needs, to manifest | Caught by (check: reason) |
|---|---|---|---|
%s
""" % (len(idx), caught, missed, "\n".join(rows))
p = os.path.join(ROOT, "DESIGN.md")
s = open(p).read()
begin, end = "<!-- SEEDED-BEGIN -->", "<!-- SEEDED-END -->"
block = begin + "\n" + text + end + "\n"
if begin in s:
    s = s[:s.index(begin)] + block + s[s.index(end) + len(end) + 1:]
else:
    s = s.rstrip() + "\n\n\n" + block
open(p, "w").write(s)
print("§12 written:", len(idx), "changes,", caught, "caught,", missed, "missed")
