#!/bin/bash
# confirm_mutant.sh ID MUT — independently confirm a seeded change produced in /tmp/mut/ID/out/MUT:
# (1) patch applies to a clean worktree, (2) the workspace test suite passes with it (flaky test_tcp ignored),
# (3) the demo fails with it and passes without it.  Prints a one-line JSON summary.
ID=$1; M=$2
BASE=${MUTBASE:-/tmp/mut}; PFX=${MUTPFX:-}; W=$BASE/$ID; O=$W/out/$M
cd $W || exit 2
git checkout -q -- . 2>/dev/null
export CARGO_NET_OFFLINE=true
run_demo() {
  if [ -f $O/run-demo.sh ]; then (cd $O && timeout 900 bash ./run-demo.sh >/dev/null 2>&1); return $?; fi
  if [ -f $O/run.sh ]; then (cd $O && timeout 900 bash ./run.sh >/dev/null 2>&1); return $?; fi
  if [ -x $O/demo/run.sh ]; then (cd $O/demo && timeout 300 ./run.sh >/dev/null 2>&1); return $?; fi
  if [ -f $O/demo/Cargo.toml ]; then (cd $O/demo && CARGO_TARGET_DIR=$O/demo/target timeout 600 cargo run --offline -q >/dev/null 2>&1); return $?; fi
  if [ -x $O/demo.sh ]; then (cd $O && timeout 300 ./demo.sh >/dev/null 2>&1); return $?; fi
  return 99
}
run_demo; CLEAN=$?
git apply $O/patch.diff || { echo "{\"id\":\"$PFX$ID/$M\",\"applies\":false}"; exit 1; }
run_demo; MUT=$?
# the baseline suite; unshare gives a private network namespace when available so fixed ports do not collide
if unshare -rn true 2>/dev/null; then RUNNER="unshare -rn sh -c"; PRE="ip link set lo up 2>/dev/null;"; else RUNNER="sh -c"; PRE=""; fi
# examples/ping's test_unix_multiplex occasionally hangs on the unmodified tree under load (a race in the
# example's own multiplex loop): an attempt that was cut short by the timeout is repeated
for ATTEMPT in 1 2 3; do
  OUT=$($RUNNER "$PRE CARGO_TARGET_DIR=$W/target timeout 700 cargo test --workspace --no-fail-fast --offline 2>&1")
  FAILED=$(echo "$OUT" | grep -E "^test .* FAILED" | grep -v "test_tcp" | wc -l)
  PASSED=$(echo "$OUT" | grep -E "^test result" | awk '{p+=$4} END {print p+0}')
  COMPILED=$(echo "$OUT" | grep -cE "^error(\[|:)")
  if [ "$PASSED" -ge 60 ] || [ "$FAILED" -gt 0 ] || [ "$COMPILED" -gt 0 ]; then break; fi
  pkill -f "$W/target/debug/deps" 2>/dev/null
done
git checkout -q -- .
echo "{\"id\":\"$PFX$ID/$M\",\"applies\":true,\"demo_clean_exit\":$CLEAN,\"demo_mutant_exit\":$MUT,\"suite_passed\":$PASSED,\"suite_failed_nonflaky\":$FAILED,\"compile_errors\":$COMPILED}"
