#!/usr/bin/env python3
"""extract.d/wire.py REPO LEAN_MODEL_DIR — pull the reply gate of `Call` out of varlink/src/lib.rs and
write it as Lean definitions (DESIGN §4.2); Model/Wire.lean's `replyStruct`, `replyParameters`,
`wantsMore`, `isOneway` are stated over them, so every theorem of C01–C06 (and C13, C16, C18, C19 through
Model.Wire) is re-checked against what the source says now:

  * `reply_struct`: the chain of early returns in source order (refuse a `continues` reply to a call
    without `more`; say nothing to a oneway call; otherwise write) and the condition under which the
    written reply is marked `continues: true`                   -> ExtractedWire.gate, markContinues
  * `reply_parameters`: the early return for oneway calls         -> ExtractedWire.paramsSilent
  * `is_oneway` / `wants_more`: which request flag they look at    -> ExtractedWire.isOnewayE, wantsMoreE
  * the name of the built-in interface in `VarlinkService::call` and the four standard error names the library
    itself replies with                                             -> ExtractedWire.svcName, errNames

Fails loudly (exit 1) when an anchored pattern no longer matches: the tie is then broken for the
properties whose proof closure contains Model.ExtractedWire.  Run by tools/extract.py on every check.
"""
import os
import re
import sys

sys.path.insert(0, os.path.dirname(os.path.dirname(os.path.abspath(__file__))))
from extract import translate, body_of, Fail  # noqa: E402


def top_level_ifs(body):
    """[(condition, block)] of the `if` statements at nesting depth 1 of a function body, in order,
    each with the text offset it starts at"""
    out, depth, i = [], 0, 0
    while i < len(body):
        c = body[i]
        if c == "{":
            depth += 1
        elif c == "}":
            depth -= 1
        elif depth == 1 and body.startswith("if ", i) and not (body[i - 1].isalnum() or body[i - 1] == "_"):
            if body[:i].rstrip().endswith("else"):
                raise Fail("an `else if` chain in the reply gate is not understood")
            j = body.index("{", i)
            cond = body[i + 3:j].strip()
            d, k = 0, j
            while True:
                if body[k] == "{":
                    d += 1
                elif body[k] == "}":
                    d -= 1
                    if d == 0:
                        break
                k += 1
            out.append((cond, body[j:k + 1], i))
            nxt = body[k + 1:].lstrip()
            if nxt.startswith("else"):
                raise Fail("an `else` branch in the reply gate is not understood")
            i = k + 1
            continue
        i += 1
    return out


NAMES = {"self.continues": "continues", "self.wants_more()": "wantsMore", "self.is_oneway()": "oneway",
         "true": "true", "false": "false"}


def flag_fn(src, fn):
    b = body_of(src, r"fn %s\(&self\) -> bool \{" % fn)
    m = re.fullmatch(r"\{\s*matches!\(\s*self\.request,\s*Some\(Request \{\s*(more|oneway|upgrade): Some\((true|false)\),\s*\.\.\s*\}\)\s*\)\s*\}", b)
    if not m:
        raise Fail("`%s` is no longer `matches!(self.request, Some(Request { <flag>: Some(<bool>), .. }))`" % fn)
    return "(%s == some %s)" % (m.group(1), m.group(2)), re.sub(r"\s+", " ", b)


def main():
    repo, outdir = sys.argv[1], sys.argv[2]
    src = open(os.path.join(repo, "varlink/src/lib.rs"), encoding="utf-8").read()
    nc = re.sub(r"//[^\n]*", "", src)
    try:
        # ---- reply_struct
        rs = body_of(nc, r"fn reply_struct\(&mut self, mut reply: Reply\) -> Result<\(\)> \{")
        ifs = top_level_ifs(rs)
        w = rs.find("write_all")
        if w < 0:
            raise Fail("reply_struct no longer writes with write_all")
        chain, mark = [], None
        for cond, block, at in ifs:
            blk = re.sub(r"\s+", " ", block)
            if re.fullmatch(r"\{ return Err\(context!\(ErrorKind::CallContinuesMismatch\)\); \}", blk):
                kind = ".refuse"
            elif re.fullmatch(r"\{ return Ok\(\(\)\); \}", blk):
                kind = ".silent"
            elif re.fullmatch(r"\{ reply\.continues = Some\(true\); \}", blk):
                if mark is not None:
                    raise Fail("reply_struct marks `continues` twice")
                if at > w:
                    raise Fail("reply_struct marks `continues` after the reply is written")
                mark = (translate(cond, NAMES), cond)
                continue
            else:
                raise Fail("unrecognised statement in reply_struct: if %s %s" % (cond, blk[:60]))
            if at > w:
                raise Fail("an early return of reply_struct comes after the write")
            chain.append((translate(cond, NAMES), kind, cond))
        if mark is None:
            raise Fail("reply_struct no longer sets `reply.continues = Some(true)`")
        if re.search(r"reply\.(error|parameters)\s*=", rs):
            raise Fail("reply_struct assigns to other members of the reply")
        gate = ".write"
        for lean, kind, _ in reversed(chain):
            gate = "if %s then %s else %s" % (lean, kind, gate)
        # ---- reply_parameters
        rp = body_of(nc, r"fn reply_parameters\(&mut self, parameters: Value\) -> Result<\(\)> \{")
        pifs = top_level_ifs(rp)
        wp = rp.find("write_all")
        if wp < 0 or "Reply::parameters(Some(parameters))" not in rp:
            raise Fail("reply_parameters no longer writes Reply::parameters(Some(parameters))")
        silent = "false"
        for cond, block, at in pifs:
            if not re.fullmatch(r"\{ return Ok\(\(\)\); \}", re.sub(r"\s+", " ", block)) or at > wp:
                raise Fail("unrecognised statement in reply_parameters: if %s" % cond)
            silent = "(%s || %s)" % (silent, translate(cond, NAMES))
        psrc = " ; ".join(c for c, _, _ in pifs)
        ow, ow_src = flag_fn(nc, "is_oneway")
        wm, wm_src = flag_fn(nc, "wants_more")
        # ---- handle(): the built-in interface name, and the library's own error names
        hb = body_of(nc, r"fn call\(&self, iface: &str, call: &mut Call\) -> Result<\(\)> \{")
        m = re.search(r"match iface \{\s*\"([^\"]+)\" => self::Interface::call\(self, call\),", hb)
        if not m:
            raise Fail("`match iface { \"org.varlink.service\" => self::Interface::call(self, call), …` not found in VarlinkService::call")
        svc = m.group(1)
        errs = []
        for fn in ("reply_method_not_found", "reply_method_not_implemented", "reply_invalid_parameter", "reply_interface_not_found"):
            fb = body_of(nc, r"fn %s\(&mut self, [a-z_]+: (?:String|Option<String>)\) -> Result<\(\)> \{" % fn)
            mm = re.search(r"Reply::error\(\s*\"([^\"]+)\"", fb)
            if not mm:
                raise Fail("error name not found in %s" % fn)
            errs.append((fn, mm.group(1)))
    except Fail as e:
        sys.stderr.write("extract.d/wire.py: %s\n" % e)
        print("EXTRACTION FAILED: %s" % e)
        sys.exit(1)
    t = ["/-", "Model.ExtractedWire — GENERATED by tools/extract.d/wire.py from /repo/varlink/src/lib.rs on every run.",
         "Do not edit: Model/Wire.lean's reply gate is stated over these definitions.", "-/",
         "set_option linter.unusedVariables false", "namespace VV.ExtractedWire", "",
         "/-- what `reply_struct` does with a reply: `Err(CallContinuesMismatch)`, `Ok(())` without writing, or write -/",
         "inductive Gate where", "  | refuse", "  | silent", "  | write", "deriving Repr, DecidableEq, Inhabited", "",
         "/-- Rust (reply_struct, early returns in source order): %s -/" % " ; ".join("`if %s` → %s" % (c, k) for _, k, c in chain),
         "def gate (continues wantsMore oneway : Bool) : Gate := %s" % gate, "",
         "/-- Rust (reply_struct): `if %s { reply.continues = Some(true); }` -/" % mark[1],
         "def markContinues (continues wantsMore oneway : Bool) : Bool := %s" % mark[0], "",
         "/-- Rust (reply_parameters): early `return Ok(())` under `%s` -/" % psrc,
         "def paramsSilent (continues wantsMore oneway : Bool) : Bool := %s" % silent, "",
         "/-- Rust (is_oneway): `%s` -/" % ow_src.replace("-/", "- /"),
         "def isOnewayE (more oneway upgrade : Option Bool) : Bool := %s" % ow, "",
         "/-- Rust (wants_more): `%s` -/" % wm_src.replace("-/", "- /"),
         "def wantsMoreE (more oneway upgrade : Option Bool) : Bool := %s" % wm, "",
         "/-- Rust (VarlinkService::call): the interface name served by the library itself -/",
         "def svcName : String := \"%s\"" % svc, ""]
    for fn, name in errs:
        t.append("/-- Rust (%s) -/" % fn)
        t.append("def %s : String := \"%s\"" % ({"reply_method_not_found": "sMethodNotFound", "reply_method_not_implemented": "sMethodNotImplemented",
                                                  "reply_invalid_parameter": "sInvalidParameter", "reply_interface_not_found": "sInterfaceNotFound"}[fn], name))
        t.append("")
    t.append("end VV.ExtractedWire")
    new = "\n".join(t) + "\n"
    out = os.path.join(outdir, "ExtractedWire.lean")
    old = open(out).read() if os.path.exists(out) else None
    if old != new:
        open(out, "w").write(new)
    print("extract.d/wire.py: reply gate with %d early returns, %d names" % (len(chain), len(errs) + 1))


if __name__ == "__main__":
    main()
