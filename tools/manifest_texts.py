"""Human-written level texts for MANIFEST.json (kept apart from the machinery)."""

HOOK_COMMITS = ["ad3b062", "ff4e286"]

NOT_APPLICABLE = {}

_WIRE_NOTE = ("Trusted: Lean kernel; axioms propext/Classical.choice/Quot.sound only (audited per run); the hand-written "
              "model Model/Wire.lean, tied to varlink/src/lib.rs by the wire correspondence suite (VarlinkService::handle "
              "run in-process on ~2300/~7000 generated streams and segmentations per run, 0 disagreements required); "
              "serde_json's request decoding enters as the parameter `dec`; BufReader as an arbitrary read schedule.")

TEXTS = {
    "C01": {
        "text": "Theorems over Model.Wire: for every service with proper method implementations and every frame list "
                "(unbounded length) replies are positional groups, each well-formed (nothing for oneway, else continues* + one "
                "final), and a frame is left without a group only if the connection does not stay open "
                "(C01_groups_in_order); library reply paths are proper without any hypothesis (C01_library_replies_proper); "
                "handle() under every read schedule equals serve on the frames of the stream (C01_handle_refines_serve), so "
                "pipelining depth cannot matter. The same run evaluates the decidable predicate P_C01 on the real "
                "implementation's replies for every generated stream.",
        "design_ref": "§7 C01", "note": _WIRE_NOTE,
        "technique": "Lean 4 proof (induction over frame list / refinement of handle loop to serve) + correspondence run",
    },
    "C02": {
        "text": "Theorems: any two read schedules of the same byte stream give equal replies/status/tail "
                "(C02_chunking_invariance); the returned tail is exactly the NUL-free suffix after the last complete message "
                "(C02_tail_is_suffix_after_last_nul); the documented re-feeding loop over any chunking equals one call on the "
                "whole stream (C02_feed_eq_whole, C02_bytewise); on upgrade, returned buffer ++ unread reader = every byte "
                "after the upgrading request, once, in order (C02_upgrade_hands_over_all). Unbounded in stream length, chunk "
                "count and buffer capacity. Correspondence + P_C02 on real handle() with a reference whole-stream run.",
        "design_ref": "§7 C02", "note": _WIRE_NOTE + " The listen worker's own handling of the returned tail is covered by C13's model, not here.",
        "technique": "Lean 4 proof (invariant over the feeding loop, reader refinement) + correspondence run",
    },
    "C03": {
        "text": "Theorems for all services (any registrations, duplicates), all method strings and parameters: split at the "
                "last dot (ifaceOfChars_append / C03_split_at_last_dot), dispatch to exactly the last registration under that name "
                "with the request unchanged (C03_routes_to_named_interface), InterfaceNotFound / MethodNotFound payloads, GetInfo "
                "lists org.varlink.service first then each registered name once (Nodup + membership), "
                "GetInterfaceDescription verbatim / InvalidParameter clauses. Correspondence on prefix-sharing name sets with "
                "recording interfaces; P_C03 on the real replies and recorded calls. Tie by extraction as well: "
                "C03_names_are_source (the built-in interface name and the four standard error names are the string literals "
                "tools/extract.d/wire.py reads from varlink/src/lib.rs on every run).",
        "design_ref": "§7 C03", "note": _WIRE_NOTE,
        "technique": "Lean 4 proof (case analysis on routing, list lemmas) + correspondence run + extraction of the reply gate / names from the source text on every run",
    },
    "C04": {
        "text": "Theorem C04_no_reply_for_oneway: for every service, every script and every request with oneway:true the group "
                "of replies is empty (built-in interface, unknown interface/method, no dot, bad parameters included); "
                "C04_alignment: in every connection the slot of each oneway request is empty. P_C04 on the real reply stream "
                "(no reply mentions a oneway request's token; finals never exceed non-oneway requests). Tie by extraction as "
                "well: C04_gate_is_source (replyStruct / replyParameters / isOneway of the model equal the gate regenerated "
                "from reply_struct / reply_parameters / is_oneway of the source on every run, Model/ExtractedWire.lean) and "
                "C04_source_gate_never_writes_oneway (over the extracted expression alone).",
        "design_ref": "§7 C04", "note": _WIRE_NOTE + " Client half: Model.Client (Props/C07.lean: C04_client_oneway, C04_client_oneway_never_reads), tied by the client suite which this check also runs.",
        "technique": "Lean 4 proof (induction over scripts and frame lists) + correspondence run + extraction of the reply gate / names from the source text on every run",
    },
    "C05": {
        "text": "Theorems: the gate (C05_gate, C05_mismatch_writes_nothing) and, for every request, every plain script of any "
                "length and every connection, no reply with continues:true unless the request carried more:true "
                "(C05_continues_only_for_more, C05_connection). Client half: C05_iteration over Model.Client (Props/C07.lean, induction on the number of continues replies), tied by the client suite which this check also runs. "
                "Correspondence with scripted interfaces (gate-violating scripts included); P_C05 on real output. Tie by "
                "extraction as well: C05_gate_is_source and C05_source_gate_refuses_first over the gate regenerated from "
                "reply_struct / wants_more on every run (a continues reply without more is refused BEFORE the oneway early "
                "return; a written reply is marked exactly when continues is set).",
        "design_ref": "§7 C05", "note": _WIRE_NOTE,
        "technique": "Lean 4 proof (induction over action scripts) + correspondence run + extraction of the reply gate / names from the source text on every run",
    },
    "C06": {
        "text": "Theorems for every decoder (hence every way a message can be malformed), every stream and read schedule: "
                "replies are exactly those of the well-formed prefix, nothing for the malformed frame or any later one, result "
                "Err (C06_bad_frame_contained, C06_handle_contains_bad, C06_bad_after_stop_ignored). No-panic of "
                "serde_json/std is observed under catch_unwind on generated hostile inputs (truncation, bit flips, invalid "
                "UTF-8, nesting 100-400, type confusion), not proved.",
        "design_ref": "§7 C06", "note": _WIRE_NOTE + " Partial: memory safety / stack depth are outside the model; neighbour connections are C13.",
        "technique": "Lean 4 proof (serve over concatenated frame lists) + correspondence run incl. malformed stream",
    },
}

from propspec import FRAGMENTS  # noqa: E402
for _p, _j in FRAGMENTS.items():
    TEXTS[_p] = _j["text"]
