#!/bin/bash
# mutcheck.sh PATCH PROP [PROP...] — run ./check PROP quick against /repo HEAD + PATCH without touching
# /repo or /verif: a scratch worktree of /repo and a scratch copy of /verif (all "/repo" paths rewritten).
# Used while other builders are compiling against /repo; the official flow (git -C /repo apply; ./check;
# git -C /repo checkout -- .) gives the same verdicts.
set -u
PATCH="$(readlink -f "$1")"; shift
TAG="mv-$$"
BASE="/tmp/$TAG"
mkdir -p "$BASE"
git -C /repo worktree add --detach "$BASE/repo" HEAD -q || exit 2
if ! git -C "$BASE/repo" apply "$PATCH"; then echo "PATCH DOES NOT APPLY"; git -C /repo worktree remove --force "$BASE/repo"; rm -rf "$BASE"; exit 2; fi
rsync -a --exclude work/target --exclude work/run --exclude work/replays --exclude .git /verif/ "$BASE/verif/"
grep -rl "/repo" "$BASE/verif/check" "$BASE/verif/setup.sh" "$BASE/verif/tools" "$BASE/verif/harness" --include='*' 2>/dev/null \
  | grep -v "/target/" | xargs sed -i -E "s#/repo([^A-Za-z0-9_]|\$)#$BASE/repo\\1#g"
mkdir -p "$BASE/verif/work"
# reuse compiled dependencies: copy the cargo target dir (a real copy: hard links would let the scratch build rewrite /verif's artifacts)
cp -a /verif/work/target "$BASE/verif/work/target"
RC=0
for P in "$@"; do
  echo "=== $P"
  (cd "$BASE/verif" && ./check "$P" "${TIER:-quick}" 2>&1 | tail -4)
  if [ -f "$BASE/verif/work/replays/$P-1-input.case" ]; then head -3 "$BASE/verif/work/replays/$P-1-input.case" | cut -c1-400; fi
  if [ -f "$BASE/verif/work/replays/$P-1-tie.case" ]; then head -4 "$BASE/verif/work/replays/$P-1-tie.case" | cut -c1-400; fi
done
git -C /repo worktree remove --force "$BASE/repo"
rm -rf "$BASE"
git -C /repo worktree prune
exit $RC
