#!/usr/bin/env python3
"""Append the gen suite's matcher to tools/findings.py, its entries to known_findings.json and its imports to
lean/VarlinkVerif.lean of the tree given as argv[1] (idempotent; other content untouched)."""
import json, os, sys
root = sys.argv[1]

MATCHER = '''

# ---- suite gen (C08/C09): appended by the owner of that suite -------------------------------------
@matcher("gen-class")
def _gen_class(params, suite, reason, case, obs):
    """reason = '<what> class=<c1>+<c2>…' as printed by Pred/Gen.lean (the classes are the `Safe` components
    of Model/GenEmit.lean that fail for the definition in the case line).  Matches when this entry's class is
    the first one listed, every listed class is a recorded C09 class, <what> is one of the outcomes recorded
    for the class, and (double check, independent of Lean) the definition text in the case matches idl_regex."""
    import re as _re
    if suite != "gen" or " class=" not in reason:
        return False
    what, cls = reason.rsplit(" class=", 1)
    classes = cls.split("+")
    known = {e.get("params", {}).get("class") for e in load()
             if e.get("matcher") == "gen-class" and e.get("status") == "finding"}
    if classes[0] != params.get("class") or not all(c in known for c in classes):
        return False
    if len(classes) == 1 and what not in params.get("outcomes", []):
        return False
    m = _re.search(r"\\(src x([0-9a-f]*)", case)
    if not m:
        return False
    try:
        text = bytes.fromhex(m.group(1)).decode("utf8", "replace")
    except ValueError:
        return False
    rx = params.get("idl_regex")
    return bool(rx) and _re.search(rx, text, _re.S) is not None
'''

p = os.path.join(root, "tools", "findings.py")
s = open(p).read()
if '@matcher("gen-class")' not in s:
    s = s.rstrip("\n") + "\n" + MATCHER
    open(p, "w").write(s)

W = "interface org.example.w\\n"
ENTRIES = [
 ("C09-F1", "raw-ident", ["generator-panic", "front-end-panic"], r"\b(self|Self|super|crate)\b",
  "the generator panics (through every front-end) when a field, enum variant or typedef is named self, Self, super or crate: "
  "syn::parse_str(\"r#\"+name).unwrap() / format_ident!(\"r#{}\") cannot build these raw identifiers. Reproduce: `" + W +
  "method Foo(self: int) -> ()` -> panic `called Result::unwrap() on an Err value: Error(\"cannot parse string into token stream\")`; `" + W +
  "type Self (a: int)\\nmethod Foo() -> ()` -> panic `` `r#Self` cannot be a raw identifier ``"),
 ("C09-F2", "kw-fn", ["rustc-syntax", "front-end-rustc-fail"], r"\b(method|error)\s+[A-Z]",
  "a method whose snake-case name is a reserved word (Type, Match, MATCH, Self, Async, Try, ...) is emitted as `fn type(...)`: "
  "Ident::new(to_snake_case(name)) is not a raw identifier; an error named Self becomes the enum variant `Self`. Reproduce: `" + W +
  "method Type() -> ()` -> rustc `expected identifier, found keyword `type``"),
 ("C09-F3", "snake-dup", ["rustc-dup", "front-end-rustc-fail"], r"\b(method|error)\s+[A-Z]",
  "two methods (or two errors) with the same snake-case name, or a method named CallUpgraded, give two fns of the same name in one trait. "
  "Reproduce: `" + W + "method GetID() -> ()\\nmethod GetId() -> ()` -> rustc E0428 `the name `get_id` is defined multiple times` (+E0201, E0046)"),
 ("C09-F4", "err-anon-dup", ["rustc-dup", "front-end-rustc-fail"], r"\berror\s+\w+\s*\([^#]*\(",
  "an anonymous struct/enum inside an error's parameters is emitted twice (generate_error_code and VError::to_tokenstream; also visible "
  "in tests/org.example.complex.rs_out, which therefore does not compile). Reproduce: `" + W +
  "method Foo() -> ()\\nerror Bad (reason: (a, b))` -> rustc E0428 `the name `Bad_Args_reason` is defined multiple times` (+E0119)"),
 ("C09-F5", "reserved-type", ["rustc-dup", "rustc-shadow", "front-end-rustc-fail"],
  r"\btype\s+(ErrorKind|Error|Result|VarlinkCallError|VarlinkInterface|VarlinkClientInterface|VarlinkClient|VarlinkInterfaceProxy|BufRead|Arc|RwLock|CallTrait|Box|From|Option|Send|Sync|Vec|String)\b",
  "a typedef named like an item every generated module defines (Error, ErrorKind, Result, VarlinkCallError, VarlinkInterface, "
  "VarlinkClientInterface, VarlinkClient, VarlinkInterfaceProxy), imports (BufRead, Arc, RwLock, CallTrait) or uses unqualified from the "
  "prelude (Box, From, Option, Send, Sync, Vec, String). Reproduce: `" + W + "type Error (a: int)\\nmethod Foo() -> ()` -> rustc E0428 "
  "`the name `Error` is defined multiple times`; `type Option (a, b)` -> E0107 `enum takes 0 generic arguments`; `type String (a: int)` -> E0308"),
 ("C09-F6", "path-dup", ["rustc-dup", "front-end-rustc-fail"], r"_|\bCall\b",
  "names derived by joining with `_` collide: fields a_b and a->b both give T_a_b; typedef Call with an anonymous field Foo collides "
  "with trait Call_Foo; method Call with method Args/Reply (or error Call with method Args) gives Call_Args/Call_Reply twice. "
  "Reproduce: `" + W + "type T (a_b: (x: int), a: (b: (y: int)))\\nmethod Foo(t: T) -> ()` -> rustc E0428 `the name `T_a_b` is defined multiple times`; `"
  + W + "method Call(a: int) -> (b: int)\\nmethod Args() -> ()` -> E0428 `Call_Args`"),
 ("C09-F7", "opt-cycle", ["rustc-infinite", "front-end-rustc-fail"], r"\?",
  "a type that contains itself through `?` is emitted as Option<T> without Box. Reproduce: `" + W +
  "type T (next: ?T)\\nmethod Foo(t: T) -> ()` -> rustc E0072 `recursive type `T` has infinite size`"),
 ("C09-F8", "err-fn-shadow", ["rustc-ambiguous", "front-end-rustc-fail"], r"\berror\s+(?i:struct|methodnotfound|invalidparameter)\b",
  "an error named Struct or MethodNotFound (or InvalidParameter when some method has parameters) gives VarlinkCallError a fn "
  "reply_struct / reply_method_not_found / reply_invalid_parameter that is ambiguous with the CallTrait method the emitted code calls "
  "(org.varlink.service.varlink itself is such a definition). Reproduce: `" + W + "method Foo() -> ()\\nerror MethodNotFound ()` -> rustc E0034 `multiple applicable items in scope`"),
 ("C09-F9", "param-shadow", ["rustc-shadow", "front-end-rustc-fail"], r"\b(Some|None|Ok|Err|Error)\s*:",
  "a method parameter, reply member or error parameter named Some, None, Ok, Err or Error becomes a fn parameter pattern that refers "
  "to the tuple/unit item of that name. Reproduce: `" + W + "method Foo(Some: int) -> ()` -> rustc E0530 `function parameters cannot shadow tuple variants`; `-> (None: int)` -> E0308"),
 ("C09-F10", "param-variant", ["rustc-lint", "front-end-rustc-fail"], r"\w+\s*:\s*[A-Z(]",
  "a method parameter, reply member or error parameter whose type is an enum with a variant of the parameter's own name trips the "
  "deny-by-default lint bindings_with_variant_name (tests/org.example.complex.varlink itself: `interface: Interface`). Reproduce: `" + W +
  "type State (name, enum, ref)\\nmethod Foo() -> ()\\nerror Oops (enum: State)` -> rustc E0170 `pattern binding `r#enum` is named the same as one of the variants of the type `State``"),
]
p = os.path.join(root, "known_findings.json")
j = json.load(open(p))
ids = {e.get("id") for e in j}
changed = False
for (fid, cls, outcomes, rx, what) in ENTRIES:
    entry = {"property": "C09", "id": fid, "status": "finding", "matcher": "gen-class",
             "params": {"class": cls, "outcomes": outcomes, "idl_regex": rx},
             "what": what + " [not fixable in /repo without changing the pinned golden output of test_generate or the public naming scheme]"}
    if fid in ids:
        # this suite's own entries are kept up to date (entries of other suites are never touched)
        for k, e in enumerate(j):
            if e.get("id") == fid and e.get("matcher") == "gen-class" and e != entry:
                j[k] = entry
                changed = True
        continue
    j.append(entry)
    changed = True
if changed:
    json.dump(j, open(p, "w"), indent=1)

IMPORTS = ["VarlinkVerif.Model.Gen", "VarlinkVerif.Model.GenEmit", "VarlinkVerif.Lemmas.Gen", "VarlinkVerif.Lemmas.GenEmit", "VarlinkVerif.Lemmas.GenPred", "VarlinkVerif.Lemmas.GenLoop", "VarlinkVerif.Lemmas.GenPaths",
           "VarlinkVerif.Pred.Gen", "VarlinkVerif.Props.C08", "VarlinkVerif.Props.C09"]
p = os.path.join(root, "lean", "VarlinkVerif.lean")
s = open(p).read()
add = [m for m in IMPORTS if ("import " + m + "\n") not in s and os.path.exists(os.path.join(root, "lean", *m.split(".")) + ".lean")]
if add:
    if not s.endswith("\n"):
        s += "\n"
    s += "".join("import %s\n" % m for m in add)
    open(p, "w").write(s)
print("integrated into", root)
