#!/usr/bin/env python3
"""collect_seeded.py — copy confirmed seeded changes from /tmp/mut/<P>/out/<m> into /verif/seeded/<P>-<m>/
(patch.diff, README.md of the author, the demonstration without build output) and write meta.json from
seeded/index.json (what it breaks, what it needs, which check catches it) + the confirmation logs."""
import glob, json, os, shutil, sys
ROOT = os.path.dirname(os.path.dirname(os.path.abspath(__file__)))
idx = json.load(open(os.path.join(ROOT, "seeded", "index.json")))
conf = {}
for f in sorted(glob.glob(os.path.join(ROOT, "seeded", "confirm", "*.log"))) + glob.glob("/tmp/mut/confirm*.log") + glob.glob("/tmp/mut2/confirm*.log") + glob.glob("/tmp/mut3/confirm*.log") + glob.glob("/tmp/mut4/confirm*.log") + glob.glob("/tmp/mut5/confirm*.log") + glob.glob("/tmp/mut6/confirm*.log"):
    for line in open(f):
        line = line.strip()
        if line.startswith("{"):
            try:
                j = json.loads(line)
                # several runs of the same confirmation may exist (a hung flaky test, a demo that needed its
                # run.sh): a complete confirmation is never replaced by an incomplete one
                good = lambda c: (c.get("demo_clean_exit") == 0 and c.get("demo_mutant_exit") not in (0, None)
                                  and c.get("suite_passed", 0) >= 60 and c.get("suite_failed_nonflaky", 1) == 0)
                if j["id"] not in conf or good(j) or not good(conf[j["id"]]):
                    conf[j["id"]] = j
            except Exception:
                pass
for key, e in idx.items():
    p, m = key.split("/")
    src = e.get("dir") or "/tmp/mut/%s/out/%s" % (p, m)
    dst = os.path.join(ROOT, "seeded", "%s-%s" % (p, m))
    p = p.replace("R2-", "").replace("R3-", "").replace("R4-", "").replace("R5-", "").replace("R6-", "")
    if os.path.isdir(src):
        os.makedirs(dst, exist_ok=True)
        for name in os.listdir(src):
            s = os.path.join(src, name)
            d = os.path.join(dst, name)
            if os.path.isdir(s):
                if os.path.exists(d):
                    shutil.rmtree(d)
                shutil.copytree(s, d, ignore=shutil.ignore_patterns("target", "*.log", "logs"))
            elif os.path.getsize(s) < 300000:
                shutil.copy(s, d)
    c = conf.get(key) or conf.get(key.replace("R2-", "r2:")) or conf.get(key.replace("R3-", "r3:")) or conf.get(key.replace("R4-", "r4:")) or conf.get(key.replace("R5-", "r5:")) or conf.get(key.replace("R6-", "r6:"))
    meta = {
        "property": p, "mutant": m, "breaks": p, "site": e["site"], "needs_to_manifest": e["needs"],
        "caught_by": e.get("caught_by", {}), "missed": e.get("missed"), "machinery_strengthened": e.get("strengthened"),
        "confirmed": c, "what_was_run": [
            "tools/confirm_mutant.sh %s %s  (patch applies to a clean worktree; `cargo test --workspace --no-fail-fast --offline` "
            "with the patch in a private network namespace, flaky test_tcp ignored; demonstration with and without the patch)" % (p, m),
            "tools/mutcheck.sh seeded/%s-%s/patch.diff <properties>  (./check <property> quick against /repo HEAD + patch in a scratch "
            "worktree and a scratch copy of /verif; equivalent to git -C /repo apply; ./check; git -C /repo checkout -- .)" % (p, m)],
    }
    if os.path.isdir(dst):
        base = os.path.join(dst, "BASE")
        if os.path.exists(base):
            # newest /repo commit patch.diff applies to (later fixes may have touched the same lines; a
            # patch.rebased-<commit>.diff next to it is the same change on a newer commit)
            meta["patch_applies_to_repo_commit"] = open(base).read().strip()
            meta["rebased_patches"] = sorted(f for f in os.listdir(dst) if f.startswith("patch.rebased-"))
        json.dump(meta, open(os.path.join(dst, "meta.json"), "w"), indent=1)
print("collected", len([k for k in idx if os.path.isdir(os.path.join(ROOT, "seeded", k.replace("/", "-")))]), "of", len(idx))
