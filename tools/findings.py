"""Known findings: /verif/known_findings.json is committed and never written at run time.

An entry {property, id, status: "finding"|"fixed", matcher, params, what, commit?}.
Only status == "finding" suppresses a violation, and only when its coded matcher
recognises the specific failing case.
"""
import json
import os
import re

ROOT = os.path.dirname(os.path.dirname(os.path.abspath(__file__)))


def load():
    p = os.path.join(ROOT, "known_findings.json")
    if not os.path.exists(p):
        return []
    return json.load(open(p))


def _hexstr(s):
    return s.encode().hex()


MATCHERS = {}


def matcher(name):
    def deco(f):
        MATCHERS[name] = f
        return f
    return deco


@matcher("reason-equals")
def _reason_equals(params, suite, reason, case, obs):
    return reason == params.get("reason") and (params.get("suite") in (None, suite))


@matcher("reason-and-case-contains")
def _reason_and_case(params, suite, reason, case, obs):
    if reason != params.get("reason"):
        return False
    return all(_hexstr(s) in case or s in case for s in params.get("case_contains", []))


def match(prop, suite, reason, case, obs):
    for e in load():
        if e.get("property") != prop or e.get("status") != "finding":
            continue
        m = MATCHERS.get(e.get("matcher"))
        if m and m(e.get("params", {}), suite, reason, case, obs):
            return "%s: %s" % (e.get("id"), e.get("what"))
    return None


# ---- suite gen (C08/C09): appended by the owner of that suite -------------------------------------
@matcher("gen-class")
def _gen_class(params, suite, reason, case, obs):
    """reason = '<what> class=<c1>+<c2>…' as printed by Pred/Gen.lean (the classes are the `Safe` components
    of Model/GenEmit.lean that fail for the definition in the case line).  Matches when this entry's class is
    the first one listed, every listed class is a recorded C09 class, <what> is one of the outcomes recorded
    for the class, and (double check, independent of Lean) the definition text in the case matches idl_regex."""
    import re as _re
    if suite != "gen" or " class=" not in reason:
        return False
    what, cls = reason.rsplit(" class=", 1)
    classes = cls.split("+")
    known = {e.get("params", {}).get("class") for e in load()
             if e.get("matcher") == "gen-class" and e.get("status") == "finding"}
    if classes[0] != params.get("class") or not all(c in known for c in classes):
        return False
    if len(classes) == 1 and what not in params.get("outcomes", []):
        return False
    m = _re.search(r"\(src x([0-9a-f]*)", case)
    if not m:
        return False
    try:
        text = bytes.fromhex(m.group(1)).decode("utf8", "replace")
    except ValueError:
        return False
    rx = params.get("idl_regex")
    return bool(rx) and _re.search(rx, text, _re.S) is not None


# ---- suite proxy (C18): appended by the owner of that suite ---------------------------------------
@matcher("reason-in")
def _reason_in(params, suite, reason, case, obs):
    """the predicate's reason names the input class at the first divergence (see Pred/Proxy.lean)"""
    return reason in params.get("reasons", []) and (params.get("suite") in (None, suite))
