"""Known findings: /verif/known_findings.json is committed and never written at run time.

An entry {property, id, status: "finding"|"fixed", matcher, params, what, commit?}.
Only status == "finding" suppresses a violation, and only when its coded matcher
recognises the specific failing case.
"""
import json
import os
import re

ROOT = os.path.dirname(os.path.dirname(os.path.abspath(__file__)))


def load():
    p = os.path.join(ROOT, "known_findings.json")
    if not os.path.exists(p):
        return []
    return json.load(open(p))


def _hexstr(s):
    return s.encode().hex()


MATCHERS = {}


def matcher(name):
    def deco(f):
        MATCHERS[name] = f
        return f
    return deco


@matcher("reason-equals")
def _reason_equals(params, suite, reason, case, obs):
    return reason == params.get("reason") and (params.get("suite") in (None, suite))


@matcher("reason-and-case-contains")
def _reason_and_case(params, suite, reason, case, obs):
    if reason != params.get("reason"):
        return False
    return all(_hexstr(s) in case or s in case for s in params.get("case_contains", []))


def match(prop, suite, reason, case, obs):
    for e in load():
        if e.get("property") != prop or e.get("status") != "finding":
            continue
        m = MATCHERS.get(e.get("matcher"))
        if m and m(e.get("params", {}), suite, reason, case, obs):
            return "%s: %s" % (e.get("id"), e.get("what"))
    return None
