#!/usr/bin/env python3
"""Regenerate MANIFEST.json from tools/propspec.py + tools/manifest_texts.py."""
import json, os, sys
ROOT = os.path.dirname(os.path.dirname(os.path.abspath(__file__)))
sys.path.insert(0, os.path.join(ROOT, "tools"))
from propspec import PROPS
from manifest_texts import TEXTS, NOT_APPLICABLE, HOOK_COMMITS

ALL = ["C%02d" % i for i in range(1, 21)]
checks = []
for p in ALL:
    if p not in PROPS or p not in TEXTS:
        continue
    t = TEXTS[p]
    checks.append({
        "property_id": p,
        "quick_cmd": "./check %s quick" % p,
        "thorough_cmd": "./check %s thorough" % p,
        "evidence_file": "/verif/evidence/%s.json" % p,
        "replay_cmd_template": "./check %s --replay {path}" % p,
        "engine": "lean4-proof+correspondence",
        "level_claimed": {"category": "proof", "text": t["text"], "design_ref": t["design_ref"]},
        "level_note": t["note"],
        "technique": t["technique"],
    })
na = [{"property_id": p, "reason": NOT_APPLICABLE.get(p, "not yet covered by a check in this commit; the Lean model for it is planned in DESIGN.md §7")}
      for p in ALL if p not in [c["property_id"] for c in checks]]
m = {
    "version": 1,
    "setup_cmd": "./setup.sh",
    "hooks": {
        "guard": "varlink_rust_verif",
        "enable": "RUSTFLAGS='--cfg varlink_rust_verif' (set by ./check and ./setup.sh for every cargo build of the harness and of /repo)",
        "baseline_off_cmd": "cd /repo && cargo test --workspace --no-fail-fast --offline",
        "source_commits": HOOK_COMMITS,
        "add_only": True,
    },
    "engines": [{
        "name": "lean4-proof+correspondence",
        "path": "/verif/lean (models, lemmas, property theorems, vmodel driver), /verif/harness (Rust, runs the real code), /verif/check",
        "serves_properties": [c["property_id"] for c in checks],
        "kind_free_text": "machine-checked proof in Lean 4 over hand-written executable models; model tied to /repo on every run by a correspondence (differential) run through a line protocol; decidable property predicates evaluated on the implementation's observations to search for failing inputs",
    }],
    "checks": checks,
    "not_applicable": na,
    "notes": "See DESIGN.md. known_findings.json lists fixed defects (fix: commits in /repo) and recorded findings.",
}
json.dump(m, open(os.path.join(ROOT, "MANIFEST.json"), "w"), indent=1)
print("MANIFEST.json:", len(checks), "checks,", len(na), "not claimed")
