#!/usr/bin/env python3
"""extract.py REPO OUT — pull a few decision expressions and constants out of the Rust source
and write them as Lean definitions (DESIGN §4.2).  Fails loudly (exit 1) when an anchored
pattern no longer matches: the tie for the dependent theorems is then broken.

Extracted:
  * the growth condition of ThreadPool::execute            -> Extracted.growCond
  * the number of workers ThreadPool::new starts           -> Extracted.initialWorkers
  * listen(): slice length with a stop flag, ms per second,
    the countdown test and the idle check                  -> Extracted.stopSlice, msPerSec,
                                                              countdownDone, idleNow
  * listen()'s connection closure: when it switches to
    upgraded mode, which returned bytes it keeps, when it
    calls handle() again without waiting for input         -> Extracted.switchedNow, keepUnread,
                                                              handOverAtOnce
"""
import os
import re
import sys


class Fail(Exception):
    pass


# ---- a tiny expression translator: Rust boolean/arith expression -> Lean Bool/Nat expression

TOK = re.compile(r"\s*(&&|\|\||<=|>=|==|!=|!|<|>|\+|-|\*|\(|\)|[A-Za-z_][A-Za-z0-9_\.]*(?:\(\))?|\d+(?:_?[a-z0-9]+)?)")


def tokenize(s):
    pos, out = 0, []
    s = s.strip()
    while pos < len(s):
        m = TOK.match(s, pos)
        if not m:
            raise Fail("cannot tokenize %r at %d" % (s, pos))
        out.append(m.group(1))
        pos = m.end()
    return out


class P:
    def __init__(self, toks, names):
        self.t, self.i, self.names = toks, 0, names

    def peek(self):
        return self.t[self.i] if self.i < len(self.t) else None

    def eat(self):
        x = self.peek()
        self.i += 1
        return x

    def expr(self):
        l = self.conj()
        while self.peek() == "||":
            self.eat()
            l = "(%s || %s)" % (l, self.conj())
        return l

    def conj(self):
        l = self.cmp()
        while self.peek() == "&&":
            self.eat()
            l = "(%s && %s)" % (l, self.cmp())
        return l

    def cmp(self):
        l = self.sum()
        if self.peek() in ("<=", ">=", "==", "!=", "<", ">"):
            op = self.eat()
            r = self.sum()
            lean = {"<=": "≤", ">=": "≥", "==": "=", "!=": "≠", "<": "<", ">": ">"}[op]
            return "decide (%s %s %s)" % (l, lean, r)
        return l

    def sum(self):
        l = self.prod()
        while self.peek() in ("+", "-"):
            op = self.eat()
            l = "(%s %s %s)" % (l, op, self.prod())
        return l

    def prod(self):
        l = self.atom()
        while self.peek() == "*":
            self.eat()
            l = "(%s * %s)" % (l, self.atom())
        return l

    def atom(self):
        x = self.eat()
        if x == "!":
            return "(!%s)" % self.atom()
        if x == "(":
            e = self.expr()
            if self.eat() != ")":
                raise Fail("expected )")
            return e
        if x is None:
            raise Fail("unexpected end of expression")
        if re.match(r"\d", x):
            return re.match(r"\d+", x.replace("_", "")).group(0)
        if x in self.names:
            return self.names[x]
        raise Fail("unknown name %r in extracted expression" % x)


def translate(expr, names):
    p = P(tokenize(expr), names)
    e = p.expr()
    if p.peek() is not None:
        raise Fail("trailing tokens in %r" % expr)
    return e


def balanced_after(src, start):
    """the parenthesised expression starting at src[start] == '('"""
    depth = 0
    for i in range(start, len(src)):
        if src[i] == "(":
            depth += 1
        elif src[i] == ")":
            depth -= 1
            if depth == 0:
                return src[start:i + 1]
    raise Fail("unbalanced parentheses")


def body_of(src, header_re):
    m = re.search(header_re, src)
    if not m:
        raise Fail("anchor not found: " + header_re)
    i = src.index("{", m.end() - 1) if src[m.end() - 1] != "{" else m.end() - 1
    depth = 0
    for j in range(i, len(src)):
        if src[j] == "{":
            depth += 1
        elif src[j] == "}":
            depth -= 1
            if depth == 0:
                return src[i:j + 1]
    raise Fail("unbalanced braces")


def run_other_extractors(repo, out):
    """extractors owned by other suites: tools/extract.d/<name>.py REPO <lean model dir>; each writes
    Model/Extracted<Name>.lean and, on failure, leaves the old file and makes us print which module is stale"""
    import glob
    import subprocess
    ok = True
    for ex in sorted(glob.glob(os.path.join(os.path.dirname(os.path.abspath(__file__)), "extract.d", "*.py"))):
        r = subprocess.run([sys.executable, ex, repo, os.path.dirname(os.path.abspath(out))], stdout=subprocess.PIPE,
                           stderr=subprocess.STDOUT, text=True)
        sys.stdout.write(r.stdout)
        if r.returncode != 0:
            name = os.path.splitext(os.path.basename(ex))[0]
            print("EXTRACTION FAILED [VarlinkVerif.Model.Extracted%s]: see above" % name.capitalize())
            ok = False
    return ok


def main():
    repo, out = sys.argv[1], sys.argv[2]
    src = open(os.path.join(repo, "varlink/src/server.rs"), encoding="utf-8").read()
    src_nc = re.sub(r"//[^\n]*", "", src)
    defs = []
    try:
        # --- ThreadPool::execute growth condition
        ex = body_of(src_nc, r"pub fn execute<F>\(&mut self, f: F\)[^{]*\{")
        m = re.search(r"\bif\s*\(", ex)
        if not m:
            raise Fail("no `if (` in ThreadPool::execute")
        # the whole condition up to the opening brace of the if body
        j = ex.index("{", m.end())
        cond = ex[m.start() + 2:j].strip()
        names = {"self.num_busy()": "busy", "self.workers.len()": "workers", "self.max_workers": "max"}
        defs.append(("growCond", "(busy workers max : Nat) : Bool", translate(cond, names), cond))
        # --- ThreadPool::new: how many workers are started
        nw = body_of(src_nc, r"pub fn new\(initial_worker: usize, max_workers: usize\) -> ThreadPool \{")
        m = re.search(r"for _ in 0\.\.([^\{]+)\{", nw)
        if not m:
            raise Fail("worker start loop not found in ThreadPool::new")
        e = m.group(1).strip()
        e2 = re.sub(r"(\w+)\.min\((\w+)\)", r"MIN(\1,\2)", e)
        mm = re.fullmatch(r"MIN\((\w+),(\w+)\)", e2)
        if mm:
            lean = "min %s %s" % tuple({"initial_worker": "initial", "max_workers": "max"}[x] for x in mm.groups())
        elif e == "initial_worker":
            lean = "initial"
        else:
            raise Fail("unrecognised worker start count %r" % e)
        defs.append(("initialWorkers", "(initial max : Nat) : Nat", lean, e))
        # --- listen(): constants and countdown
        ls = body_of(src_nc, r"pub fn listen<[^{]*\{")
        m = re.search(r"let mut to_wait = listen_config\.idle_timeout \* (\d+);", ls)
        if not m:
            raise Fail("to_wait initialisation not found")
        defs.append(("msPerSec", ": Nat", m.group(1), m.group(0)))
        m = re.search(r"\.map\(\|_\| (\d+)\)\s*\.unwrap_or\(to_wait\)", ls)
        if not m:
            raise Fail("stop-flag slice not found")
        defs.append(("stopSlice", ": Nat", m.group(1), m.group(0)))
        m = re.search(r"if (to_wait\s*[<>=!]+\s*wait_time) \{\s*if (pool\.num_busy\(\)\s*[<>=!]+\s*\d+) \{\s*return Err\(e\);", ls)
        if not m:
            raise Fail("countdown / idle check not found")
        defs.append(("countdownDone", "(toWait waitTime : Nat) : Bool",
                     translate(m.group(1), {"to_wait": "toWait", "wait_time": "waitTime"}), m.group(1)))
        defs.append(("idleNow", "(busy : Nat) : Bool", translate(m.group(2), {"pool.num_busy()": "busy"}), m.group(2)))
        if not re.search(r"\} else \{\s*to_wait -= wait_time;", ls):
            raise Fail("countdown decrement not found")
        if not re.search(r"to_wait = listen_config\.idle_timeout \* %s;\s*\} else" % defs[2][2], ls):
            raise Fail("countdown reset not found")
        # --- listen(): the per-connection closure, what it keeps of the bytes handle() returns
        k = ls.find("pool.execute(move ||")
        if k < 0:
            raise Fail("connection closure `pool.execute(move || …)` not found in listen()")
        ls = ls[k:]
        m = re.search(r"let switched = ([^;]+);", ls)
        if not m:
            raise Fail("`let switched = …;` not found in the connection closure")
        wnames = {"iface.is_none()": "(!wasUpgraded)", "iface.is_some()": "wasUpgraded", "i.is_some()": "nowUpgraded",
                  "i.is_none()": "(!nowUpgraded)", "switched": "switched", "true": "true", "false": "false",
                  "unread.is_empty()": "unreadEmpty"}
        defs.append(("switchedNow", "(wasUpgraded nowUpgraded : Bool) : Bool", translate(m.group(1), wnames), m.group(1)))
        m = re.search(r"unread = if ([^{]+)\{\s*u\s*\} else \{\s*Vec::new\(\)\s*\};", ls)
        if not m:
            raise Fail("`unread = if … { u } else { Vec::new() };` not found in the connection closure")
        defs.append(("keepUnread", "(switched nowUpgraded : Bool) : Bool", translate(m.group(1).strip(), wnames), m.group(1).strip()))
        m = re.search(r"if ([^{]+)\{\s*continue;", ls)
        if not m:
            raise Fail("`if … { continue; }` (hand the buffered bytes over without waiting) not found")
        defs.append(("handOverAtOnce", "(switched unreadEmpty : Bool) : Bool", translate(m.group(1).strip(), wnames), m.group(1).strip()))
        if not re.search(r"std::io::Read::chain\(unread\.as_slice\(\), &mut br\)", ls):
            raise Fail("`chain(unread.as_slice(), &mut br)` not found in the connection closure")
    except Fail as e:
        sys.stderr.write("extract.py: %s\n" % e)
        # the stale file stays (other properties' modules still build); the check marks the properties whose
        # theorems are stated over this module as no longer shown
        print("EXTRACTION FAILED [VarlinkVerif.Model.Extracted]: %s" % e)
        run_other_extractors(repo, out)
        sys.exit(1)
    text = ["/-", "Model.Extracted — GENERATED by tools/extract.py from /repo/varlink/src/server.rs on every run.",
            "Do not edit: the theorems of C14/C15 are stated over these definitions.", "-/", "set_option linter.unusedVariables false", "namespace VV.Extracted", ""]
    for (name, sig, lean, rust) in defs:
        text.append("/-- Rust: `%s` -/" % rust.replace("\n", " ").replace("-/", "- /"))
        text.append("def %s %s := %s" % (name, sig, lean))
        text.append("")
    text.append("end VV.Extracted")
    new = "\n".join(text) + "\n"
    old = open(out).read() if os.path.exists(out) else None
    if old != new:
        open(out, "w").write(new)
    print("extracted %d definitions" % len(defs))
    if not run_other_extractors(repo, out):
        sys.exit(1)


if __name__ == "__main__":
    main()
