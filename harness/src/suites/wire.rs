//! Suite `wire`: the server side of the protocol through `VarlinkService::handle`
//! (C01-C06).  Case input:
//!
//!   (wire <mode> <svc> <input> <dec>)
//!     mode  = whole | feed
//!     svc   = (svc x<vendor> x<product> x<version> x<url> (ifaces <iface>*))
//!     iface = (script x<name> x<desc>) | (gen x<name> x<idl text on disk>)
//!     input = (reads b<chunk>*)            the reader delivers these chunks
//!     dec   = (dec (b<frame> <decoded>)*)  what serde_json::from_slice::<Request> says
//!     decoded = bad | (req <more> <oneway> <upgrade> x<method> <params>)
//!
//! Observation:
//!   (obs <status> (out <reply>*) b<tail> b<rest> b<seen>)     feed mode: <rest> = bytes left unread in a
//!                                                              per-step slice (lost by the documented loop)
//!     status = eof | err | (up x<iface>)
//!     reply  = (r <continues> <error> <params>) | (raw b<bytes>)
use crate::rng::Rng;
use crate::sx::{self, Sx};
use crate::{Case, Ctx, Suite};
use serde_json::{json, Value};
use std::io::{BufRead, Read};
use std::sync::{Arc, Mutex};
use varlink::{Call, CallTrait, ConnectionHandler, Reply, VarlinkService};

pub mod vtest {
    #![allow(non_camel_case_types, non_snake_case, dead_code, clippy::all)]
    include!(concat!(env!("OUT_DIR"), "/org.example.vtest.rs"));
}

pub mod crlf {
    #![allow(non_camel_case_types, non_snake_case, dead_code, clippy::all)]
    include!(concat!(env!("OUT_DIR"), "/org.example.crlf.rs"));
}

/// the interface definition texts as they are on disk: what GetInterfaceDescription must return
pub const VTEST_IDL: &str = include_str!("../../idl/org.example.vtest.varlink");
pub const CRLF_IDL: &str = include_str!("../../idl/org.example.crlf.varlink");

pub struct CrlfImpl;

impl crlf::VarlinkInterface for CrlfImpl {
    fn ping(&self, call: &mut dyn crlf::Call_Ping, token: String) -> varlink::Result<()> {
        call.reply(token)
    }
}

pub struct WireSuite;

// ---------------------------------------------------------------------------
// test interfaces

pub struct ScriptIface {
    pub name: &'static str,
    pub desc: &'static str,
    pub seen: Arc<Mutex<Vec<u8>>>,
    /// (interface name, description, request as seen by the implementation)
    pub calls: Arc<Mutex<Vec<Sx>>>,
    /// socket suites: echo what the upgraded handler read as `UP:<bytes>`
    pub echo_up: bool,
}

/// The interface registered under this name has a segment-wise upgraded handler: it consumes only
/// what is available (one `fill_buf`) per invocation and returns, instead of reading to EOF, so the
/// listen loop calls it once per arriving segment.  (Keyed on the name so that the struct keeps its
/// shape for the other suites that build it.)
pub const SEGMENT_WISE_IFACE: &str = "up.seg";

/// The interface registered under this name has a line-wise upgraded handler: it reads to EOF, echoes
/// the complete lines and RETURNS the incomplete last line as unprocessed bytes ("store all bytes for
/// the next call", as examples/ping documents).
pub const LINE_WISE_IFACE: &str = "up.line";

/// Segment-wise AND line-wise: per invocation the handler takes what is available, echoes the complete
/// lines and returns the unfinished rest as unprocessed bytes, which the caller must feed in again in
/// front of whatever arrives next.
pub const SEG_LINE_IFACE: &str = "up.segline";

pub fn leak(s: &str) -> &'static str {
    Box::leak(s.to_string().into_boxed_str())
}

impl varlink::Interface for ScriptIface {
    fn get_description(&self) -> &'static str {
        self.desc
    }
    fn get_name(&self) -> &'static str {
        self.name
    }
    fn call_upgraded(&self, _call: &mut Call, bufreader: &mut dyn BufRead) -> varlink::Result<Vec<u8>> {
        let mut v = Vec::new();
        if self.name == SEG_LINE_IFACE {
            // take what is there until at least one record is complete (or the peer is done)
            let mut buf = [0u8; 4096];
            loop {
                match bufreader.read(&mut buf) {
                    Ok(0) | Err(_) => break,
                    Ok(n) => {
                        v.extend_from_slice(&buf[..n]);
                        if buf[..n].contains(&b'\n') {
                            break;
                        }
                    }
                }
            }
        } else if self.name == SEGMENT_WISE_IFACE {
            if let Ok(b) = bufreader.fill_buf() {
                v.extend_from_slice(b);
            }
            bufreader.consume(v.len());
        } else {
            let _ = bufreader.read_to_end(&mut v);
        }
        self.seen.lock().unwrap().extend_from_slice(&v);
        if self.name == LINE_WISE_IFACE || self.name == SEG_LINE_IFACE {
            let cut = v.iter().rposition(|b| *b == b'\n').map(|i| i + 1).unwrap_or(0);
            let rest = v.split_off(cut);
            if self.name == SEG_LINE_IFACE {
                // handed back, will be seen again
                let mut seen = self.seen.lock().unwrap();
                let keep = seen.len() - rest.len();
                seen.truncate(keep);
            }
            if self.echo_up {
                use std::io::Write;
                let _ = _call.writer.write_all(b"UP:");
                let _ = _call.writer.write_all(&v);
                let _ = _call.writer.flush();
            }
            return Ok(rest);
        }
        if self.echo_up {
            use std::io::Write;
            let _ = _call.writer.write_all(b"UP:");
            let _ = _call.writer.write_all(&v);
            let _ = _call.writer.flush();
        }
        Ok(Vec::new())
    }
    fn call(&self, call: &mut Call) -> varlink::Result<()> {
        let req = call.request.unwrap();
        let method: String = req.method.to_string();
        self.calls.lock().unwrap().push(sx::list(vec![
            sx::xs(self.name),
            sx::xs(self.desc),
            sx::tagged(
                "req",
                vec![
                    sx::opt_bool(req.more),
                    sx::opt_bool(req.oneway),
                    sx::opt_bool(req.upgrade),
                    sx::xs(&req.method),
                    sx::opt_json(req.parameters.as_ref()),
                ],
            ),
            // what the Call API tells the implementation about the flags of this request
            sx::tagged("api", vec![sx::boolean(call.wants_more()), sx::boolean(call.is_oneway())]),
        ]));
        let last = method.rsplit('.').next().unwrap_or("");
        if last.starts_with("Nx") {
            return call.reply_method_not_found(method);
        }
        let script: Vec<Value> = req
            .parameters
            .as_ref()
            .and_then(|p| p.get("script"))
            .and_then(|s| s.as_array())
            .cloned()
            .unwrap_or_default();
        for a in script {
            match a.get("op").and_then(|o| o.as_str()).unwrap_or("") {
                "cont" => call.set_continues(a.get("v").and_then(|v| v.as_bool()).unwrap_or(false)),
                "reply" => call.reply_struct(Reply::parameters(a.get("p").cloned()))?,
                "replytry" => {
                    let _ = call.reply_struct(Reply::parameters(a.get("p").cloned()));
                }
                "err" => call.reply_struct(Reply::error(
                    a.get("name").and_then(|v| v.as_str()).unwrap_or("").to_string(),
                    a.get("p").cloned(),
                ))?,
                "errtry" => {
                    let _ = call.reply_struct(Reply::error(
                        a.get("name").and_then(|v| v.as_str()).unwrap_or("").to_string(),
                        a.get("p").cloned(),
                    ));
                }
                "upgrade" => call.to_upgraded(),
                "stack" => {
                    // a method implementation that uses a modest amount of stack (what any thread started
                    // with the platform's defaults has many times over)
                    let kb = a.get("kb").and_then(|v| v.as_u64()).unwrap_or(0) as usize;
                    std::hint::black_box(burn_stack(kb));
                }
                "fail" => return Err(varlink::ErrorKind::Generic.into()),
                _ => {}
            }
        }
        Ok(())
    }
}

#[inline(never)]
fn burn_stack(kb: usize) -> u8 {
    let mut page = [0u8; 1024];
    page[kb % 1024] = kb as u8;
    let below = if kb > 1 { burn_stack(kb - 1) } else { 0 };
    std::hint::black_box(&mut page);
    page[kb % 1024].wrapping_add(below)
}

pub struct VTestImpl;

impl vtest::VarlinkInterface for VTestImpl {
    fn echo(&self, call: &mut dyn vtest::Call_Echo, token: String, n: i64) -> varlink::Result<()> {
        call.reply(token, n)
    }
    fn stream(&self, call: &mut dyn vtest::Call_Stream, token: String, n: i64) -> varlink::Result<()> {
        if call.wants_more() {
            call.set_continues(true);
            let mut i = 0;
            while i < n {
                call.reply(token.clone(), i)?;
                i += 1;
            }
            call.set_continues(false);
        }
        call.reply(token, n)
    }
    fn fail(&self, call: &mut dyn vtest::Call_Fail, token: String) -> varlink::Result<()> {
        call.reply_boom(token)
    }
    fn opt(&self, call: &mut dyn vtest::Call_Opt, token: String, r: Option<vtest::Rec>) -> varlink::Result<()> {
        call.reply(token, r)
    }
    fn no_args(&self, call: &mut dyn vtest::Call_NoArgs) -> varlink::Result<()> {
        call.reply()
    }
}

pub struct Built {
    pub service: VarlinkService,
    pub seen: Arc<Mutex<Vec<u8>>>,
    pub calls: Arc<Mutex<Vec<Sx>>>,
}

pub fn build_service(svc: &Sx) -> Built {
    build_service_opts(svc, false)
}

pub fn build_service_opts(svc: &Sx, echo_up: bool) -> Built {
    let l = svc.as_list().expect("svc");
    let vendor = l[1].as_str().unwrap();
    let product = l[2].as_str().unwrap();
    let version = l[3].as_str().unwrap();
    let url = l[4].as_str().unwrap();
    let seen = Arc::new(Mutex::new(Vec::new()));
    let calls = Arc::new(Mutex::new(Vec::new()));
    let mut ifaces: Vec<Box<dyn varlink::Interface + Send + Sync>> = Vec::new();
    for i in &l[5].as_list().unwrap()[1..] {
        let il = i.as_list().unwrap();
        match il[0].as_atom().unwrap() {
            "script" | "script-avail" => ifaces.push(Box::new(ScriptIface {
                name: leak(&il[1].as_str().unwrap()),
                desc: leak(&il[2].as_str().unwrap()),
                seen: seen.clone(),
                calls: calls.clone(),
                echo_up,
            })),
            "gen" => match il[1].as_str().unwrap().as_str() {
                "org.example.vtest" => ifaces.push(Box::new(vtest::new(Box::new(VTestImpl)))),
                "org.example.crlf" => ifaces.push(Box::new(crlf::new(Box::new(CrlfImpl)))),
                other => panic!("generated interface {}", other),
            },
            other => panic!("iface kind {}", other),
        }
    }
    Built { service: VarlinkService::new(vendor, product, version, url, ifaces), seen, calls }
}

// ---------------------------------------------------------------------------
// a reader that delivers a fixed chunk schedule

pub struct ChunkReader {
    pub chunks: Vec<Vec<u8>>,
    pub idx: usize,
    pub pos: usize,
}

impl ChunkReader {
    pub fn new(chunks: Vec<Vec<u8>>) -> Self {
        ChunkReader { chunks, idx: 0, pos: 0 }
    }
    pub fn remaining(&self) -> Vec<u8> {
        let mut v = Vec::new();
        for (i, c) in self.chunks.iter().enumerate().skip(self.idx) {
            if i == self.idx {
                v.extend_from_slice(&c[self.pos..]);
            } else {
                v.extend_from_slice(c);
            }
        }
        v
    }
}

impl Read for ChunkReader {
    fn read(&mut self, buf: &mut [u8]) -> std::io::Result<usize> {
        if self.idx >= self.chunks.len() {
            return Ok(0);
        }
        let c = &self.chunks[self.idx];
        if c.is_empty() {
            // an empty delivery is EOF for this call
            self.idx += 1;
            self.pos = 0;
            return Ok(0);
        }
        let n = std::cmp::min(buf.len(), c.len() - self.pos);
        buf[..n].copy_from_slice(&c[self.pos..self.pos + n]);
        self.pos += n;
        if self.pos == c.len() {
            self.idx += 1;
            self.pos = 0;
        }
        Ok(n)
    }
}

impl BufRead for ChunkReader {
    fn fill_buf(&mut self) -> std::io::Result<&[u8]> {
        if self.idx >= self.chunks.len() {
            return Ok(&[]);
        }
        if self.chunks[self.idx].is_empty() {
            self.idx += 1;
            self.pos = 0;
            return Ok(&[]);
        }
        Ok(&self.chunks[self.idx][self.pos..])
    }
    fn consume(&mut self, amt: usize) {
        if self.idx >= self.chunks.len() {
            return;
        }
        self.pos += amt;
        if self.pos >= self.chunks[self.idx].len() {
            self.idx += 1;
            self.pos = 0;
        }
    }
}

// ---------------------------------------------------------------------------
// observation helpers

pub fn canon_reply_value(v: &Value) -> Sx {
    // raw view of a reply object as it is on the wire
    if let Value::Object(o) = v {
        let known = o.keys().all(|k| k == "continues" || k == "error" || k == "parameters");
        let cont = match o.get("continues") {
            None => Some(None),
            Some(Value::Bool(b)) => Some(Some(*b)),
            _ => None,
        };
        let err = match o.get("error") {
            None => Some(None),
            Some(Value::String(s)) => Some(Some(s.clone())),
            _ => None,
        };
        if let (true, Some(c), Some(e)) = (known, cont, err) {
            let mut params = o.get("parameters").cloned();
            // canonicalise: hash-map order of GetInfo's interface list after its head
            if let Some(Value::Object(p)) = params.as_mut() {
                if let Some(Value::Array(a)) = p.get_mut("interfaces") {
                    if a.len() > 1 && a.iter().all(|x| x.is_string()) {
                        a[1..].sort_by(|x, y| x.as_str().unwrap().as_bytes().cmp(y.as_str().unwrap().as_bytes()));
                    }
                }
                // serde's error text is not modelled
                if e.as_deref() == Some("org.varlink.service.InvalidParameter") {
                    if let Some(Value::String(s)) = p.get_mut("parameter") {
                        if s != "parameters" && s != "interface" {
                            *s = "*".into();
                        }
                    }
                }
            }
            return sx::tagged("r", vec![sx::opt_bool(c), sx::opt_str(e.as_deref()), sx::opt_json(params.as_ref())]);
        }
    }
    sx::tagged("raw", vec![sx::bs(serde_json::to_string(v).unwrap().as_bytes())])
}

pub fn split_replies(out: &[u8]) -> Vec<Sx> {
    let mut res = Vec::new();
    let mut start = 0;
    for (i, b) in out.iter().enumerate() {
        if *b == 0 {
            let piece = &out[start..i];
            match serde_json::from_slice::<Value>(piece) {
                Ok(v) => res.push(canon_reply_value(&v)),
                Err(_) => res.push(sx::tagged("raw", vec![sx::bs(piece)])),
            }
            start = i + 1;
        }
    }
    if start < out.len() {
        res.push(sx::tagged("raw", vec![sx::bs(&out[start..])]));
    }
    res
}

pub fn decode_frame(frame: &[u8]) -> Sx {
    // the library's own decision procedure (lib.rs handle()): UTF-8 throughout, then serde_json on the text
    let parsed = match std::str::from_utf8(frame) {
        Err(_) => None,
        Ok(text) if !text.trim_start_matches(|c| matches!(c, ' ' | '\t' | '\n' | '\r')).starts_with('{') => None,
        Ok(text) => serde_json::from_str::<varlink::Request>(text).ok(),
    };
    match parsed {
        None => sx::atom("bad"),
        Some(r) => sx::tagged(
            "req",
            vec![
                sx::opt_bool(r.more),
                sx::opt_bool(r.oneway),
                sx::opt_bool(r.upgrade),
                sx::xs(&r.method),
                sx::opt_json(r.parameters.as_ref()),
            ],
        ),
    }
}

pub fn envelope_ok(frame: &[u8]) -> bool {
    let text = match std::str::from_utf8(frame) {
        Ok(t) => t,
        Err(_) => return false,
    };
    let v: Value = match serde_json::from_str(text) {
        Ok(v) => v,
        Err(_) => return false,
    };
    let o = match v.as_object() {
        Some(o) => o,
        None => return false,
    };
    if !o.get("method").map(|m| m.is_string()).unwrap_or(false) {
        return false;
    }
    for k in ["more", "oneway", "upgrade"] {
        if let Some(x) = o.get(k) {
            if !(x.is_boolean() || x.is_null()) {
                return false;
            }
        }
    }
    true
}

pub fn dec_table(total: &[u8]) -> Sx {
    let mut seen: Vec<&[u8]> = Vec::new();
    let mut l = vec![sx::atom("dec")];
    let mut start = 0;
    for (i, b) in total.iter().enumerate() {
        if *b == 0 {
            let f = &total[start..i];
            if !seen.contains(&f) {
                seen.push(f);
                // third element: the verdict of an envelope check written here, independently of the library's own
                // types (a message is a JSON object with a string `method`; `more`, `oneway`, `upgrade` are
                // booleans when present) — what P_C06 calls malformed does not depend on the library's parser alone
                let mut e = vec![sx::bs(f), decode_frame(f)];
                if !envelope_ok(f) {
                    e.push(sx::atom("envelope-bad"));
                }
                l.push(sx::list(e));
            }
            start = i + 1;
        }
    }
    sx::list(l)
}

fn status_sx(r: &varlink::Result<(Vec<u8>, Option<String>)>) -> Sx {
    match r {
        Err(_) => sx::atom("err"),
        Ok((_, None)) => sx::atom("eof"),
        Ok((_, Some(i))) => sx::tagged("up", vec![sx::xs(i)]),
    }
}

// ---------------------------------------------------------------------------
// running one case

/// reference run: the whole stream in one call on a fresh service from an in-memory slice
fn reference(svc: &Sx, total: &[u8]) -> Sx {
    let built = build_service(svc);
    let mut out = Vec::new();
    let mut rd: &[u8] = total;
    let r = built.service.handle(&mut rd, &mut out, None);
    let tail = match &r {
        Ok((t, _)) => t.clone(),
        Err(_) => Vec::new(),
    };
    sx::tagged("ref", vec![status_sx(&r), sx::tagged("out", split_replies(&out)), sx::bs(&tail), sx::bs(rd)])
}

/// The writer handed to `handle()`: an embedding program may pass any `Write`.  Besides a plain `Vec<u8>` the
/// cases use a writer that implements nothing but `write`/`flush` (so the provided `write_vectored` and
/// `write_all` of std apply) and writers that take only a few bytes per call.  Which one a case gets is a
/// function of its bytes (the case format and the model do not mention it: the reply stream must not depend on it).
pub struct CaseWriter {
    pub out: Vec<u8>,
    pub per_call: Option<usize>,
}

impl std::io::Write for CaseWriter {
    fn write(&mut self, buf: &[u8]) -> std::io::Result<usize> {
        let n = match self.per_call {
            Some(k) => buf.len().min(k),
            None => buf.len(),
        };
        self.out.extend_from_slice(&buf[..n]);
        Ok(n)
    }
    fn flush(&mut self) -> std::io::Result<()> {
        Ok(())
    }
}

impl std::ops::Deref for CaseWriter {
    type Target = Vec<u8>;
    fn deref(&self) -> &Vec<u8> {
        &self.out
    }
}

fn writer_for(total: &[u8]) -> CaseWriter {
    let h: usize = total.iter().fold(total.len(), |a, b| a.wrapping_mul(31).wrapping_add(*b as usize));
    let per_call = match h % 6 {
        0 | 1 => None,
        2 => Some(1),
        3 => Some(4096),
        4 => Some(1024),
        _ => Some(7),
    };
    // (multi-megabyte cases keep whole writes)
    CaseWriter { out: Vec::new(), per_call: if total.len() > 200_000 { None } else { per_call } }
}

pub fn run_case(input: &Sx) -> Sx {
    let l = input.as_list().expect("case");
    let mode = l[1].as_atom().unwrap().to_string();
    let built = build_service(&l[2]);
    let chunks: Vec<Vec<u8>> = l[3].as_list().unwrap()[1..].iter().map(|c| c.as_bytes().unwrap()).collect();
    let total: Vec<u8> = chunks.concat();
    let mut out = writer_for(&total);
    match mode.as_str() {
        "whole" => {
            let mut rd = ChunkReader::new(chunks);
            let r = built.service.handle(&mut rd, &mut out, None);
            let tail = match &r {
                Ok((t, _)) => t.clone(),
                Err(_) => Vec::new(),
            };
            let rest = rd.remaining();
            let seen = built.seen.lock().unwrap().clone();
            let calls = built.calls.lock().unwrap().clone();
            sx::tagged(
                "obs",
                vec![
                    status_sx(&r),
                    sx::tagged("out", split_replies(&out)),
                    sx::bs(&tail),
                    sx::bs(&rest),
                    sx::bs(&seen),
                    sx::tagged("calls", calls),
                    reference(&l[2], &total),
                ],
            )
        }
        "feed" => {
            // the documented re-feeding loop (varlink/src/test.rs, examples/ping)
            let mut tail: Vec<u8> = Vec::new();
            let mut dropped: Vec<u8> = Vec::new();
            let mut iface: Option<String> = None;
            let mut status = sx::atom("eof");
            for c in chunks {
                let mut inp = tail.clone();
                inp.extend_from_slice(&c);
                let mut rd: &[u8] = &inp;
                let r = built.service.handle(&mut rd, &mut out, iface.clone());
                status = status_sx(&r);
                match r {
                    Err(_) => {
                        tail = Vec::new();
                        break;
                    }
                    Ok((t, i)) => {
                        // the documented protocol: only the returned bytes are fed again; whatever the
                        // handler left unread in the caller's per-step slice is gone (test.rs, ping)
                        tail = t;
                        dropped.extend_from_slice(rd);
                        iface = i;
                    }
                }
            }
            let seen = built.seen.lock().unwrap().clone();
            let calls = built.calls.lock().unwrap().clone();
            sx::tagged(
                "obs",
                vec![
                    status,
                    sx::tagged("out", split_replies(&out)),
                    sx::bs(&tail),
                    sx::bs(&dropped),
                    sx::bs(&seen),
                    sx::tagged("calls", calls),
                    reference(&l[2], &total),
                ],
            )
        }
        other => panic!("mode {}", other),
    }
}

// ---------------------------------------------------------------------------
// generators

pub struct SvcCfg {
    pub sx: Sx,
    pub scripts: Vec<String>, // names of script interfaces
    pub has_gen: bool,
}

pub fn svc_cfg(vendor: &str, ifaces: &[(&str, &str)], gen: bool) -> SvcCfg {
    let mut il = vec![sx::atom("ifaces")];
    for (n, d) in ifaces {
        il.push(sx::tagged("script", vec![sx::xs(n), sx::xs(d)]));
    }
    if gen {
        il.push(sx::tagged("gen", vec![sx::xs("org.example.vtest"), sx::xs(VTEST_IDL)]));
        il.push(sx::tagged("gen", vec![sx::xs("org.example.crlf"), sx::xs(CRLF_IDL)]));
    }
    SvcCfg {
        sx: sx::tagged(
            "svc",
            vec![sx::xs(vendor), sx::xs("prod \"q\" ü"), sx::xs("0.1"), sx::xs("http://example.org/"), sx::list(il)],
        ),
        scripts: ifaces.iter().map(|x| x.0.to_string()).collect(),
        has_gen: gen,
    }
}

/// configurations for the socket suites: the in-memory ones plus an interface whose upgraded
/// handler returns after every available segment
pub fn socket_configs() -> Vec<SvcCfg> {
    let mut v = configs();
    let mut c = svc_cfg("v4", &[("up.seg", "segment-wise upgraded handler")], false);
    // patch the interface kind
    if let Sx::List(l) = &mut c.sx {
        if let Sx::List(il) = &mut l[5] {
            if let Sx::List(one) = &mut il[1] {
                one[0] = sx::atom("script-avail");
            }
        }
    }
    v.push(c);
    v.push(svc_cfg("v5", &[(LINE_WISE_IFACE, "line-wise upgraded handler"), ("org.example.s", "d"), (SEG_LINE_IFACE, "segment- and line-wise upgraded handler")], false));
    v
}

pub fn configs() -> Vec<SvcCfg> {
    vec![
        svc_cfg("v0", &[], false),
        svc_cfg("v1", &[("org.example.s", "interface org.example.s\nmethod M() -> ()\n")], true),
        svc_cfg(
            "v2",
            &[
                ("a.b", "desc a.b"),
                ("a.b.c", "desc a.b.c"),
                ("a.bc", "desc a.bc"),
                ("A.b-c", "desc A.b-c"),
                ("x.y1", "desc x.y1"),
                ("a.b", "desc a.b second registration"),
                ("org.varlink.service", "shadowed?"),
                ("org.varlink", "desc org.varlink"),
            ],
            true,
        ),
        svc_cfg("v3", &[("s.t", "d"), ("s.t.u", "d2"),
            ("x.weird", "\u{feff}interface x.weird\n# soft\u{ad}hyphen, joiner \u{200d}, delete \u{7f}, escape \u{1b}, line sep \u{2028}\nmethod M() -> ()\n")], false),
    ]
}

#[derive(Clone)]
pub struct GenReq {
    pub bytes: Vec<u8>, // without the NUL
    pub kind: String,
}

fn flags(rng: &mut Rng, v: &mut Value, kindtag: &mut String) {
    let o = v.as_object_mut().unwrap();
    let pickf = |rng: &mut Rng| -> Option<bool> {
        match rng.below(10) {
            0..=5 => None,
            6..=8 => Some(true),
            _ => Some(false),
        }
    };
    if let Some(b) = pickf(rng) {
        o.insert("more".into(), json!(b));
        if b {
            kindtag.push_str("+more");
        }
    }
    if rng.chance(1, 4) {
        let b = !rng.chance(1, 5);
        o.insert("oneway".into(), json!(b));
        if b {
            kindtag.push_str("+oneway");
        }
    }
    if rng.chance(1, 12) {
        let b = rng.chance(1, 2);
        o.insert("upgrade".into(), json!(b));
    }
}

pub fn gen_script(rng: &mut Rng, token: &str, kind: &mut String) -> Value {
    let p = |i: usize| json!({"token": token, "i": i});
    match rng.below(12) {
        0..=2 => {
            kind.push_str(":final");
            json!([{"op":"reply","p":p(0)}])
        }
        3 => {
            kind.push_str(":finalerr");
            json!([{"op":"err","name":"org.example.s.Custom","p":p(0)}])
        }
        4..=5 => {
            let k = rng.below(4);
            kind.push_str(":stream");
            let mut v = vec![json!({"op":"cont","v":true})];
            for i in 0..k {
                v.push(json!({"op":"reply","p":p(i)}));
            }
            v.push(json!({"op":"cont","v":false}));
            if rng.chance(1, 3) {
                v.push(json!({"op":"err","name":"org.example.s.End","p":p(k)}));
            } else {
                v.push(json!({"op":"reply","p":p(k)}));
            }
            Value::Array(v)
        }
        6 => {
            kind.push_str(":noreply");
            json!([])
        }
        7 => {
            kind.push_str(":fail");
            if rng.chance(1, 2) {
                json!([{"op":"fail"}])
            } else {
                json!([{"op":"cont","v":true},{"op":"replytry","p":p(0)},{"op":"cont","v":false},{"op":"reply","p":p(1)},{"op":"fail"}])
            }
        }
        8 => {
            kind.push_str(":upgrade");
            json!([{"op":"upgrade"},{"op":"reply","p":p(0)}])
        }
        9 => {
            kind.push_str(":conttry");
            json!([{"op":"cont","v":true},{"op":"replytry","p":p(0)},{"op":"errtry","name":"e.X"},{"op":"cont","v":false},{"op":"reply"}])
        }
        10 => {
            kind.push_str(":twofinals");
            json!([{"op":"reply","p":p(0)},{"op":"reply","p":Value::Null}])
        }
        _ => {
            kind.push_str(":random");
            let n = rng.below(6);
            let mut v = Vec::new();
            for i in 0..n {
                v.push(match rng.below(7) {
                    0 => json!({"op":"cont","v":true}),
                    1 => json!({"op":"cont","v":false}),
                    2 => json!({"op":"reply","p":p(i)}),
                    3 => json!({"op":"replytry","p":p(i)}),
                    4 => json!({"op":"err","name":"e.R","p":p(i)}),
                    5 => json!({"op":"errtry","name":"e.R"}),
                    _ => json!({"op":"reply"}),
                });
            }
            Value::Array(v)
        }
    }
}

/// one well-formed (serde-acceptable or not) request drawn from the alphabet of C01/C03
pub fn gen_request(rng: &mut Rng, cfg: &SvcCfg, token: &str) -> GenReq {
    let mut kind;
    let mut v: Value;
    let choice = rng.below(100);
    if choice < 12 {
        kind = "getinfo".to_string();
        v = json!({"method":"org.varlink.service.GetInfo"});
        if rng.chance(1, 3) {
            v["parameters"] = json!({"token": token});
        }
    } else if choice < 26 {
        kind = "getdesc".to_string();
        v = json!({"method":"org.varlink.service.GetInterfaceDescription"});
        match rng.below(9) {
            0 => { kind.push_str(":noparams"); }
            1 => { kind.push_str(":null"); v["parameters"] = Value::Null; }
            2 => { kind.push_str(":svc"); v["parameters"] = json!({"interface":"org.varlink.service"}); }
            3 => { kind.push_str(":unknown"); v["parameters"] = json!({"interface": format!("no.such.{}", token)}); }
            4 => { kind.push_str(":illtyped"); v["parameters"] = json!({"interface": 5}); }
            5 => { kind.push_str(":array"); v["parameters"] = json!(["org.varlink.service"]); }
            6 => { kind.push_str(":missingmember"); v["parameters"] = json!({"token": token}); }
            _ => {
                kind.push_str(":registered");
                let mut names: Vec<String> = cfg.scripts.clone();
                if cfg.has_gen { names.push("org.example.vtest".into()); names.push("org.example.crlf".into()); }
                if names.is_empty() { names.push("org.varlink.service".into()); }
                let n = rng.pick(&names).clone();
                v["parameters"] = json!({"interface": n, "extra": token});
            }
        }
    } else if choice < 30 {
        kind = "svc-unknown-method".to_string();
        v = json!({"method": format!("org.varlink.service.Nope{}", token), "parameters": {"token": token}});
    } else if choice < 55 && !cfg.scripts.is_empty() {
        let name = rng.pick(&cfg.scripts).clone();
        if rng.chance(1, 6) {
            kind = "script-nx".to_string();
            v = json!({"method": format!("{}.Nx{}", name, token)});
        } else {
            kind = "script".to_string();
            let s = gen_script(rng, token, &mut kind);
            v = json!({"method": format!("{}.Run", name), "parameters": {"script": s, "token": token}});
        }
    } else if choice < 75 && cfg.has_gen {
        let m = *rng.pick(&["Echo", "Stream", "Fail", "Opt", "NoArgs", "Missing", "Echo", "Stream"]);
        kind = format!("gen:{}", m);
        v = json!({"method": format!("org.example.vtest.{}", m)});
        let n = rng.below(4) as i64;
        match rng.below(10) {
            0 => { kind.push_str(":noparams"); }
            1 => { kind.push_str(":badtype"); v["parameters"] = json!({"token": 7, "n": "x"}); }
            2 => { kind.push_str(":missingfield"); v["parameters"] = json!({"n": n}); }
            3 => { kind.push_str(":arrayparams"); v["parameters"] = json!([token, n]); }
            4 => { kind.push_str(":float"); v["parameters"] = json!({"token": token, "n": 1.5}); }
            _ => {
                v["parameters"] = json!({"token": token, "n": n, "extra": [1, 2]});
                if m == "Opt" {
                    match rng.below(4) {
                        0 => { v["parameters"]["r"] = json!({"a": 1, "b": "x"}); }
                        1 => { v["parameters"]["r"] = json!({"a": -5}); }
                        2 => { v["parameters"]["r"] = Value::Null; }
                        _ => {}
                    }
                }
            }
        }
    } else if choice < 77 && cfg.has_gen {
        kind = "gen:crlf".to_string();
        v = match rng.below(3) {
            0 => json!({"method":"org.example.crlf.Ping","parameters":{"token": token}}),
            1 => json!({"method":"org.example.crlf.Pong","parameters":{"token": token}}),
            _ => json!({"method":"org.example.crlf.Ping","parameters":{"token": 3}}),
        };
    } else if choice < 85 {
        if !cfg.scripts.is_empty() && rng.chance(1, 3) {
            // a registered name in another spelling (ASCII case) is an unknown interface; should it be
            // dispatched all the same, the script makes that visible
            kind = "unknown-iface-case-variant".to_string();
            let name = rng.pick(&cfg.scripts).clone();
            let mut flipped: String = name
                .chars()
                .map(|c| if rng.chance(1, 2) { if c.is_ascii_lowercase() { c.to_ascii_uppercase() } else { c.to_ascii_lowercase() } } else { c })
                .collect();
            if flipped == name {
                flipped = if name.chars().any(|c| c.is_ascii_lowercase()) { name.to_ascii_uppercase() } else { name.to_ascii_lowercase() };
            }
            if cfg.scripts.contains(&flipped) || flipped == name {
                flipped = format!("{}{}", flipped, token);
            }
            v = json!({"method": format!("{}.Run", flipped), "parameters": {"token": token, "script": [{"op":"reply","p":{"token": token, "i": 0}}]}});
        } else {
        kind = "unknown-iface".to_string();
        let base = *rng.pick(&["no.such", "a", "a.b.d", "org.varlink.servic", "org.varlink.service.x", "a.b-", "ü.é"]);
        v = json!({"method": format!("{}{}.M", base, token), "parameters": {"token": token}});
        }
    } else if choice < 93 {
        kind = "nodot".to_string();
        let m = match rng.below(4) {
            0 => String::new(),
            1 => format!("nodot{}", token),
            2 => format!("GetInfo{}", token),
            _ => format!("ü{}", token),
        };
        v = json!({"method": m, "parameters": {"token": token}});
    } else {
        kind = "odd-dots".to_string();
        let m = match rng.below(5) {
            0 => ".".to_string(),
            1 => format!("{}.", token),
            2 => format!(".{}", token),
            3 => format!("a..{}", token),
            _ => "org.varlink.service.".to_string(),
        };
        v = json!({"method": m});
    }
    flags(rng, &mut v, &mut kind);
    let bytes = if rng.chance(1, 8) { serde_json::to_vec_pretty(&v).unwrap() } else { serde_json::to_vec(&v).unwrap() };
    GenReq { bytes, kind }
}

/// a frame serde_json must reject (or that is at least hostile)
pub fn gen_malformed(rng: &mut Rng, cfg: &SvcCfg, token: &str) -> GenReq {
    let good = gen_request(rng, cfg, token).bytes;
    let (bytes, kind): (Vec<u8>, &str) = match rng.below(24) {
        20 | 21 => {
            // the envelope as a JSON array in the member order of the library's struct: not a message
            let flags = match rng.below(3) { 0 => "null,null,null", 1 => "true,null,null", _ => "null,null,false" };
            let v = format!("[{},\"no.such{}.M\",{{\"token\":\"{}\"}}]", flags, token, token);
            (v.into_bytes(), "bad:array-envelope")
        }
        22 | 23 => {
            // a well-formed request wrapped, inside its frame, in blanks that are blanks for Unicode but not for JSON
            let blank = *rng.pick(&["\u{a0}", "\u{2028}", "\u{3000}", "\u{85}", "\u{b}", "\u{c}", "\u{feff}", "\u{2003}"]);
            let mut v = Vec::new();
            let front = rng.chance(1, 2);
            if front { v.extend_from_slice(blank.as_bytes()); }
            v.extend_from_slice(format!("{{\"method\":\"no.such{}.M\",\"parameters\":{{\"token\":\"{}\"}}}}", token, token).as_bytes());
            if !front || rng.chance(1, 2) { v.extend_from_slice(blank.as_bytes()); }
            (v, "bad:wrapped-in-unicode-blanks")
        }
        18 | 19 => {
            // bytes that are not UTF-8 where a parser that only looks at what it needs never looks: inside
            // the string value (or the name) of an envelope member the library has no use for
            let bad: &[u8] = match rng.below(4) {
                0 => b"\xfe",
                1 => b"\xc3",
                2 => b"\xed\xa0\x80",
                _ => b"\xf8\x88\x80\x80\x80",
            };
            let mut v = Vec::new();
            match rng.below(3) {
                0 => {
                    v.extend_from_slice(b"{\"method\":\"org.varlink.service.GetInfo\",\"comment\":\"a");
                    v.extend_from_slice(bad);
                    v.extend_from_slice(format!("b\",\"parameters\":{{\"token\":\"{}\"}}}}", token).as_bytes());
                }
                1 => {
                    v.extend_from_slice(format!("{{\"parameters\":{{\"token\":\"{}\"}},\"x", token).as_bytes());
                    v.extend_from_slice(bad);
                    v.extend_from_slice(format!("\":1,\"method\":\"no.such{}.M\"}}", token).as_bytes());
                }
                _ => {
                    v.extend_from_slice(format!("{{\"method\":\"no.such{}.M\",\"ignored\":[[\"", token).as_bytes());
                    v.extend_from_slice(bad);
                    v.extend_from_slice(b"\"]]}");
                }
            }
            (v, "bad:utf8-in-ignored-member")
        }
        16 | 17 => {
            // two defects in one message: a semantic one first (wrong type / missing member / truncation),
            // bytes that are not UTF-8 later
            let head: &[u8] = match rng.below(4) {
                0 => b"{\"method\":1,\"note\":\"ab",
                1 => b"{\"more\":\"yes\",\"method\":\"a.b\",\"note\":\"",
                2 => b"{\"parameters\":{},\"note\":\"q",
                _ => b"[\"x\",\"",
            };
            let mut v = head.to_vec();
            v.push(0xFF);
            if rng.chance(1, 2) {
                v.extend_from_slice(b"c\"}");
            }
            (v, "bad:two-defects-type-then-utf8")
        }
        14 | 15 => {
            // long malformed text with a multi-byte / invalid byte sitting right at a power-of-two offset
            // (where excerpts and buffers are usually cut)
            let base = *rng.pick(&[64usize, 128, 256, 512, 1024, 4096, 8192]);
            let off = base - 3 + rng.below(6);
            let mut v: Vec<u8> = std::iter::repeat(b'x').take(off).collect();
            match rng.below(3) {
                0 => v.extend_from_slice("é".as_bytes()),
                1 => v.extend_from_slice("\u{3000}".as_bytes()),
                _ => v.push(0xFF),
            }
            v.extend_from_slice(b" trailing junk");
            (v, "bad:long-nonascii-at-boundary")
        }
        0 => (b"{".to_vec(), "bad:trunc-brace"),
        1 => (Vec::new(), "bad:empty"),
        2 => (vec![0xff, 0xfe, b'{', b'}'], "bad:utf8"),
        3 => (b"{\"method\":5}".to_vec(), "bad:method-type"),
        4 => (b"{\"method\":\"a.b\",\"more\":\"yes\"}".to_vec(), "bad:flag-type"),
        5 => (b"[1,2,3]".to_vec(), "bad:array"),
        6 => (b"{}".to_vec(), "bad:no-method"),
        7 => {
            let d = rng.range(100, 400);
            let mut s = String::from("{\"method\":\"a.b\",\"parameters\":");
            for _ in 0..d { s.push('['); }
            for _ in 0..d { s.push(']'); }
            s.push('}');
            (s.into_bytes(), "bad:deep")
        }
        8 => {
            let cut = rng.below(good.len().max(1));
            (good[..cut].to_vec(), "bad:truncated")
        }
        k @ 9..=11 => {
            // a one-byte damage of a well-formed request.  Some damages leave a well-formed request behind
            // (a changed character inside a string, e.g. inside the token the predicates attribute replies
            // by): those are not malformed messages and would break the fixture's "one token per request"
            // convention, so another position is tried
            let mut res = None;
            for _ in 0..32 {
                let mut g = good.clone();
                match k {
                    9 => { if !g.is_empty() { let i = rng.below(g.len()); g[i] ^= 1 << rng.below(8); } }
                    10 => { if !g.is_empty() { let i = rng.below(g.len()); g.remove(i); } }
                    _ => { let i = rng.below(g.len() + 1); g.insert(i, 0xC3); }
                }
                if serde_json::from_slice::<varlink::Request>(&g).is_err() || std::str::from_utf8(&g).is_err() {
                    res = Some(g);
                    break;
                }
            }
            match res {
                Some(g) => (g, match k { 9 => "bad:bitflip", 10 => "bad:delete", _ => "bad:insert-utf8" }),
                None => (b"{".to_vec(), "bad:trunc-brace"),
            }
        }
        12 => (b"{\"method\":\"a.b\",\"method\":\"c.d\"}".to_vec(), "bad:dup-key"),
        _ => {
            let n = rng.below(12);
            ((0..n).map(|_| (rng.below(255) + 1) as u8).collect(), "bad:random")
        }
    };
    GenReq { bytes, kind: kind.to_string() }
}

pub fn stream_of(reqs: &[GenReq]) -> Vec<u8> {
    let mut v = Vec::new();
    for r in reqs {
        v.extend_from_slice(&r.bytes);
        v.push(0);
    }
    v
}

pub fn cut(total: &[u8], cuts: &[usize]) -> Vec<Vec<u8>> {
    let mut res = Vec::new();
    let mut prev = 0;
    let mut cs: Vec<usize> = cuts.iter().cloned().filter(|c| *c <= total.len()).collect();
    cs.sort();
    for c in cs {
        if c > prev {
            res.push(total[prev..c].to_vec());
            prev = c;
        }
    }
    if prev < total.len() {
        res.push(total[prev..].to_vec());
    }
    res
}

pub fn mk_case(mode: &str, cfg: &SvcCfg, chunks: &[Vec<u8>], total: &[u8]) -> Sx {
    let mut rl = vec![sx::atom("reads")];
    rl.extend(chunks.iter().map(|c| sx::bs(c)));
    sx::tagged("wire", vec![sx::atom(mode), cfg.sx.clone(), sx::list(rl), dec_table(total)])
}

impl Suite for WireSuite {
    fn generate(&self, ctx: &Ctx) -> Vec<Case> {
        let mut rng = Rng::new(ctx.seed);
        let cfgs = configs();
        let mut cases = Vec::new();
        // corpus first
        if let Ok(txt) = std::fs::read_to_string(concat!(env!("CARGO_MANIFEST_DIR"), "/corpus/wire.txt")) {
            for l in txt.lines() {
                if let Some(s) = sx::parse(l) {
                    cases.push(Case { input: s, tags: vec!["corpus".into()] });
                }
            }
        }
        let n_random = if ctx.thorough { 6000 } else { 900 };
        let mut tok = 0usize;
        for _ in 0..n_random {
            let cfg = rng.pick(&cfgs);
            let len = match rng.below(10) {
                0 => 0,
                1..=3 => 1,
                4..=6 => rng.range(2, 4),
                7..=8 => rng.range(5, 12),
                _ => rng.range(13, if ctx.thorough { 200 } else { 40 }),
            };
            let mut reqs = Vec::new();
            let mut tags: Vec<String> = Vec::new();
            let with_bad = rng.chance(1, 5);
            let bad_at = if with_bad && len > 0 { rng.below(len) } else { usize::MAX };
            for i in 0..len {
                tok += 1;
                let t = format!("t{}z", tok);
                let r = if i == bad_at { gen_malformed(&mut rng, cfg, &t) } else { gen_request(&mut rng, cfg, &t) };
                tags.push(format!("req:{}", r.kind.split(':').next().unwrap_or("").split('+').next().unwrap_or("")));
                for part in r.kind.split('+').skip(1) {
                    tags.push(format!("flag:{}", part));
                }
                if r.kind.contains(':') {
                    tags.push(format!("kind:{}", r.kind.split('+').next().unwrap()));
                }
                reqs.push(r);
            }
            let mut total = stream_of(&reqs);
            // sometimes a dangling partial message or trailing bytes (also after an upgrade)
            if rng.chance(1, 6) {
                if rng.chance(1, 2) {
                    total.extend_from_slice(b"{\"method\":\"org.varlink.serv");
                    tags.push("dangling".into());
                } else {
                    // a message of which only the terminator is missing when the peer is done
                    tok += 1;
                    let r = gen_request(&mut rng, cfg, &format!("t{}z", tok));
                    total.extend_from_slice(&r.bytes);
                    if rng.chance(1, 3) {
                        total.extend_from_slice(b" \n");
                    }
                    tags.push("dangling-complete".into());
                }
            }
            if rng.chance(1, 30) {
                // oversized message crossing the 8 KiB buffer
                let pad = "x".repeat(*rng.pick(&[8150usize, 8190, 8192, 8193, 20000]));
                let big = json!({"method":"org.varlink.service.GetInfo","parameters":{"pad":pad}});
                total.extend_from_slice(&serde_json::to_vec(&big).unwrap());
                total.push(0);
                tags.push("oversize".into());
            }
            tags.sort();
            tags.dedup();
            let mode = if rng.chance(1, 2) { "whole" } else { "feed" };
            let chunks: Vec<Vec<u8>> = match rng.below(6) {
                0 => vec![total.clone()],
                1 => {
                    let c = rng.below(total.len() + 1);
                    cut(&total, &[c])
                }
                2 => {
                    let a = rng.below(total.len() + 1);
                    let b = rng.below(total.len() + 1);
                    cut(&total, &[a, b])
                }
                3 if total.len() <= 400 => (0..total.len()).map(|i| vec![total[i]]).collect(),
                4 => {
                    // cuts right at / around NULs
                    let nuls: Vec<usize> = total.iter().enumerate().filter(|(_, b)| **b == 0).map(|(i, _)| i).collect();
                    let mut cs = Vec::new();
                    for n in nuls {
                        match rng.below(4) {
                            0 => cs.push(n),
                            1 => cs.push(n + 1),
                            2 => { cs.push(n); cs.push(n + 1); }
                            _ => {}
                        }
                    }
                    cut(&total, &cs)
                }
                _ => {
                    let k = rng.range(1, 8);
                    let cs: Vec<usize> = (0..k).map(|_| rng.below(total.len() + 1)).collect();
                    cut(&total, &cs)
                }
            };
            let mut tags2 = tags.clone();
            tags2.push(format!("mode:{}", mode));
            tags2.push(format!("len:{}", match len { 0 => "0", 1 => "1", 2..=4 => "2-4", 5..=12 => "5-12", _ => "13+" }));
            tags2.push(format!("chunks:{}", match chunks.len() { 0 => "0", 1 => "1", 2..=3 => "2-3", 4..=9 => "4-9", _ => "10+" }));
            cases.push(Case { input: mk_case(mode, cfg, &chunks, &total), tags: tags2 });
        }
        if ctx.thorough {
            // exhaustive request sequences over a reduced alphabet, lengths 0..4
            let cfg = &cfgs[1];
            let alphabet: Vec<Value> = vec![
                json!({"method":"org.varlink.service.GetInfo"}),
                json!({"method":"org.varlink.service.GetInfo","oneway":true}),
                json!({"method":"nodot"}),
                json!({"method":"no.such.M","more":true}),
                json!({"method":"org.example.s.Run","parameters":{"script":[{"op":"reply","p":{"k":1}}]}}),
                json!({"method":"org.example.s.Run","more":true,"parameters":{"script":[{"op":"cont","v":true},{"op":"reply"},{"op":"cont","v":false},{"op":"reply"}]}}),
                json!({"method":"org.example.s.Run","parameters":{"script":[{"op":"cont","v":true},{"op":"reply"}]}}),
                json!({"method":"org.example.vtest.Echo","parameters":{"token":5}}),
            ];
            let enc: Vec<Vec<u8>> = alphabet.iter().map(|v| serde_json::to_vec(v).unwrap()).collect();
            let k = enc.len();
            for len in 0..=4usize {
                let total_n = k.pow(len as u32);
                for mut idx in 0..total_n {
                    let mut total = Vec::new();
                    for _ in 0..len {
                        total.extend_from_slice(&enc[idx % k]);
                        total.push(0);
                        idx /= k;
                    }
                    let chunks = if total.is_empty() { vec![] } else { vec![total.clone()] };
                    cases.push(Case { input: mk_case("whole", cfg, &chunks, &total), tags: vec!["exhaustive-sequences".into(), format!("exh-len:{}", len)] });
                }
            }
            // every pair of cut points of a few short streams
            for _ in 0..3 {
                let cfg = rng.pick(&cfgs);
                tok += 1;
                let a = gen_request(&mut rng, cfg, &format!("t{}z", tok));
                tok += 1;
                let b = gen_request(&mut rng, cfg, &format!("t{}z", tok));
                let total = stream_of(&[a, b]);
                if total.len() <= 200 {
                    for c1 in 0..=total.len() {
                        for c2 in c1..=total.len() {
                            let chunks = cut(&total, &[c1, c2]);
                            cases.push(Case { input: mk_case("feed", cfg, &chunks, &total), tags: vec!["systematic-cut-pairs".into()] });
                        }
                    }
                }
            }
            if ctx.prop == "C06" || ctx.prop == "C02" {
                // multi-megabyte messages (only for the two properties that speak about oversized messages;
                // each costs the model driver about half a minute)
                let good = serde_json::to_vec(&json!({"method":"org.varlink.service.GetInfo","parameters":{"token":"t1z"}})).unwrap();
                // (a) one malformed message > 4 MiB whose tail would parse as a request on its own
                let mut big: Vec<u8> = std::iter::repeat(b'j').take(4 * 1024 * 1024 + 4096).collect();
                big.extend(std::iter::repeat(b' ').take(64 * 1024));
                big.extend_from_slice(&good);
                let mut total = good.clone();
                total.push(0);
                total.extend_from_slice(&big);
                total.push(0);
                total.extend_from_slice(&good);
                total.push(0);
                cases.push(Case { input: mk_case("whole", &cfgs[0], &[total.clone()], &total), tags: vec!["oversize:malformed-4MiB".into()] });
                // (b) a well-formed request of 4.5 MB between two ordinary ones, fed in 64 KiB chunks
                let pad = "x".repeat(4_500_000);
                let bigreq = serde_json::to_vec(&json!({"method":"org.varlink.service.GetInfo","parameters":{"pad":pad,"token":"t2z"}})).unwrap();
                let mut total = good.clone();
                total.push(0);
                total.extend_from_slice(&bigreq);
                total.push(0);
                total.extend_from_slice(&good);
                total.push(0);
                let chunks: Vec<Vec<u8>> = total.chunks(65536).map(|c| c.to_vec()).collect();
                cases.push(Case { input: mk_case("feed", &cfgs[0], &chunks, &total), tags: vec!["oversize:valid-4.5MB".into()] });
            }
            // hostile nesting depths around and far beyond serde_json's recursion limit
            for d in [127usize, 128, 129, 1000, 10000] {
                let mut s = String::from("{\"method\":\"org.varlink.service.GetInfo\",\"parameters\":");
                for _ in 0..d { s.push('['); }
                for _ in 0..d { s.push(']'); }
                s.push('}');
                let mut total = serde_json::to_vec(&json!({"method":"org.varlink.service.GetInfo"})).unwrap();
                total.push(0);
                total.extend_from_slice(s.as_bytes());
                total.push(0);
                total.extend_from_slice(&serde_json::to_vec(&json!({"method":"org.varlink.service.GetInfo","parameters":{"token":"t0z"}})).unwrap());
                total.push(0);
                cases.push(Case { input: mk_case("whole", &cfgs[0], &[total.clone()], &total), tags: vec![format!("nesting:{}", d)] });
            }
        }
        if ctx.prop == "C06" && !ctx.thorough {
            // quick tier too (R6-C06/m2, a 4 MiB read cap that lands in the incomplete-message branch): ONE malformed
            // message just over 4 MiB whose tail would parse as a request on its own, between two ordinary calls —
            // it must be refused as a whole (costs the model driver some twenty seconds, hence a single case)
            let good = serde_json::to_vec(&json!({"method":"org.varlink.service.GetInfo","parameters":{"token":"t1z"}})).unwrap();
            let mut big: Vec<u8> = std::iter::repeat(b'j').take(4 * 1024 * 1024).collect();
            big.extend_from_slice(&good);
            let mut total = good.clone();
            total.push(0);
            total.extend_from_slice(&big);
            total.push(0);
            total.extend_from_slice(&good);
            total.push(0);
            cases.push(Case { input: mk_case("whole", &cfgs[0], &[total.clone()], &total), tags: vec!["oversize:malformed-4MiB".into()] });
        }
        if ctx.prop == "C04" {
            // a oneway request larger than any plausible message-size limit (4.5 MB) between two ordinary calls:
            // whatever a size check does with it, it must not be answered
            let good = |t: &str| serde_json::to_vec(&json!({"method":"org.varlink.service.GetInfo","parameters":{"token": t}})).unwrap();
            let pad = "x".repeat(4_500_000);
            for (i, method) in ["org.varlink.service.GetInfo", "no.such.Method", "org.example.s.Run"].iter().enumerate() {
                if i > 0 && !ctx.thorough {
                    break;
                }
                let big = serde_json::to_vec(&json!({"method": method, "oneway": true, "parameters": {"pad": pad, "token": format!("t{}bigz", i)}})).unwrap();
                let mut total = good("t1z");
                total.push(0);
                total.extend_from_slice(&big);
                total.push(0);
                total.extend_from_slice(&good("t2z"));
                total.push(0);
                cases.push(Case { input: mk_case("whole", &cfgs[1], &[total.clone()], &total), tags: vec!["oversize:oneway-4.5MB".into()] });
            }
        }
        // method-implementation scripts x request flags, each followed by a plain built-in call: what a
        // call may write depends on the flags of ITS request only, whatever the implementation tries
        {
            let cfg = &cfgs[1];
            let p = |t: &str, i: usize| json!({"token": t, "i": i});
            let scripts: Vec<(&str, Box<dyn Fn(&str) -> Value>)> = vec![
                ("final", Box::new(move |t| json!([{"op":"reply","p":p(t,0)}]))),
                ("stream", Box::new(move |t| json!([{"op":"cont","v":true},{"op":"reply","p":p(t,0)},{"op":"cont","v":false},{"op":"reply","p":p(t,1)}]))),
                ("conttry", Box::new(move |t| json!([{"op":"cont","v":true},{"op":"replytry","p":p(t,0)},{"op":"errtry","name":"e.X"},{"op":"cont","v":false},{"op":"reply","p":p(t,1)}]))),
                ("latecont", Box::new(move |t| json!([{"op":"replytry","p":p(t,0)},{"op":"cont","v":true},{"op":"replytry","p":p(t,1)},{"op":"cont","v":false},{"op":"replytry","p":p(t,2)}]))),
                ("latecont-err", Box::new(move |t| json!([{"op":"errtry","name":"e.X","p":p(t,0)},{"op":"cont","v":true},{"op":"errtry","name":"e.Y","p":p(t,1)},{"op":"replytry","p":p(t,2)}]))),
                ("cont-only", Box::new(move |t| json!([{"op":"cont","v":true},{"op":"replytry","p":p(t,0)},{"op":"replytry","p":p(t,1)}]))),
                ("recont", Box::new(move |t| json!([{"op":"cont","v":true},{"op":"replytry","p":p(t,0)},{"op":"cont","v":false},{"op":"replytry","p":p(t,1)},{"op":"cont","v":true},{"op":"replytry","p":p(t,2)}]))),
                ("noreply", Box::new(move |_t| json!([]))),
                ("upgrade", Box::new(move |t| json!([{"op":"upgrade"},{"op":"reply","p":p(t,0)}]))),
                ("upgrade-noreply", Box::new(move |_t| json!([{"op":"upgrade"}]))),
                ("err", Box::new(move |t| json!([{"op":"err","name":"org.example.s.Custom","p":p(t,0)}]))),
            ];
            let flagsets: Vec<Vec<&str>> = vec![vec![], vec!["more"], vec!["oneway"], vec!["oneway", "more"], vec!["upgrade"],
                vec!["oneway", "upgrade"], vec!["more", "upgrade"]];
            for (name, mk) in scripts.iter() {
                for fl in flagsets.iter() {
                    for reps in [1usize, 2] {
                        tok += 1;
                        let mut total = Vec::new();
                        for k in 0..reps {
                            let t = format!("t{}q{}z", tok, k);
                            let mut v = json!({"method":"org.example.s.Run","parameters":{"token": t, "script": mk(&t)}});
                            for f in fl.iter() {
                                v[*f] = json!(true);
                            }
                            total.extend_from_slice(&serde_json::to_vec(&v).unwrap());
                            total.push(0);
                        }
                        let follow = json!({"method":"org.varlink.service.GetInfo","parameters":{"token": format!("t{}fz", tok)}});
                        total.extend_from_slice(&serde_json::to_vec(&follow).unwrap());
                        total.push(0);
                        let mode = if (tok + reps) % 2 == 0 { "whole" } else { "feed" };
                        cases.push(Case {
                            input: mk_case(mode, cfg, &[total.clone()], &total),
                            tags: vec!["script-x-flags".into(), format!("kind:script:{}", name), format!("flags:{}", fl.join("+"))],
                        });
                    }
                }
            }
        }
        // bytes that are not UTF-8, in a member the library skips, placed so that the sequence is cut by the
        // library's own 8 KiB reads (lead byte = last byte of a read)
        {
            let cfg = &cfgs[0];
            for bad in [&b"\xe0\xa0"[..0], &b"\xe0\x80\x80"[..], &b"\xed\xa0\x80"[..], &b"\xf0\x80\x80\x80"[..], &b"\xf4\x90\x80\x80"[..], &b"\xc3"[..]] {
                if bad.is_empty() { continue; }
                for lead_at in [8190usize, 8191, 8192, 16383] {
                    let head = b"{\"method\":\"org.varlink.service.GetInfo\",\"comment\":\"";
                    let mut total = head.to_vec();
                    while total.len() < lead_at { total.push(b'x'); }
                    total.extend_from_slice(bad);
                    total.extend_from_slice(b"\"}");
                    total.push(0);
                    total.extend_from_slice(&serde_json::to_vec(&json!({"method":"org.varlink.service.GetInfo","parameters":{"token":"t1z"}})).unwrap());
                    total.push(0);
                    cases.push(Case { input: mk_case("whole", cfg, &[total.clone()], &total), tags: vec!["bad-utf8-across-read-boundary".into()] });
                }
            }
        }
        // very many small requests in one piece (nothing may depend on how many messages one call handles)
        {
            let cfg = &cfgs[1];
            for n in [127usize, 128, 129, 300] {
                let mut total = Vec::new();
                for k in 0..n {
                    let v = json!({"method": format!("no.such.t{}nz.M", k), "parameters": {"token": format!("t{}nz", k)}});
                    total.extend_from_slice(&serde_json::to_vec(&v).unwrap());
                    total.push(0);
                }
                cases.push(Case { input: mk_case("whole", cfg, &[total.clone()], &total), tags: vec!["many-requests-in-one-piece".into()] });
                cases.push(Case { input: mk_case("feed", cfg, &[total.clone()], &total), tags: vec!["many-requests-in-one-piece".into()] });
                let half = total.len() / 2;
                cases.push(Case { input: mk_case("feed", cfg, &[total[..half].to_vec(), total[half..].to_vec()], &total), tags: vec!["many-requests-in-one-piece".into()] });
            }
        }
        // the definition text of an interface is returned verbatim whatever characters it contains
        {
            let cfg = &cfgs[3];
            for fl in [vec![], vec!["more"]] {
                tok += 1;
                let mut v = json!({"method":"org.varlink.service.GetInterfaceDescription","parameters":{"interface":"x.weird"}});
                for f in fl.iter() { v[*f] = json!(true); }
                let mut total = serde_json::to_vec(&v).unwrap();
                total.push(0);
                total.extend_from_slice(&serde_json::to_vec(&json!({"method":"org.varlink.service.GetInfo","parameters":{"token": format!("t{}z", tok)}})).unwrap());
                total.push(0);
                cases.push(Case { input: mk_case("whole", cfg, &[total.clone()], &total), tags: vec!["description-with-unusual-characters".into()] });
            }
        }
        if ctx.prop == "C02" {
            // one request larger than a megabyte, fed in pieces of several hundred KiB (quick tier of C02 only)
            let pad = "x".repeat(1_300_000);
            let big = serde_json::to_vec(&json!({"method":"org.varlink.service.GetInfo","parameters":{"pad":pad,"token":"t2z"}})).unwrap();
            let mut total = serde_json::to_vec(&json!({"method":"org.varlink.service.GetInfo","parameters":{"token":"t1z"}})).unwrap();
            total.push(0);
            total.extend_from_slice(&big);
            total.push(0);
            total.extend_from_slice(&serde_json::to_vec(&json!({"method":"org.varlink.service.GetInfo","parameters":{"token":"t3z"}})).unwrap());
            total.push(0);
            let chunks: Vec<Vec<u8>> = total.chunks(600 * 1024).map(|c| c.to_vec()).collect();
            cases.push(Case { input: mk_case("feed", &cfgs[0], &chunks, &total), tags: vec!["oversize:valid-1.3MB-in-600KiB-pieces".into()] });
        }
        // replies of every length around the sizes at which buffers are usually cut (a reply and its terminator
        // must arrive whatever its length)
        {
            let cfg = &cfgs[1];
            let ranges: Vec<(usize, usize)> = if ctx.thorough {
                vec![(0, 80), (440, 560), (960, 1100), (2000, 2100), (4030, 4160), (8120, 8260), (16330, 16440), (65480, 65600)]
            } else {
                vec![(960, 1060), (4040, 4120), (8150, 8215)]
            };
            for (lo, hi) in ranges {
                for padlen in lo..hi {
                    tok += 1;
                    let t = format!("t{}sz", tok);
                    let pad = "p".repeat(padlen);
                    let v = json!({"method":"org.example.s.Run","parameters":{"token": t, "script":[{"op":"reply","p":{"pad": pad, "token": t}}]}});
                    let mut total = serde_json::to_vec(&v).unwrap();
                    total.push(0);
                    let follow = json!({"method":"org.varlink.service.GetInfo","parameters":{"token": format!("t{}fz", tok)}});
                    total.extend_from_slice(&serde_json::to_vec(&follow).unwrap());
                    total.push(0);
                    cases.push(Case { input: mk_case("whole", cfg, &[total.clone()], &total), tags: vec!["reply-size-sweep".into()] });
                }
            }
        }
        // an upgraded connection carries arbitrary bytes: line breaks, NULs, what looks like a message — in pieces
        // that begin and end anywhere
        {
            let cfg = &cfgs[1];
            for fl in [vec!["upgrade"], vec!["upgrade", "oneway"], vec![]] {
                tok += 1;
                let t = format!("t{}uz", tok);
                let mut v = json!({"method":"org.example.s.Run","parameters":{"token": t, "script":[{"op":"upgrade"},{"op":"reply","p":{"token": t}}]}});
                for f in fl.iter() {
                    v[*f] = json!(true);
                }
                let mut head = serde_json::to_vec(&v).unwrap();
                head.push(0);
                let payload: &[u8] = b"alpha\nbravo\r\n\n\ncharlie\0\n{\"method\":\"x.y\"}\0\r\rdelta";
                let mut total = head.clone();
                total.extend_from_slice(payload);
                // every cut inside the payload, as two pieces behind the request
                for c in 0..=payload.len() {
                    let chunks = vec![head.clone(), payload[..c].to_vec(), payload[c..].to_vec()];
                    let chunks: Vec<Vec<u8>> = chunks.into_iter().filter(|c| !c.is_empty()).collect();
                    cases.push(Case { input: mk_case("feed", cfg, &chunks, &total), tags: vec!["upgraded-payload-cuts".into(), format!("flags:{}", fl.join("+"))] });
                }
                cases.push(Case { input: mk_case("whole", cfg, &[total.clone()], &total), tags: vec!["upgraded-payload-cuts".into()] });
            }
        }
        // registered names in another spelling x flags: unknown interfaces, whatever the flags
        {
            let cfg = &cfgs[1];
            let flagsets: Vec<Vec<&str>> = vec![vec![], vec!["more"], vec!["oneway"], vec!["oneway", "more"], vec!["upgrade"]];
            for m in ["Org.Example.S.Run", "ORG.EXAMPLE.S.Run", "org.example.S.Run", "Org.Varlink.Service.GetInfo", "org.varlink.Service.GetInfo",
                      "ORG.VARLINK.SERVICE.GetInterfaceDescription"] {
                for fl in flagsets.iter() {
                    tok += 1;
                    let t = format!("t{}cz", tok);
                    let mut v = json!({"method": m, "parameters": {"token": t, "interface": "org.example.s", "script": [{"op":"reply","p":{"token": t, "i": 0}}]}});
                    for f in fl.iter() {
                        v[*f] = json!(true);
                    }
                    let mut total = serde_json::to_vec(&v).unwrap();
                    total.push(0);
                    let follow = json!({"method":"org.varlink.service.GetInfo","parameters":{"token": format!("t{}fz", tok)}});
                    total.extend_from_slice(&serde_json::to_vec(&follow).unwrap());
                    total.push(0);
                    cases.push(Case {
                        input: mk_case(if tok % 2 == 0 { "whole" } else { "feed" }, cfg, &[total.clone()], &total),
                        tags: vec!["case-variant-x-flags".into(), format!("flags:{}", fl.join("+"))],
                    });
                }
            }
        }
        // the generated dispatch code: every method (and an unknown one) x parameters {absent, object, array,
        // ill-typed, null} x flags, each followed by a plain built-in call
        if let Some(cfg) = cfgs.iter().find(|c| c.has_gen) {
            let methods = ["Echo", "Stream", "Fail", "Opt", "NoArgs", "Missing", "missing", "Echo2"];
            let flagsets: Vec<Vec<&str>> = vec![vec![], vec!["more"], vec!["oneway"], vec!["upgrade"]];
            for m in methods.iter() {
                for pk in 0..5usize {
                    for fl in flagsets.iter() {
                        tok += 1;
                        let t = format!("t{}gz", tok);
                        let mut v = json!({"method": format!("org.example.vtest.{}", m)});
                        match pk {
                            0 => {}
                            1 => { v["parameters"] = json!({"token": t, "n": 2}); }
                            2 => { v["parameters"] = json!([t, 2]); }
                            3 => { v["parameters"] = json!({"token": 7, "n": "x"}); }
                            _ => { v["parameters"] = Value::Null; }
                        }
                        for f in fl.iter() {
                            v[*f] = json!(true);
                        }
                        let mut total = serde_json::to_vec(&v).unwrap();
                        total.push(0);
                        let follow = json!({"method":"org.varlink.service.GetInfo","parameters":{"token": format!("t{}fz", tok)}});
                        total.extend_from_slice(&serde_json::to_vec(&follow).unwrap());
                        total.push(0);
                        cases.push(Case {
                            input: mk_case(if tok % 2 == 0 { "whole" } else { "feed" }, cfg, &[total.clone()], &total),
                            tags: vec!["gen-x-params-x-flags".into(), format!("kind:gen:{}", m), format!("flags:{}", fl.join("+"))],
                        });
                    }
                }
            }
        }
        // known finding C02-F3: more than the internal buffer behind an upgrading request, one chunk,
        // through the documented loop
        {
            let cfg = &cfgs[1];
            let v = json!({"method":"org.example.s.Run","upgrade":true,
                "parameters":{"token":"t0z","script":[{"op":"upgrade"},{"op":"reply","p":{"token":"t0z"}}]}});
            let mut total = serde_json::to_vec(&v).unwrap();
            total.push(0);
            total.extend(std::iter::repeat(b'p').take(9000));
            cases.push(Case { input: mk_case("feed", cfg, &[total.clone()], &total), tags: vec!["upgrade-oversize-payload".into()] });
            cases.push(Case { input: mk_case("whole", cfg, &[total.clone()], &total), tags: vec!["upgrade-oversize-payload".into()] });
        }
        // systematic single cuts of a few short streams (every cut point)
        let n_sys = if ctx.thorough { 40 } else { 6 };
        for _ in 0..n_sys {
            let cfg = rng.pick(&cfgs);
            let len = rng.range(2, 3);
            let mut reqs = Vec::new();
            for _ in 0..len {
                tok += 1;
                reqs.push(gen_request(&mut rng, cfg, &format!("t{}z", tok)));
            }
            let total = stream_of(&reqs);
            for c in 0..=total.len() {
                let chunks = cut(&total, &[c]);
                cases.push(Case { input: mk_case("feed", cfg, &chunks, &total), tags: vec!["systematic-single-cut".into()] });
            }
        }
        cases
    }

    fn run(&self, _ctx: &Ctx, input: &Sx) -> Sx {
        run_case(input)
    }
}
