//! Suite `cert` (C19): the REAL `varlink-certification` server binary on a unix socket, spoken to
//! with raw NUL-framed JSON.
//!
//! Case input:
//!   (cert (q <conn> <class> <rawjson>)*)   requests in order; <conn> = which of the harness's
//!        connections carries it (opened on first use, re-opened after the server closed it);
//!        strings "@cidK" stand for the client id handed out by the K-th successful Start of this
//!        case (substituted on the way out, substituted back in every reply);
//!        <class> = what the generator did to this request: canon | same (JSON differs from the
//!        canonical request, typed value and call mode do not) | dev (deviates) | other
//!        "@cidK+<how>" is a RESPELLING of that id which the service never handed out: zero ("0" + id),
//!        zeros ("000" + id), plus ("+" + id), upper (hex digits in upper case), spb / spa (a space
//!        before / after), junk (id + "g")
//!        an element `(sleep <seconds>)` between requests lets real time pass (thorough tier only)
//!   Before every case the harness calls Start on a fresh connection; a service that does not answer
//!   (e.g. a panic while the table was locked) is restarted, so that one input cannot fail the cases after it.
//!   (race <n> <rounds>)  per round: Start on a control connection, then n connections send the SAME
//!        canonical step under that one client id at the same moment (barrier), for Test01..Test10;
//!        Test11 once; then End raced as well
//!   (many <n> <conns>)  n clients call Start (over <conns> connections, client i on connection i mod conns),
//!        then all of them go through the canonical sequence in lock step: round k = every client's
//!        step k, client 0 first.  All n clients are between Start and End at the same time.
//!   (churn <n> <rounds>)  n threads, each running <rounds> complete canonical sequences Start..End back to
//!        back on its own connection, all at full speed (Starts and Ends of different clients overlap all
//!        the time); every request has a 10 s deadline (30 s elsewhere)
//!   (conc <n>)         n threads, each a canonical client on its own connection, all at once
//!   (realclient <n>)   n processes `varlink-certification --client` against the server, all at once
//!
//! Observation:
//!   cert:       (obs (r <closed t|f> <reply>*)*)   reply = (rep <continues> <error> <params>)
//!   race:       (obs (x <k> (round (step <pos> <r>*)*))*)   the outcomes of one race sorted (who wins is
//!               not observable), equal consecutive rounds run-length encoded, the id printed as "@cid0"
//!   many:       (obs (step <pos> (<count> <first client index> <r>)*)*)   pos 0 = Start; per step the distinct
//!               outcomes (the client's own id printed as "@cid"), how many clients got each, and the first
//!               client that got it, ordered by that index
//!   churn:      (obs (seqs <completed sequences>) (first-failure - | (<thread> <sequence> <pos> <kind>)))
//!               kind = timeout | closed | error | missing-reply
//!   conc:       (obs (client (r ...)*)*)           in thread order, thread c's id printed as "@cidc"
//!   realclient: (obs (exit <code>)*)
//! The text of an InvalidParameter reply produced from a serde error is printed as "*".
use crate::rng::Rng;
use crate::suites::serde::raw_text;
use crate::sx::{self, Sx};
use crate::{Case, Ctx, Suite};
use serde_json::{json, Value};
use std::io::{Read, Write};
use std::os::unix::net::UnixStream;
use std::os::unix::process::CommandExt;
use std::process::{Child, Command, Stdio};
use std::sync::Mutex;
use std::time::Duration;

pub struct CertSuite;

struct Server {
    child: Child,
    path: String,
}

impl Drop for Server {
    fn drop(&mut self) {
        let _ = self.child.kill();
        let _ = self.child.wait();
        let _ = std::fs::remove_file(&self.path);
    }
}

static SERVER: Mutex<Option<Server>> = Mutex::new(None);

fn server_bin() -> String {
    let exe = std::env::current_exe().expect("current_exe");
    exe.parent().unwrap().join("varlink-certification").to_string_lossy().into_owned()
}

fn socket_path(ctx: &Ctx) -> String {
    // unix socket paths are limited to ~107 bytes: fall back to /tmp for deep output directories
    let p = format!("{}/cert.sock", ctx.out_dir);
    let abs = std::fs::canonicalize(&ctx.out_dir).map(|d| format!("{}/cert.sock", d.display())).unwrap_or(p);
    if abs.len() < 100 {
        abs
    } else {
        format!("/tmp/vv-cert-{}.sock", std::process::id())
    }
}

fn start_server(ctx: &Ctx) {
    let mut g = SERVER.lock().unwrap();
    if g.is_some() {
        return;
    }
    let path = socket_path(ctx);
    let _ = std::fs::remove_file(&path);
    let mut cmd = Command::new(server_bin());
    cmd.arg(format!("--varlink=unix:{}", path))
        .arg("--timeout")
        .arg("120") // exits by itself when idle, should the harness be killed
        .stdin(Stdio::null())
        .stdout(Stdio::null())
        .stderr(Stdio::null());
    unsafe {
        cmd.pre_exec(|| {
            // die with the harness
            libc::prctl(libc::PR_SET_PDEATHSIG, libc::SIGKILL);
            Ok(())
        });
    }
    let child = cmd.spawn().expect("spawn varlink-certification");
    let srv = Server { child, path: path.clone() };
    for _ in 0..500 {
        if UnixStream::connect(&path).is_ok() {
            *g = Some(srv);
            return;
        }
        std::thread::sleep(Duration::from_millis(10));
    }
    drop(srv);
    panic!("certification server did not come up");
}

fn stop_server() {
    let mut g = SERVER.lock().unwrap();
    *g = None; // Drop kills, reaps, removes the socket
}

/// is the certification interface still answering?  (`Start` on a fresh connection)
fn service_answers(path: &str) -> bool {
    match connect(path) {
        Some(mut c) => {
            let (replies, _) = exchange(&mut c, b"{\"method\":\"org.varlink.certification.Start\"}", 999_999);
            new_id_of(&replies).is_some()
        }
        None => false,
    }
}

fn ensure_service(ctx: &Ctx) {
    start_server(ctx);
    let path = server_path();
    if !service_answers(&path) {
        stop_server();
        start_server(ctx);
    }
}

fn server_path() -> String {
    SERVER.lock().unwrap().as_ref().map(|s| s.path.clone()).expect("server not running")
}

// ---------------------------------------------------------------------------
// raw socket client

struct Conn {
    s: UnixStream,
    buf: Vec<u8>,
}

fn connect(path: &str) -> Option<Conn> {
    let s = UnixStream::connect(path).ok()?;
    s.set_read_timeout(Some(Duration::from_secs(30))).ok()?;
    s.set_write_timeout(Some(Duration::from_secs(10))).ok()?;
    Some(Conn { s, buf: Vec::new() })
}

enum End {
    Open,
    Closed,
    Timeout,
}

/// send one request followed by a sentinel call; everything that arrives before the sentinel's
/// reply (or before EOF) is the reply list of the request
fn exchange(c: &mut Conn, req: &[u8], nonce: usize) -> (Vec<Value>, End) {
    let sentinel_if = format!("zz.sentinel{}", nonce);
    let mut out = Vec::with_capacity(req.len() + 64);
    out.extend_from_slice(req);
    out.push(0);
    out.extend_from_slice(format!("{{\"method\":\"{}.X\"}}", sentinel_if).as_bytes());
    out.push(0);
    let _ = c.s.write_all(&out); // EPIPE shows up as EOF below
    let mut replies = Vec::new();
    loop {
        while let Some(p) = c.buf.iter().position(|b| *b == 0) {
            let msg: Vec<u8> = c.buf.drain(..=p).collect();
            let v: Value = serde_json::from_slice(&msg[..msg.len() - 1]).unwrap_or(Value::String("<unparsable>".into()));
            let is_sentinel = v.get("error").and_then(|e| e.as_str()) == Some("org.varlink.service.InterfaceNotFound")
                && v.pointer("/parameters/interface").and_then(|e| e.as_str()) == Some(sentinel_if.as_str());
            if is_sentinel {
                return (replies, End::Open);
            }
            replies.push(v);
        }
        let mut tmp = [0u8; 65536];
        match c.s.read(&mut tmp) {
            Ok(0) => return (replies, End::Closed),
            Ok(n) => c.buf.extend_from_slice(&tmp[..n]),
            Err(e) => {
                return match e.kind() {
                    std::io::ErrorKind::WouldBlock | std::io::ErrorKind::TimedOut => (replies, End::Timeout),
                    _ => (replies, End::Closed),
                }
            }
        }
    }
}

pub const RESPELLINGS: &[&str] = &["zero", "zeros", "plus", "upper", "spb", "spa", "junk"];

/// a string the service never handed out that a sloppy comparison might take for `id`
fn respell(id: &str, how: &str) -> String {
    let r = match how {
        "zero" => format!("0{}", id),
        "zeros" => format!("000{}", id),
        "plus" => format!("+{}", id),
        "upper" => id.to_uppercase(),
        "spb" => format!(" {}", id),
        "spa" => format!("{} ", id),
        "junk" => format!("{}g", id),
        _ => format!("{}?", id),
    };
    // an id without letters has no other case: fall back to another respelling, never to the id itself
    if r == id {
        format!("0{}", id)
    } else {
        r
    }
}

/// placeholders -> real strings; `sent` remembers what each placeholder became
fn subst_out(s: &Sx, ids: &[String], sent: &mut Vec<(String, String)>) -> Sx {
    match s {
        Sx::Atom(_) => {
            if let Some(t) = s.as_str() {
                if let Some(rest) = t.strip_prefix("@cid") {
                    let (k, how) = match rest.split_once('+') {
                        Some((k, how)) => (k, Some(how)),
                        None => (rest, None),
                    };
                    if let Some(id) = k.parse::<usize>().ok().and_then(|k| ids.get(k)) {
                        return match how {
                            None => sx::xs(id),
                            Some(how) => {
                                let real = respell(id, how);
                                if !sent.iter().any(|(r, _)| r == &real) {
                                    sent.push((real.clone(), t.clone()));
                                }
                                sx::xs(&real)
                            }
                        };
                    }
                }
            }
            s.clone()
        }
        Sx::List(l) => Sx::List(l.iter().map(|x| subst_out(x, ids, sent)).collect()),
    }
}

fn subst_back(v: &Value, ids: &[String], sent: &[(String, String)]) -> Value {
    match v {
        Value::String(s) => {
            if let Some((_, ph)) = sent.iter().find(|(r, _)| r == s) {
                return Value::String(ph.clone());
            }
            match ids.iter().position(|i| i == s) {
                Some(k) => Value::String(format!("@cid{}", k)),
                None => v.clone(),
            }
        }
        Value::Array(a) => Value::Array(a.iter().map(|x| subst_back(x, ids, sent)).collect()),
        Value::Object(o) => Value::Object(o.iter().map(|(k, x)| (k.clone(), subst_back(x, ids, sent))).collect()),
        _ => v.clone(),
    }
}

fn reply_sx(v: &Value, ids: &[String], sent: &[(String, String)]) -> Sx {
    let v = subst_back(v, ids, sent);
    let cont = v.get("continues").and_then(|c| c.as_bool());
    let err = v.get("error").and_then(|e| e.as_str());
    let mut params = v.get("parameters").cloned();
    if err == Some("org.varlink.service.InvalidParameter") {
        if let Some(p) = params.as_mut().and_then(|p| p.get_mut("parameter")) {
            if p.as_str() != Some("parameters") {
                *p = Value::String("*".into());
            }
        }
    }
    let known = ["continues", "error", "parameters"];
    let extra = v.as_object().map(|o| o.keys().any(|k| !known.contains(&k.as_str()))).unwrap_or(true);
    if extra {
        return sx::tagged("rawrep", vec![sx::json(&v)]);
    }
    sx::tagged("rep", vec![sx::opt_bool(cont), sx::opt_str(err), sx::opt_json(params.as_ref())])
}

fn new_id_of(replies: &[Value]) -> Option<String> {
    if replies.len() != 1 || replies[0].get("error").is_some() {
        return None;
    }
    let p = replies[0].get("parameters")?.as_object()?;
    if p.len() == 1 {
        p.get("client_id")?.as_str().map(|s| s.to_string())
    } else {
        None
    }
}

fn run_cert(qs: &[Sx]) -> Sx {
    let path = server_path();
    let mut conns: std::collections::HashMap<usize, Conn> = std::collections::HashMap::new();
    let mut ids: Vec<String> = Vec::new();
    let mut sent: Vec<(String, String)> = Vec::new();
    let mut out = vec![];
    for (n, q) in qs.iter().enumerate() {
        let ql = q.as_list().expect("q");
        if ql[0].as_atom() == Some("sleep") {
            std::thread::sleep(Duration::from_secs(ql[1].as_usize().expect("seconds") as u64));
            continue;
        }
        let ci = ql[1].as_usize().expect("conn");
        let tree = subst_out(&ql[3], &ids, &mut sent);
        let mut text = String::new();
        raw_text(&tree, &mut text).expect("raw json");
        if !conns.contains_key(&ci) {
            match connect(&path) {
                Some(c) => {
                    conns.insert(ci, c);
                }
                None => {
                    out.push(sx::tagged("r", vec![sx::atom("connect-failed")]));
                    continue;
                }
            }
        }
        let (replies, end) = exchange(conns.get_mut(&ci).unwrap(), text.as_bytes(), n);
        if let Some(id) = new_id_of(&replies) {
            ids.push(id);
        }
        let mut r = vec![match end {
            End::Open => sx::atom("f"),
            End::Closed => sx::atom("t"),
            End::Timeout => sx::atom("timeout"),
        }];
        r.extend(replies.iter().map(|v| reply_sx(v, &ids, &sent)));
        out.push(sx::tagged("r", r));
        if !matches!(end, End::Open) {
            conns.remove(&ci);
        }
    }
    sx::tagged("obs", out)
}

// ---------------------------------------------------------------------------
// canonical requests (the client half of main.rs, `run_client`)

pub const STEPS: &[&str] = &[
    "Start", "Test01", "Test02", "Test03", "Test04", "Test05", "Test06", "Test07", "Test08", "Test09", "Test10",
    "Test11", "End",
];

fn mytype() -> Value {
    json!({
        "object": {"method": "org.varlink.certification.Test09", "parameters": {"map": {"foo": "Foo", "bar": "Bar"}}},
        "enum": "two",
        "struct": {"first": 1, "second": "2"},
        "array": ["one", "two", "three"],
        "dictionary": {"foo": "Foo", "bar": "Bar"},
        "stringset": {"one": {}, "two": {}, "three": {}},
        "nullable": null,
        "nullable_array_struct": null,
        "interface": {
            "foo": [null, {"foo": "foo", "bar": "bar"}, null, {"one": "foo", "two": "bar"}],
            "anon": {"foo": true, "bar": false}
        }
    })
}

/// canonical parameters of step `pos` (0 = Start: none)
pub fn canon_params(pos: usize, cid: &str) -> Option<Value> {
    let four = json!({"bool": false, "int": 2, "float": std::f64::consts::PI, "string": "a lot of string"});
    Some(match pos {
        0 => return None,
        1 => json!({"client_id": cid}),
        2 => json!({"client_id": cid, "bool": true}),
        3 => json!({"client_id": cid, "int": 1}),
        4 => json!({"client_id": cid, "float": 1.0}),
        5 => json!({"client_id": cid, "string": "ping"}),
        6 => json!({"client_id": cid, "bool": false, "int": 2, "float": std::f64::consts::PI, "string": "a lot of string"}),
        7 => json!({"client_id": cid, "struct": four}),
        8 => json!({"client_id": cid, "map": {"foo": "Foo", "bar": "Bar"}}),
        9 => json!({"client_id": cid, "set": {"one": {}, "two": {}, "three": {}}}),
        10 => json!({"client_id": cid, "mytype": mytype()}),
        11 => json!({"client_id": cid, "last_more_replies": (1..=10).map(|i| format!("Reply number {}", i)).collect::<Vec<_>>()}),
        12 => json!({"client_id": cid}),
        _ => return None,
    })
}

pub fn canon_request(pos: usize, cid: &str) -> Value {
    let mut o = serde_json::Map::new();
    o.insert("method".into(), Value::String(format!("org.varlink.certification.{}", STEPS[pos])));
    if let Some(p) = canon_params(pos, cid) {
        o.insert("parameters".into(), p);
    }
    if pos == 10 {
        o.insert("more".into(), Value::Bool(true));
    }
    if pos == 11 {
        o.insert("oneway".into(), Value::Bool(true));
    }
    Value::Object(o)
}

fn q(conn: usize, class: &str, tree: Sx) -> Sx {
    sx::tagged("q", vec![sx::nat(conn), sx::atom(class), tree])
}

fn canon_q(conn: usize, pos: usize, client: usize) -> Sx {
    q(conn, "canon", sx::json(&canon_request(pos, &format!("@cid{}", client))))
}

/// Start .. step pos-1 of client `client` on connection `conn`
fn prefix(conn: usize, client: usize, pos: usize) -> Vec<Sx> {
    (0..pos).map(|p| canon_q(conn, p, client)).collect()
}

// ---------------------------------------------------------------------------
// JSON trees as Sx: (o (xkey v)*) | (a v*) | n | t | f | (i ..) | (d ..) | (s ..)

fn tag_of(s: &Sx) -> &str {
    match s {
        Sx::Atom(a) => a.as_str(),
        Sx::List(l) => l.first().and_then(|x| x.as_atom()).unwrap_or(""),
    }
}

fn children(s: &Sx) -> Vec<Sx> {
    match tag_of(s) {
        "a" => s.as_list().unwrap()[1..].to_vec(),
        "o" => s.as_list().unwrap()[1..].iter().map(|kv| kv.as_list().unwrap()[1].clone()).collect(),
        _ => vec![],
    }
}

fn with_child(s: &Sx, i: usize, new: Option<Sx>) -> Sx {
    let l = s.as_list().unwrap();
    let mut out = vec![l[0].clone()];
    for (j, x) in l[1..].iter().enumerate() {
        if j != i {
            out.push(x.clone());
        } else if let Some(n) = &new {
            if tag_of(s) == "o" {
                out.push(sx::list(vec![x.as_list().unwrap()[0].clone(), n.clone()]));
            } else {
                out.push(n.clone());
            }
        }
    }
    sx::list(out)
}

/// paths to all leaves (scalars and empty containers)
fn leaves(s: &Sx, cur: &mut Vec<usize>, out: &mut Vec<Vec<usize>>) {
    let ch = children(s);
    if ch.is_empty() {
        out.push(cur.clone());
        return;
    }
    for (i, c) in ch.iter().enumerate() {
        cur.push(i);
        leaves(c, cur, out);
        cur.pop();
    }
}

fn get<'a>(s: &'a Sx, path: &[usize]) -> Sx {
    if path.is_empty() {
        return s.clone();
    }
    get(&children(s)[path[0]], &path[1..])
}

/// replace (Some) or remove (None) the node at `path`
fn edit(s: &Sx, path: &[usize], new: Option<Sx>) -> Sx {
    if path.len() == 1 {
        return with_child(s, path[0], new);
    }
    let c = edit(&children(s)[path[0]], &path[1..], new);
    with_child(s, path[0], Some(c))
}

fn path_name(s: &Sx, path: &[usize]) -> String {
    let mut cur = s.clone();
    let mut name = String::new();
    for &i in path {
        if tag_of(&cur) == "o" {
            let k = cur.as_list().unwrap()[1 + i].as_list().unwrap()[0].as_str().unwrap_or_default();
            name.push('.');
            name.push_str(&k);
        } else {
            name.push_str(&format!("[{}]", i));
        }
        cur = children(&cur)[i].clone();
    }
    name
}

fn jtype(s: &Sx) -> &'static str {
    match tag_of(s) {
        "n" => "null",
        "t" | "f" => "bool",
        "i" => "int",
        "d" => "float",
        "s" => "string",
        "a" => "array",
        "o" => "object",
        _ => "?",
    }
}

fn jint(i: i64) -> Sx {
    sx::list(vec![sx::atom("i"), sx::int(i)])
}
fn jflt(f: f64) -> Sx {
    sx::list(vec![sx::atom("d"), sx::atom(format!("{}", f.to_bits()))])
}
fn jstr(s: &str) -> Sx {
    sx::list(vec![sx::atom("s"), sx::xs(s)])
}

/// a different value of the same JSON type
fn changed(leaf: &Sx) -> Sx {
    match tag_of(leaf) {
        "n" => sx::atom("n"), // no other value of type null: callers skip it
        "t" => sx::atom("f"),
        "f" => sx::atom("t"),
        "i" => {
            let v: i64 = leaf.as_list().unwrap()[1].as_atom().unwrap().parse().unwrap_or(0);
            jint(v + 1)
        }
        "d" => {
            let b: u64 = leaf.as_list().unwrap()[1].as_atom().unwrap().parse().unwrap_or(0);
            sx::list(vec![sx::atom("d"), sx::atom(format!("{}", b + 1))])
        }
        "s" => {
            let v = leaf.as_list().unwrap()[1].as_str().unwrap_or_default();
            jstr(&format!("{}x", v))
        }
        "a" => sx::tagged("a", vec![sx::atom("n")]),
        _ => sx::tagged("o", vec![sx::list(vec![sx::xs("k"), sx::tagged("o", vec![])])]),
    }
}

fn retypes(leaf: &Sx) -> Vec<(&'static str, Sx)> {
    let all: Vec<(&'static str, Sx)> = vec![
        ("null", sx::atom("n")),
        ("bool", sx::atom("t")),
        ("int", jint(7)),
        ("float", jflt(1.5)),
        ("string", jstr("1")),
        ("array", sx::tagged("a", vec![])),
        ("object", sx::tagged("o", vec![])),
    ];
    all.into_iter().filter(|(t, _)| *t != jtype(leaf)).collect()
}

/// request object with the parameters replaced
fn req_with_params(pos: usize, client: usize, params: Option<Sx>) -> Sx {
    req_with_params_id(pos, &format!("@cid{}", client), params)
}

fn req_with_params_id(pos: usize, cid: &str, params: Option<Sx>) -> Sx {
    let base = sx::json(&canon_request(pos, cid));
    let mut es: Vec<Sx> = base.as_list().unwrap()[1..]
        .iter()
        .filter(|kv| kv.as_list().unwrap()[0].as_str().as_deref() != Some("parameters"))
        .cloned()
        .collect();
    if let Some(p) = params {
        es.push(sx::list(vec![sx::xs("parameters"), p]));
    }
    sx::tagged("o", es)
}

/// request object with the three flags set as given (None = absent)
fn req_with_flags(pos: usize, client: usize, flags: [Option<bool>; 3]) -> Sx {
    req_with_flags_id(pos, &format!("@cid{}", client), flags)
}

fn req_with_flags_id(pos: usize, cid: &str, flags: [Option<bool>; 3]) -> Sx {
    let base = sx::json(&canon_request(pos, cid));
    let mut es: Vec<Sx> = base.as_list().unwrap()[1..]
        .iter()
        .filter(|kv| {
            let k = kv.as_list().unwrap()[0].as_str().unwrap_or_default();
            k != "more" && k != "oneway" && k != "upgrade"
        })
        .cloned()
        .collect();
    for (name, f) in ["more", "oneway", "upgrade"].iter().zip(flags.iter()) {
        if let Some(b) = f {
            es.push(sx::list(vec![sx::xs(name), sx::boolean(*b)]));
        }
    }
    sx::tagged("o", es)
}

fn mode_of(pos: usize) -> [bool; 3] {
    [pos == 10, pos == 11, false]
}

fn follow_up(conn: usize, client: usize, pos: usize) -> Vec<Sx> {
    // after the probed request: the canonical request of the same step, then of the next one
    let mut v = vec![canon_q(conn, pos, client)];
    if pos + 1 < STEPS.len() {
        v.push(canon_q(conn, pos + 1, client));
    }
    v
}

fn case(qs: Vec<Sx>, tags: Vec<String>) -> Case {
    Case { input: sx::tagged("cert", qs), tags }
}

fn corpus(name: &str) -> Vec<Sx> {
    let p = format!("{}/corpus/{}.txt", env!("CARGO_MANIFEST_DIR"), name);
    std::fs::read_to_string(p)
        .unwrap_or_default()
        .lines()
        .filter(|l| l.trim_start().starts_with('('))
        .filter_map(sx::parse)
        .collect()
}

/// is the value at this path of the canonical parameters one that decodes into an `Option` that
/// is `None` (the two nullable members of MyType, and the null elements of interface.foo)?
fn is_null_leaf(leaf: &Sx) -> bool {
    tag_of(leaf) == "n"
}

impl Suite for CertSuite {
    fn setup(&self, ctx: &Ctx) {
        start_server(ctx);
    }
    fn teardown(&self, _ctx: &Ctx) {
        stop_server();
    }

    fn generate(&self, ctx: &Ctx) -> Vec<Case> {
        let mut out: Vec<Case> =
            corpus("cert").into_iter().map(|input| Case { input, tags: vec!["corpus".into()] }).collect();
        let mut r = Rng::new(ctx.seed);
        let nsteps = STEPS.len();

        // A. the canonical sequence, one client
        out.push(case(prefix(0, 0, nsteps), vec!["canonical".into(), "class:canon".into()]));

        // B. every step x every single-leaf mutation of its canonical parameters
        for pos in 1..nsteps {
            let params = sx::json(&canon_params(pos, "@cid0").unwrap());
            let mut ls = vec![];
            leaves(&params, &mut vec![], &mut ls);
            // quick: the big MyType tree is sampled, everything else is exhaustive
            for path in ls {
                let leaf = get(&params, &path);
                let name = path_name(&params, &path);
                let mut muts: Vec<(String, &str, Sx)> = vec![];
                // a set member `{}` may hold anything: `{"k":{}}` is still the empty struct
                let set_member = tag_of(&leaf) == "o" && (name.contains(".set.") || name.contains(".stringset."));
                if tag_of(&leaf) != "n" {
                    let class = if set_member { "same" } else { "dev" };
                    muts.push(("changed".into(), class, edit(&params, &path, Some(changed(&leaf)))));
                }
                // removing a member that is null (an Option that is None) leaves the typed value alone,
                // unless it is an array element (interface.foo[i]: the array gets shorter)
                let in_array = name.ends_with(']');
                let rm_class = if is_null_leaf(&leaf) && !in_array { "same" } else { "dev" };
                muts.push(("removed".into(), rm_class, edit(&params, &path, None)));
                for (t, v) in retypes(&leaf) {
                    // an empty struct (set member `{}`) may also be written `[]`
                    let class = if set_member && t == "array" { "same" } else { "dev" };
                    muts.push((format!("retyped:{}", t), class, edit(&params, &path, Some(v))));
                }
                for (kind, class, p) in muts {
                    if !ctx.thorough && pos == 10 && kind.starts_with("retyped") && r.chance(2, 3) {
                        continue;
                    }
                    let mut qs = prefix(0, 0, pos);
                    qs.push(q(0, class, req_with_params(pos, 0, Some(p))));
                    qs.extend(follow_up(0, 0, pos));
                    out.push(case(
                        qs,
                        vec![
                            "leaf-mutation".into(),
                            format!("step:{}", STEPS[pos]),
                            format!("mut:{}", kind.split(':').next().unwrap()),
                            format!("class:{}", class),
                        ],
                    ));
                }
            }
            // parameters as a whole: absent, null, wrong JSON types
            for (kind, p) in [
                ("params-absent", None),
                ("params-null", Some(sx::atom("n"))),
                ("params-string", Some(jstr("x"))),
                ("params-int", Some(jint(1))),
                ("params-empty-array", Some(sx::tagged("a", vec![]))),
                ("params-empty-object", Some(sx::tagged("o", vec![]))),
            ] {
                let mut qs = prefix(0, 0, pos);
                qs.push(q(0, "dev", req_with_params(pos, 0, p)));
                qs.extend(follow_up(0, 0, pos));
                out.push(case(qs, vec!["params-mutation".into(), format!("mut:{}", kind), "class:dev".into()]));
            }
            // typed-same rewrites of the whole parameter object
            {
                // an extra (unknown) member on the top level and inside every nested struct object
                let mut es = params.as_list().unwrap().to_vec();
                es.push(sx::list(vec![sx::xs("zz_extra"), jint(7)]));
                let mut qs = prefix(0, 0, pos);
                qs.push(q(0, "same", req_with_params(pos, 0, Some(sx::list(es)))));
                qs.extend(follow_up(0, 0, pos));
                out.push(case(qs, vec!["same-rewrite".into(), "mut:extra-member".into(), "class:same".into()]));
                // struct-from-array form of the parameter struct (members in declaration order)
                let order: &[&str] = match pos {
                    2 => &["client_id", "bool"],
                    3 => &["client_id", "int"],
                    4 => &["client_id", "float"],
                    5 => &["client_id", "string"],
                    6 => &["client_id", "bool", "int", "float", "string"],
                    7 => &["client_id", "struct"],
                    8 => &["client_id", "map"],
                    9 => &["client_id", "set"],
                    10 => &["client_id", "mytype"],
                    11 => &["client_id", "last_more_replies"],
                    _ => &["client_id"],
                };
                let mut arr = vec![sx::atom("a")];
                for k in order {
                    let v = params.as_list().unwrap()[1..]
                        .iter()
                        .find(|kv| kv.as_list().unwrap()[0].as_str().as_deref() == Some(*k))
                        .map(|kv| kv.as_list().unwrap()[1].clone())
                        .unwrap();
                    arr.push(v);
                }
                let mut qs = prefix(0, 0, pos);
                qs.push(q(0, "same", req_with_params(pos, 0, Some(sx::list(arr.clone())))));
                qs.extend(follow_up(0, 0, pos));
                out.push(case(qs, vec!["same-rewrite".into(), "mut:array-form".into(), "class:same".into()]));
                // ... and with one element too many / too few: deviations
                let mut long = arr.clone();
                long.push(sx::atom("n"));
                let mut short = arr.clone();
                short.pop();
                for (kind, a) in [("array-form-long", long), ("array-form-short", short)] {
                    let mut qs = prefix(0, 0, pos);
                    qs.push(q(0, "dev", req_with_params(pos, 0, Some(sx::list(a)))));
                    qs.extend(follow_up(0, 0, pos));
                    out.push(case(qs, vec!["params-mutation".into(), format!("mut:{}", kind), "class:dev".into()]));
                }
            }
        }
        // container-level mutations: one more member / element at every inner node, arrays reversed,
        // duplicate members in the text (the later one wins when `parameters` becomes a Value)
        for pos in 1..nsteps {
            let params = sx::json(&canon_params(pos, "@cid0").unwrap());
            let mut nodes: Vec<Vec<usize>> = vec![vec![]];
            fn inner(s: &Sx, cur: &mut Vec<usize>, out: &mut Vec<Vec<usize>>) {
                for (i, c) in children(s).iter().enumerate() {
                    if tag_of(c) == "o" || tag_of(c) == "a" {
                        cur.push(i);
                        out.push(cur.clone());
                        inner(c, cur, out);
                        cur.pop();
                    }
                }
            }
            inner(&params, &mut vec![], &mut nodes);
            for path in nodes {
                let node = get(&params, &path);
                let name = path_name(&params, &path);
                // which objects are maps / sets / free-form Values (an extra member changes the value)
                // and which are structs (an unknown member is ignored)?
                let is_map = name.ends_with(".map")
                    || name.ends_with(".set")
                    || name.ends_with(".dictionary")
                    || name.ends_with(".stringset")
                    || name.contains(".object")
                    || name.ends_with(".foo[1]")
                    || name.ends_with(".foo[3]");
                let is_set_member = (name.contains(".set.") || name.contains(".stringset.")) && !name.ends_with(".set");
                let (kind, class, mutated) = if tag_of(&node) == "o" {
                    let mut l = node.as_list().unwrap().to_vec();
                    l.push(sx::list(vec![sx::xs("zz_more"), jstr("foo")]));
                    let class = if is_map && !is_set_member { "dev" } else { "same" };
                    ("extra-member-inner", class, sx::list(l))
                } else {
                    let mut l = node.as_list().unwrap().to_vec();
                    l.push(jstr("one"));
                    ("extra-element", "dev", sx::list(l))
                };
                let p = if path.is_empty() { mutated } else { edit(&params, &path, Some(mutated)) };
                let mut qs = prefix(0, 0, pos);
                qs.push(q(0, class, req_with_params(pos, 0, Some(p))));
                qs.extend(follow_up(0, 0, pos));
                out.push(case(qs, vec!["container-mutation".into(), format!("mut:{}", kind), format!("class:{}", class)]));
                if tag_of(&node) == "a" && node.as_list().unwrap().len() > 2 {
                    let l = node.as_list().unwrap();
                    let mut rev = vec![l[0].clone()];
                    rev.extend(l[1..].iter().rev().cloned());
                    let p = edit(&params, &path, Some(sx::list(rev)));
                    let mut qs = prefix(0, 0, pos);
                    qs.push(q(0, "dev", req_with_params(pos, 0, Some(p))));
                    qs.extend(follow_up(0, 0, pos));
                    out.push(case(qs, vec!["container-mutation".into(), "mut:array-reversed".into(), "class:dev".into()]));
                }
            }
            // duplicate `client_id`: the later member wins
            let es = params.as_list().unwrap()[1..].to_vec();
            let bogus = sx::list(vec![sx::xs("client_id"), jstr("zz-bogus")]);
            let mut first_bogus = vec![sx::atom("o"), bogus.clone()];
            first_bogus.extend(es.iter().cloned());
            let mut last_bogus = vec![sx::atom("o")];
            last_bogus.extend(es.iter().cloned());
            last_bogus.push(bogus);
            for (kind, class, p) in [("dup-member-canonical-last", "same", sx::list(first_bogus)), ("dup-member-bogus-last", "dev", sx::list(last_bogus))] {
                let mut qs = prefix(0, 0, pos);
                qs.push(q(0, class, req_with_params(pos, 0, Some(p))));
                qs.extend(follow_up(0, 0, pos));
                out.push(case(qs, vec!["text-duplicates".into(), format!("mut:{}", kind), format!("class:{}", class)]));
            }
            // the request object itself with `method` twice: not a request for from_slice
            let base = sx::json(&canon_request(pos, "@cid0"));
            let mut l = base.as_list().unwrap().to_vec();
            l.push(sx::list(vec![sx::xs("method"), jstr(&format!("org.varlink.certification.{}", STEPS[pos]))]));
            let mut qs = prefix(0, 0, pos);
            qs.push(q(0, "dev", sx::list(l)));
            qs.extend(follow_up(1, 0, pos));
            out.push(case(qs, vec!["text-duplicates".into(), "mut:dup-method".into(), "class:dev".into()]));
        }

        // integers where the type is float (1 for 1.0 is the same f64; 3 is not PI)
        for (pos, member, class, v) in [
            (4usize, "float", "same", jint(1)),
            (4, "float", "dev", jint(2)),
            (6, "float", "dev", jint(3)),
            (3, "int", "dev", jflt(1.0)),
        ] {
            let params = sx::json(&canon_params(pos, "@cid0").unwrap());
            let idx = params.as_list().unwrap()[1..]
                .iter()
                .position(|kv| kv.as_list().unwrap()[0].as_str().as_deref() == Some(member))
                .unwrap();
            let p = edit(&params, &[idx], Some(v));
            let mut qs = prefix(0, 0, pos);
            qs.push(q(0, class, req_with_params(pos, 0, Some(p))));
            qs.extend(follow_up(0, 0, pos));
            out.push(case(qs, vec!["number-retype".into(), "mut:int-vs-float".into(), format!("class:{}", class)]));
        }
        // set members that are non-empty objects (decode to the same set)
        for pos in [9usize, 10] {
            let params = sx::json(&canon_params(pos, "@cid0").unwrap());
            let mut ls = vec![];
            leaves(&params, &mut vec![], &mut ls);
            for path in ls {
                let name = path_name(&params, &path);
                let leaf = get(&params, &path);
                if tag_of(&leaf) == "o" && (name.contains(".set.") || name.contains(".stringset.")) {
                    let v = sx::tagged("o", vec![sx::list(vec![sx::xs("x"), jint(5)])]);
                    let mut qs = prefix(0, 0, pos);
                    qs.push(q(0, "same", req_with_params(pos, 0, Some(edit(&params, &path, Some(v))))));
                    qs.extend(follow_up(0, 0, pos));
                    out.push(case(qs, vec!["same-rewrite".into(), "mut:set-member-nonempty-object".into(), "class:same".into()]));
                }
            }
        }
        // exotic but typed-equal spellings inside nested values: a unit variant as a single-key map,
        // nested structs as arrays; and near misses of those
        {
            let find = |tree: &Sx, dotted: &str| -> Vec<usize> {
                let mut ls = vec![];
                fn all(s: &Sx, cur: &mut Vec<usize>, out: &mut Vec<Vec<usize>>) {
                    out.push(cur.clone());
                    for (i, c) in children(s).iter().enumerate() {
                        cur.push(i);
                        all(c, cur, out);
                        cur.pop();
                    }
                }
                all(tree, &mut vec![], &mut ls);
                ls.into_iter().find(|p| path_name(tree, p) == dotted).expect("path")
            };
            let pi = std::f64::consts::PI;
            let variants: Vec<(usize, &str, &str, Sx)> = vec![
                (10, ".mytype.enum", "same", sx::tagged("o", vec![sx::list(vec![sx::xs("two"), sx::atom("n")])])),
                (10, ".mytype.enum", "dev", sx::tagged("o", vec![sx::list(vec![sx::xs("two"), sx::tagged("o", vec![])])])),
                (10, ".mytype.enum", "dev", sx::tagged("o", vec![sx::list(vec![sx::xs("one"), sx::atom("n")]), sx::list(vec![sx::xs("two"), sx::atom("n")])])),
                (10, ".mytype.enum", "dev", sx::tagged("o", vec![sx::list(vec![sx::xs("three"), sx::atom("n")])])),
                (10, ".mytype.enum", "dev", sx::tagged("a", vec![jstr("two")])),
                (10, ".mytype.struct", "same", sx::tagged("a", vec![jint(1), jstr("2")])),
                (10, ".mytype.struct", "dev", sx::tagged("a", vec![jstr("2"), jint(1)])),
                (10, ".mytype.struct", "dev", sx::tagged("a", vec![jint(1), jstr("2"), sx::atom("n")])),
                (10, ".mytype.interface.anon", "same", sx::tagged("a", vec![sx::atom("t"), sx::atom("f")])),
                (10, ".mytype.interface.anon", "dev", sx::tagged("a", vec![sx::atom("f"), sx::atom("t")])),
                (10, ".mytype.interface.foo[1].foo", "same", sx::tagged("o", vec![sx::list(vec![sx::xs("foo"), sx::atom("n")])])),
                (10, ".mytype.interface.foo[1].foo", "dev", jstr("baz")),
                (10, ".mytype.interface.foo", "dev", sx::atom("n")),
                (10, ".mytype.nullable", "dev", jstr("")),
                (10, ".mytype.nullable_array_struct", "dev", sx::tagged("a", vec![])),
                (10, ".mytype.struct.first", "dev", jflt(1.0)),
                (10, ".mytype.struct.first", "dev", sx::list(vec![sx::atom("i"), sx::atom("9223372036854775808")])),
                (7, ".struct", "same", sx::tagged("a", vec![sx::atom("f"), jint(2), jflt(pi), jstr("a lot of string")])),
                (7, ".struct", "dev", sx::tagged("a", vec![sx::atom("f"), jint(2), jflt(pi)])),
                (7, ".struct.float", "dev", jflt(3.141592653589793 + 4.440892098500626e-16)),
                (7, ".struct.int", "dev", jflt(2.0)),
                (4, ".float", "dev", jflt(1.0000000000000002)),
                (4, ".float", "same", sx::list(vec![sx::atom("i"), sx::atom("1")])),
                (4, ".float", "dev", sx::list(vec![sx::atom("i"), sx::atom("18446744073709551615")])),
                (3, ".int", "dev", sx::list(vec![sx::atom("i"), sx::atom("18446744073709551615")])),
                (3, ".int", "dev", sx::list(vec![sx::atom("i"), sx::atom("-9223372036854775808")])),
                (2, ".bool", "dev", jint(1)),
                (2, ".bool", "dev", jstr("true")),
            ];
            for (pos, dotted, class, v) in variants {
                let params = sx::json(&canon_params(pos, "@cid0").unwrap());
                let path = find(&params, dotted);
                let p = edit(&params, &path, Some(v));
                let mut qs = prefix(0, 0, pos);
                qs.push(q(0, class, req_with_params(pos, 0, Some(p))));
                qs.extend(follow_up(0, 0, pos));
                out.push(case(qs, vec!["typed-spelling".into(), format!("class:{}", class)]));
            }
        }

        // Start with parameters
        for (class, p) in [
            ("same", Some(sx::tagged("o", vec![]))),
            ("same", Some(sx::atom("n"))),
            ("dev", Some(sx::tagged("o", vec![sx::list(vec![sx::xs("x"), jint(1)])]))),
            ("dev", Some(sx::tagged("a", vec![]))),
            ("dev", Some(jstr("x"))),
        ] {
            let mut qs = vec![q(0, class, req_with_params(0, 0, p))];
            qs.push(canon_q(0, 1, 0));
            out.push(case(qs, vec!["start-params".into(), format!("class:{}", class)]));
        }

        // C. every step x every call-mode flag combination
        let tri = [None, Some(false), Some(true)];
        for pos in 0..nsteps {
            for m in tri {
                for o in tri {
                    for u in tri {
                        let want = mode_of(pos);
                        let same = [m == Some(true), o == Some(true), u == Some(true)] == want;
                        let canon = same && [m, o, u] == [if want[0] { Some(true) } else { None }, if want[1] { Some(true) } else { None }, None];
                        let class = if canon { "canon" } else if same { "same" } else { "dev" };
                        let mut qs = prefix(0, 0, pos);
                        qs.push(q(0, class, req_with_flags(pos, 0, [m, o, u])));
                        qs.extend(follow_up(0, 0, pos));
                        out.push(case(qs, vec!["flags".into(), format!("step:{}", STEPS[pos]), format!("class:{}", class)]));
                    }
                }
            }
        }

        // D. every step at every wrong position
        for at in 0..nsteps {
            for pos in 1..nsteps {
                if pos == at {
                    continue;
                }
                // client is about to send step `at` (at = 0: has not even started) and sends `pos`
                let mut qs = prefix(0, 0, at);
                qs.push(q(0, "dev", sx::json(&canon_request(pos, "@cid0"))));
                if at >= 1 {
                    qs.push(canon_q(0, at, 0)); // the expected step still works: nothing was consumed
                }
                out.push(case(qs, vec!["wrong-position".into(), "class:dev".into()]));
            }
        }

        // E. unknown client ids; ids of other clients; finished clients
        for pos in 1..nsteps {
            out.push(case(
                vec![q(0, "dev", sx::json(&canon_request(pos, "zz-never-handed-out")))],
                vec!["unknown-id".into(), "class:dev".into()],
            ));
            out.push(case(
                vec![q(0, "dev", sx::json(&canon_request(pos, "")))],
                vec!["unknown-id".into(), "class:dev".into()],
            ));
            // a second client at Test01 does not help the first one's id at a later step, and vice versa
            let mut qs = prefix(0, 0, pos);
            qs.push(canon_q(1, 0, 1));
            qs.push(q(1, if pos == 1 { "canon" } else { "dev" }, sx::json(&canon_request(pos, "@cid1"))));
            qs.push(canon_q(1, pos, 0)); // client 0's step sent over client 1's connection: ids, not connections, count
            out.push(case(qs, vec!["other-client".into()]));
        }
        // E1. refused ids of every length around 8 / 16 / 32 bytes, with multi-byte characters at every offset
        //     around those lengths; after EACH refused request a fresh canonical client must still be served
        //     (a refused request never affects other clients)
        {
            let mut long_ids: Vec<String> = vec![];
            for (ch, w) in [("é", 2usize), ("日", 3), ("😀", 4)] {
                for boundary in [8usize, 16, 32] {
                    // the multi-byte character starts 1..w-1 bytes before the boundary: it straddles it
                    for before in 1..w {
                        let lead = boundary - before;
                        let mut id = "a".repeat(lead);
                        id.push_str(ch);
                        while id.len() < boundary + 1 + (boundary % 7) {
                            id.push_str(ch);
                        }
                        long_ids.push(id);
                    }
                    // and exactly at it
                    let mut id = "0".repeat(boundary);
                    id.push_str(ch);
                    long_ids.push(id);
                }
                long_ids.push(ch.repeat(64 / w));
                long_ids.push(format!("a{}", ch.repeat(12)));
            }
            long_ids.push("f".repeat(17));
            long_ids.push("0123456789abcdef0".into());
            long_ids.push("x".repeat(64));
            for (i, id) in long_ids.iter().enumerate() {
                let pos = 1 + (i % (nsteps - 1));
                let mut qs = vec![q(0, "dev", sx::json(&canon_request(pos, id)))];
                // a fresh canonical client on another connection, and one on the same connection
                qs.extend(prefix(1, 0, 3));
                qs.push(q(0, "dev", sx::json(&canon_request(pos, id))));
                qs.push(canon_q(0, 3, 0));
                out.push(case(qs, vec!["long-refused-id".into(), format!("idlen:{}", id.len()), "class:dev".into()]));
            }
            // the same while the sender is a live client itself (its own id stays good)
            for (i, id) in long_ids.iter().enumerate().filter(|(i, _)| i % 4 == 0) {
                let pos = 1 + (i % (nsteps - 1));
                let mut qs = prefix(0, 0, pos);
                qs.push(q(0, "dev", sx::json(&canon_request(pos, id))));
                qs.push(canon_q(0, pos, 0));
                qs.extend(prefix(1, 1, 2));
                out.push(case(qs, vec!["long-refused-id".into(), format!("idlen:{}", id.len()), "class:dev".into()]));
            }
        }

        // E2. ids are strings: a respelling of a LIVE id (leading zero(s) or plus, upper-case hex digits,
        //     blanks, trailing junk) is an id the service never handed out, at every step the live id is at
        for pos in 1..nsteps {
            for how in RESPELLINGS {
                let mut qs = prefix(0, 0, pos);
                qs.push(q(0, "dev", sx::json(&canon_request(pos, &format!("@cid0+{}", how)))));
                qs.push(canon_q(0, pos, 0)); // the live client has lost nothing
                out.push(case(
                    qs,
                    vec!["respelt-live-id".into(), format!("step:{}", STEPS[pos]), format!("mut:respelt-{}", how), "class:dev".into()],
                ));
            }
        }
        // ... also while a second client is live, and on another connection
        for how in RESPELLINGS {
            let pos = 1 + r.below(nsteps - 1);
            let mut qs = prefix(0, 0, pos);
            qs.extend(prefix(1, 1, 3));
            qs.push(q(1, "dev", sx::json(&canon_request(pos, &format!("@cid0+{}", how)))));
            qs.push(q(1, "dev", sx::json(&canon_request(3, &format!("@cid1+{}", how)))));
            qs.push(canon_q(0, pos, 0));
            qs.push(canon_q(1, 3, 1));
            out.push(case(qs, vec!["respelt-live-id".into(), format!("mut:respelt-{}", how), "class:dev".into()]));
        }

        {
            let mut qs = prefix(0, 0, nsteps);
            qs.push(canon_q(0, 12, 0)); // End again: End -> End
            qs.push(q(0, "dev", sx::json(&canon_request(1, "@cid0"))));
            out.push(case(qs, vec!["after-end".into()]));
        }

        // F. interleavings of 1..16 canonical clients, each on its own connection
        let n_inter = if ctx.thorough { 400 } else { 60 };
        for i in 0..n_inter {
            let n = 1 + (i % 16);
            let mut pos = vec![0usize; n];
            let mut started: Vec<Option<usize>> = vec![None; n]; // start order = @cid index
            let mut next_id = 0;
            let mut qs = vec![];
            loop {
                let live: Vec<usize> = (0..n).filter(|c| pos[*c] < nsteps).collect();
                if live.is_empty() {
                    break;
                }
                let c = *r.pick(&live);
                if pos[c] == 0 {
                    started[c] = Some(next_id);
                    next_id += 1;
                }
                let conn = if r.chance(1, 10) { r.below(n) } else { c };
                qs.push(canon_q(conn, pos[c], started[c].unwrap()));
                pos[c] += 1;
            }
            out.push(case(qs, vec!["interleaving".into(), format!("clients:{}", n), "class:canon".into()]));
        }

        // I. random sessions: several clients, canonical steps mixed with deviations of every kind, so
        //    that deviations meet every reachable per-client state (also the states after a failed step)
        let n_sessions = if ctx.thorough { 2500 } else { 150 };
        for _ in 0..n_sessions {
            let n = r.range(1, 4);
            let mut pos = vec![0usize; n]; // the generator's guess of what the server expects
            let mut cid: Vec<Option<usize>> = vec![None; n];
            let mut next_id = 0;
            let len = r.range(8, 40);
            let mut qs = vec![];
            for _ in 0..len {
                let c = r.below(n);
                if pos[c] == 0 || cid[c].is_none() {
                    qs.push(q(c, "other", sx::json(&canon_request(0, "@cid0"))));
                    cid[c] = Some(next_id);
                    next_id += 1;
                    pos[c] = 1;
                    continue;
                }
                let id = format!("@cid{}", cid[c].unwrap());
                let p = pos[c].min(nsteps - 1);
                match r.below(10) {
                    0..=4 => {
                        qs.push(q(c, "other", sx::json(&canon_request(p, &id))));
                        if pos[c] < nsteps - 1 {
                            pos[c] += 1;
                        }
                    }
                    5 => {
                        // some other step
                        let k = r.range(1, nsteps - 1);
                        qs.push(q(c, "other", sx::json(&canon_request(k, &id))));
                        if k == p && pos[c] < nsteps - 1 {
                            pos[c] += 1;
                        }
                    }
                    6 | 7 => {
                        // the expected step with one leaf of its parameters mutated
                        let params = sx::json(&canon_params(p, &id).unwrap());
                        let mut ls = vec![];
                        leaves(&params, &mut vec![], &mut ls);
                        let path = r.pick(&ls).clone();
                        let leaf = get(&params, &path);
                        let (m, keeps_type) = match r.below(3) {
                            0 => (edit(&params, &path, Some(changed(&leaf))), true),
                            1 => (edit(&params, &path, None), false),
                            _ => {
                                let rs = retypes(&leaf);
                                (edit(&params, &path, Some(r.pick(&rs).1.clone())), false)
                            }
                        };
                        qs.push(q(c, "other", req_with_params_id(p, &id, Some(m))));
                        if keeps_type && pos[c] < nsteps - 1 {
                            pos[c] += 1; // check_client_id consumed the step although the check failed
                        }
                    }
                    8 => {
                        let tri = [None, Some(false), Some(true)];
                        let f = [*r.pick(&tri), *r.pick(&tri), *r.pick(&tri)];
                        qs.push(q(c, "other", req_with_flags_id(p, &id, f)));
                        if pos[c] < nsteps - 1 {
                            pos[c] += 1;
                        }
                    }
                    _ => {
                        // somebody else's id, or none at all
                        let other = if r.chance(1, 2) { "zz-unknown".to_string() } else { format!("@cid{}", r.below(next_id.max(1))) };
                        qs.push(q(c, "other", sx::json(&canon_request(p, &other))));
                    }
                }
            }
            out.push(case(qs, vec!["random-session".into(), format!("clients:{}", n)]));
        }

        // G. bad frames and other interfaces
        for (kind, tree) in [
            ("method-missing", sx::tagged("o", vec![])),
            ("method-null", sx::tagged("o", vec![sx::list(vec![sx::xs("method"), sx::atom("n")])])),
            (
                "more-not-bool",
                sx::tagged(
                    "o",
                    vec![
                        sx::list(vec![sx::xs("method"), jstr("org.varlink.certification.Start")]),
                        sx::list(vec![sx::xs("more"), jint(1)]),
                    ],
                ),
            ),
            ("unknown-method", sx::tagged("o", vec![sx::list(vec![sx::xs("method"), jstr("org.varlink.certification.Test12")])])),
            ("unknown-interface", sx::tagged("o", vec![sx::list(vec![sx::xs("method"), jstr("org.varlink.certificatio.Start")])])),
            ("no-dot", sx::tagged("o", vec![sx::list(vec![sx::xs("method"), jstr("Start")])])),
            ("request-as-array", sx::tagged("a", vec![sx::atom("n"), sx::atom("n"), sx::atom("n"), jstr("org.varlink.certification.Start"), sx::atom("n")])),
        ] {
            // (since ce5196b the service takes JSON objects only: the array form of a request is refused)
            let class = "dev";
            let qs = vec![q(0, class, tree), canon_q(0, 0, 0), canon_q(0, 1, 0)];
            out.push(case(qs, vec!["frames".into(), format!("mut:{}", kind)]));
        }

        // J. the same step of the same client id on several connections at the same moment: exactly one
        //    of them may pass (a step is atomic); many rounds, because the window is small
        let races: &[(usize, usize)] =
            if ctx.thorough { &[(2, 400), (3, 300), (4, 600), (6, 200), (8, 150)] } else { &[(2, 60), (4, 120), (8, 40)] };
        for (n, rounds) in races {
            out.push(Case {
                input: sx::tagged("race", vec![sx::nat(*n), sx::nat(*rounds)]),
                tags: vec!["same-step-race".into(), format!("connections:{}", n)],
            });
        }

        // L. real time (thorough only): a client that pauses for 46 s between two steps is still known
        //    (ids live for 12 h; the rule itself is extracted into the model on every run, see C19_id_alive_for_12h)
        if ctx.thorough {
            let mut qs = prefix(0, 0, 2);
            qs.push(sx::tagged("sleep", vec![sx::nat(46)]));
            for p in 2..nsteps {
                qs.push(canon_q(0, p, 0));
            }
            out.push(case(qs, vec!["real-time-pause".into(), "class:canon".into()]));
        }

        // M. churn: many clients running complete sequences back to back, so that the Start of one overlaps
        //    the End of another all the time; every request must be answered within its deadline
        let churn: &[(usize, usize)] = if ctx.thorough { &[(8, 1000), (12, 1000), (16, 1000)] } else { &[(16, 150), (8, 150)] };
        for (n, rounds) in churn {
            out.push(Case {
                input: sx::tagged("churn", vec![sx::nat(*n), sx::nat(*rounds)]),
                tags: vec!["churn".into(), format!("clients:{}", n)],
            });
        }

        // K. many clients in flight at once: the table has no capacity, nobody is dropped before End
        let many: &[usize] = if ctx.thorough { &[1023, 1024, 1025, 1100, 3000] } else { &[1025, 3000] };
        for n in many {
            out.push(Case {
                input: sx::tagged("many", vec![sx::nat(*n), sx::nat(8)]),
                tags: vec!["many-clients-in-flight".into(), format!("clients:{}", n)],
            });
        }

        // H. really concurrent clients
        let ns: &[usize] = if ctx.thorough { &[1, 2, 3, 4, 6, 8, 12, 16, 16, 16] } else { &[1, 2, 4, 8, 16] };
        for n in ns {
            out.push(Case { input: sx::tagged("conc", vec![sx::nat(*n)]), tags: vec!["concurrent".into(), format!("clients:{}", n)] });
        }
        for n in if ctx.thorough { vec![1, 4, 16] } else { vec![1, 4] } {
            out.push(Case { input: sx::tagged("realclient", vec![sx::nat(n)]), tags: vec!["real-client".into(), format!("clients:{}", n)] });
        }
        out
    }

    fn run(&self, ctx: &Ctx, input: &Sx) -> Sx {
        ensure_service(ctx);
        let l = input.as_list().expect("case");
        match l[0].as_atom().unwrap_or("") {
            "cert" => run_cert(&l[1..]),
            "conc" => {
                let n = l[1].as_usize().expect("n");
                let path = server_path();
                let barrier = std::sync::Arc::new(std::sync::Barrier::new(n));
                let hs: Vec<_> = (0..n)
                    .map(|c| {
                        let path = path.clone();
                        let barrier = barrier.clone();
                        std::thread::spawn(move || -> Sx {
                            let mut conn = match connect(&path) {
                                Some(c) => c,
                                None => return sx::tagged("client", vec![sx::atom("connect-failed")]),
                            };
                            barrier.wait();
                            let mut ids: Vec<String> = Vec::new();
                            let mut rs = vec![];
                            for pos in 0..STEPS.len() {
                                let cid = ids.first().cloned().unwrap_or_else(|| "@cid0".into());
                                let text = serde_json::to_string(&canon_request(pos, &cid)).unwrap();
                                let (replies, end) = exchange(&mut conn, text.as_bytes(), pos);
                                if pos == 0 {
                                    if let Some(id) = new_id_of(&replies) {
                                        ids.push(id);
                                    }
                                }
                                let mut r = vec![match end {
                                    End::Open => sx::atom("f"),
                                    End::Closed => sx::atom("t"),
                                    End::Timeout => sx::atom("timeout"),
                                }];
                                // this thread's id is printed as @cid<thread index>
                                r.extend(replies.iter().map(|v| {
                                    let mut padded: Vec<String> = vec![String::from("\u{0}unused"); c];
                                    padded.extend(ids.iter().cloned());
                                    reply_sx(v, &padded, &[])
                                }));
                                rs.push(sx::tagged("r", r));
                                if !matches!(end, End::Open) {
                                    break;
                                }
                            }
                            sx::tagged("client", rs)
                        })
                    })
                    .collect();
                let rs: Vec<Sx> = hs.into_iter().map(|h| h.join().unwrap_or(sx::atom("thread-panicked"))).collect();
                sx::tagged("obs", rs)
            }
            "race" => {
                let n = l[1].as_usize().expect("n");
                let rounds = l[2].as_usize().expect("rounds");
                let path = server_path();
                let mut control = connect(&path).expect("control connection");
                let conns: Vec<Mutex<Conn>> = (0..n).map(|_| Mutex::new(connect(&path).expect("racer connection"))).collect();
                let mut round_obs: Vec<Sx> = Vec::new();
                for _ in 0..rounds {
                    let (replies, _) = exchange(&mut control, serde_json::to_string(&canon_request(0, "")).unwrap().as_bytes(), 0);
                    let id = match new_id_of(&replies) {
                        Some(id) => id,
                        None => {
                            round_obs.push(sx::tagged("round", vec![sx::atom("start-failed")]));
                            continue;
                        }
                    };
                    let ids = vec![id.clone()];
                    let barrier = std::sync::Barrier::new(n);
                    // per racer: its outcome at each raced position
                    let per_racer: Vec<Vec<(usize, Sx)>> = std::thread::scope(|sc| {
                        let hs: Vec<_> = (0..n)
                            .map(|c| {
                                let barrier = &barrier;
                                let conns = &conns;
                                let ids = &ids;
                                let id = &id;
                                sc.spawn(move || {
                                    let mut conn = conns[c].lock().unwrap();
                                    let mut outs = vec![];
                                    for pos in (1..=10).chain(12..=12) {
                                        if pos == 12 {
                                            // Test11 (oneway, never answered) once, by racer 0
                                            barrier.wait();
                                            if c == 0 {
                                                let t = serde_json::to_string(&canon_request(11, id)).unwrap();
                                                let _ = exchange(&mut conn, t.as_bytes(), 1000);
                                            }
                                        }
                                        let text = serde_json::to_string(&canon_request(pos, id)).unwrap();
                                        barrier.wait();
                                        let (replies, end) = exchange(&mut conn, text.as_bytes(), pos);
                                        let mut r = vec![match end {
                                            End::Open => sx::atom("f"),
                                            End::Closed => sx::atom("t"),
                                            End::Timeout => sx::atom("timeout"),
                                        }];
                                        r.extend(replies.iter().map(|v| reply_sx(v, ids, &[])));
                                        outs.push((pos, sx::tagged("r", r)));
                                    }
                                    outs
                                })
                            })
                            .collect();
                        hs.into_iter().map(|h| h.join().unwrap_or_default()).collect()
                    });
                    let mut steps = vec![];
                    for pos in (1..=10).chain(12..=12) {
                        let mut outs: Vec<Sx> = per_racer
                            .iter()
                            .map(|v| v.iter().find(|(p, _)| *p == pos).map(|(_, o)| o.clone()).unwrap_or(sx::atom("missing")))
                            .collect();
                        outs.sort_by(|a, b| a.render().cmp(&b.render()));
                        let mut st = vec![sx::atom("step"), sx::nat(pos)];
                        st.extend(outs);
                        steps.push(sx::list(st));
                    }
                    round_obs.push(sx::tagged("round", steps));
                }
                // run-length encode equal consecutive rounds
                let mut out: Vec<Sx> = vec![];
                let mut i = 0;
                while i < round_obs.len() {
                    let mut j = i;
                    while j < round_obs.len() && round_obs[j] == round_obs[i] {
                        j += 1;
                    }
                    out.push(sx::tagged("x", vec![sx::nat(j - i), round_obs[i].clone()]));
                    i = j;
                }
                sx::tagged("obs", out)
            }
            "many" => {
                let n = l[1].as_usize().expect("n");
                let nconn = l[2].as_usize().expect("conns").max(1);
                let path = server_path();
                let mut conns: Vec<Conn> = (0..nconn).map(|_| connect(&path).expect("connection")).collect();
                let mut ids: Vec<Option<String>> = vec![None; n];
                let mut steps = vec![];
                for pos in 0..STEPS.len() {
                    // distinct outcomes of this step: (rendered, count, first index, sx)
                    let mut groups: Vec<(String, usize, usize, Sx)> = vec![];
                    for c in 0..n {
                        let cid = ids[c].clone().unwrap_or_else(|| "@unstarted".into());
                        let text = serde_json::to_string(&canon_request(pos, &cid)).unwrap();
                        let (replies, end) = exchange(&mut conns[c % nconn], text.as_bytes(), pos);
                        if pos == 0 {
                            ids[c] = new_id_of(&replies);
                        }
                        let own: Vec<String> = ids[c].iter().cloned().collect();
                        let mut r = vec![match end {
                            End::Open => sx::atom("f"),
                            End::Closed => sx::atom("t"),
                            End::Timeout => sx::atom("timeout"),
                        }];
                        r.extend(replies.iter().map(|v| reply_sx(v, &[], &own.iter().map(|i| (i.clone(), "@cid".to_string())).collect::<Vec<_>>())));
                        let o = sx::tagged("r", r);
                        let key = o.render();
                        match groups.iter_mut().find(|g| g.0 == key) {
                            Some(g) => g.1 += 1,
                            None => groups.push((key, 1, c, o)),
                        }
                        if !matches!(end, End::Open) {
                            if let Some(nc) = connect(&path) {
                                conns[c % nconn] = nc;
                            }
                        }
                    }
                    let mut st = vec![sx::atom("step"), sx::nat(pos)];
                    st.extend(groups.into_iter().map(|(_, cnt, first, o)| sx::list(vec![sx::nat(cnt), sx::nat(first), o])));
                    steps.push(sx::list(st));
                }
                sx::tagged("obs", steps)
            }
            "churn" => {
                let n = l[1].as_usize().expect("n");
                let rounds = l[2].as_usize().expect("rounds");
                let path = server_path();
                let barrier = std::sync::Arc::new(std::sync::Barrier::new(n));
                let hs: Vec<_> = (0..n)
                    .map(|t| {
                        let path = path.clone();
                        let barrier = barrier.clone();
                        std::thread::spawn(move || -> (usize, Option<(usize, usize, usize, &'static str)>) {
                            let open = |path: &str| -> Option<Conn> {
                                let c = connect(path)?;
                                c.s.set_read_timeout(Some(Duration::from_secs(10))).ok()?;
                                Some(c)
                            };
                            let mut conn = match open(&path) {
                                Some(c) => c,
                                None => return (0, Some((t, 0, 0, "closed"))),
                            };
                            barrier.wait();
                            let mut done = 0;
                            for seq in 0..rounds {
                                let mut cid = String::new();
                                for pos in 0..STEPS.len() {
                                    let text = serde_json::to_string(&canon_request(pos, &cid)).unwrap();
                                    let (replies, end) = exchange(&mut conn, text.as_bytes(), pos);
                                    let kind = match end {
                                        End::Timeout => Some("timeout"),
                                        End::Closed => Some("closed"),
                                        End::Open => {
                                            if replies.iter().any(|r| r.get("error").is_some()) {
                                                Some("error")
                                            } else if (pos == 11) != replies.is_empty() {
                                                Some("missing-reply")
                                            } else {
                                                None
                                            }
                                        }
                                    };
                                    if let Some(kind) = kind {
                                        return (done, Some((t, seq, pos, kind)));
                                    }
                                    if pos == 0 {
                                        cid = new_id_of(&replies).unwrap_or_default();
                                    }
                                }
                                done += 1;
                            }
                            (done, None)
                        })
                    })
                    .collect();
                let rs: Vec<_> = hs.into_iter().map(|h| h.join().unwrap_or((0, Some((0, 0, 0, "closed"))))).collect();
                let total: usize = rs.iter().map(|r| r.0).sum();
                let first = rs.iter().filter_map(|r| r.1).min_by_key(|f| (f.1, f.2, f.0));
                let ff = match first {
                    None => sx::atom("-"),
                    Some((t, seq, pos, kind)) => sx::list(vec![sx::nat(t), sx::nat(seq), sx::nat(pos), sx::atom(kind)]),
                };
                sx::tagged("obs", vec![sx::tagged("seqs", vec![sx::nat(total)]), sx::tagged("first-failure", vec![ff])])
            }
            "realclient" => {
                let n = l[1].as_usize().expect("n");
                let path = server_path();
                let mut children: Vec<Child> = (0..n)
                    .map(|_| {
                        Command::new(server_bin())
                            .arg("--client")
                            .arg(format!("--varlink=unix:{}", path))
                            .stdin(Stdio::null())
                            .stdout(Stdio::null())
                            .stderr(Stdio::null())
                            .spawn()
                            .expect("spawn client")
                    })
                    .collect();
                let rs: Vec<Sx> = children
                    .iter_mut()
                    .map(|c| {
                        let code = c.wait().ok().and_then(|s| s.code()).unwrap_or(-1);
                        sx::tagged("exit", vec![sx::int(code as i64)])
                    })
                    .collect();
                sx::tagged("obs", rs)
            }
            _ => sx::atom("bad-case"),
        }
    }
}
