//! Suite `fmt`: the formatter of `varlink_parser` (C10).
//!
//! Case input:
//!   (fmt <width> x<text>)      format the definition parsed from <text> at that width
//!   (fmt1 x<text>)             the width-independent renderings
//!   (cli <width|-> <color t|f> x<text> [file|stdin|fifo])
//!                                       `varlink --color=on|off format [-c <width>] FILE`; FILE is a regular file
//!                                       holding <text>, or /dev/stdin behind a pipe, or a named pipe fed with <text>
//!   (conc <iters> (<width> x<text>)+)   one thread per (width, text): each renders its own definition
//!                                       <iters> times (plain, colored, to_string() in rotation), all
//!                                       threads at once, colour forced on
//!
//! Observation (REAL code; colour forced on for the colored twins):
//!   (fmt <dump of the parsed definition> x<get_multiline(0,w)> x<get_multiline_colored(0,w)>
//!        <dump of IDL::try_from(get_multiline(0,w)) | (parse-error ..) | (idl-error ..)>
//!        <second formatting of the re-parsed definition == first: t|f>)
//!   (fmt1 x<get_oneline()> x<get_oneline_colored()> x<to_string()>)
//!   (cli <exit code> x<stdout> x<the library's rendering of the same text, in-process | ->)
//!   (conc (x<sequential plain> x<sequential colored> <#plain renderings != sequential>
//!          <#colored != sequential> <#to_string != sequential> x<first deviating rendering | ->)+)
//!   (unparsable)               the case text is not a definition
use super::idl::{decorate, deep_struct_families, dump_idl, gen_idl, gen_valid_text, observe, render_idl, repo_idl_files};
use crate::rng::Rng;
use crate::sx::{self, Sx};
use crate::{Case, Ctx, Suite};
use std::convert::TryFrom;
use varlink_parser::{Format, FormatColored, IDL};

pub struct FmtSuite;

fn case_fmt(w: usize, text: &str, tags: &[&str]) -> Case {
    Case {
        input: sx::tagged("fmt", vec![sx::nat(w), sx::xs(text)]),
        tags: tags.iter().map(|s| s.to_string()).collect(),
    }
}

fn case_fmt1(text: &str, tags: &[&str]) -> Case {
    Case { input: sx::tagged("fmt1", vec![sx::xs(text)]), tags: tags.iter().map(|s| s.to_string()).collect() }
}

fn case_cli(w: Option<usize>, color: bool, text: &str, tag: &str) -> Case {
    case_cli_via(w, color, text, tag, "file")
}

fn case_cli_via(w: Option<usize>, color: bool, text: &str, tag: &str, via: &str) -> Case {
    let mut v = vec![w.map(sx::nat).unwrap_or_else(|| sx::atom("-")), sx::boolean(color), sx::xs(text)];
    if via != "file" {
        v.push(sx::atom(via));
    }
    Case {
        input: sx::tagged("cli", v),
        tags: vec!["cli".into(), format!("cli:color={}", color), tag.to_string(), format!("cli:via={}", via)],
    }
}

/// a definition larger than the last of `boundaries` (multiples of the 8 KiB read size) with the
/// character `ch` in a documentation comment starting `k` bytes before each boundary (after it for k < 0)
pub fn big_text(boundaries: &[usize], ch: char, k: isize) -> String {
    let mut s = String::from("# a large interface file\ninterface org.example.big\n");
    let mut n = 0usize;
    for (idx, &b) in boundaries.iter().enumerate() {
        let at = (b as isize - k) as usize;
        while s.len() + 260 < at {
            n += 1;
            s.push_str(&format!("\n# filler {} \u{e4}\u{20ac}\ntype F{} (a: int, b: ?[]string, c: (x, y))\n", n, n));
        }
        s.push_str("\n# ");
        while s.len() < at {
            s.push('x');
        }
        assert_eq!(s.len(), at);
        s.push(ch);
        s.push_str(" <- here\n");
        s.push_str(&format!("method M{}(a: int) -> (b: string)\n", idx));
    }
    s.push_str("\nerror Last (reason: string)\n");
    s
}

fn width_tag(w: usize) -> &'static str {
    match w {
        0 => "width:0",
        1..=20 => "width:1-20",
        21..=60 => "width:21-60",
        61..=100 => "width:61-100",
        101..=200 => "width:101-200",
        _ => "width:huge",
    }
}

const HUGE: &[usize] = &[201, 1000, 1_000_000, (isize::MAX as usize) + 1, usize::MAX - 7, usize::MAX];

impl Suite for FmtSuite {
    fn generate(&self, ctx: &Ctx) -> Vec<Case> {
        let mut rng = Rng::new(ctx.seed);
        let mut cases = Vec::new();
        if let Ok(txt) = std::fs::read_to_string(concat!(env!("CARGO_MANIFEST_DIR"), "/corpus/fmt.txt")) {
            for l in txt.lines() {
                if let Some(s) = sx::parse(l) {
                    cases.push(Case { input: s, tags: vec!["corpus".into()] });
                }
            }
        }
        // (1) a few definitions at EVERY width 0..=200 and the huge ones
        let n_full = if ctx.thorough { 60 } else { 14 };
        let mut full: Vec<String> = Vec::new();
        for (_, s) in repo_idl_files() {
            if s.len() < 600 || ctx.thorough {
                full.push(s);
            }
        }
        for i in 0..n_full {
            full.push(gen_valid_text(&mut rng, 5, 3, i % 3).1.concat());
        }
        for t in &full {
            cases.push(case_fmt1(t, &["fmt1"]));
            for w in (0..=200).chain(HUGE.iter().cloned()) {
                cases.push(case_fmt(w, t, &["all-widths", width_tag(w)]));
            }
        }
        // (2) many definitions at sampled widths (dense near small widths where most thresholds lie)
        let n_sampled = if ctx.thorough { 2500 } else { 450 };
        for i in 0..n_sampled {
            let depth = if i % 7 == 0 { 4 } else { 2 };
            let t = gen_valid_text(&mut rng, 6, depth, i % 3).1.concat();
            if i % 5 == 0 {
                cases.push(case_fmt1(&t, &["fmt1"]));
            }
            let k = if ctx.thorough { 14 } else { 8 };
            for _ in 0..k {
                let w = match rng.below(10) {
                    0 => 0,
                    1..=3 => rng.range(1, 40),
                    4..=6 => rng.range(41, 100),
                    7..=8 => rng.range(101, 200),
                    _ => *rng.pick(HUGE),
                };
                cases.push(case_fmt(w, &t, &["sampled-widths", width_tag(w)]));
            }
        }
        // (3) the remaining repository definitions at sampled widths
        for (_, s) in repo_idl_files() {
            if s.len() >= 600 && !ctx.thorough {
                cases.push(case_fmt1(&s, &["fmt1"]));
                for w in [0usize, 1, 10, 20, 30, 40, 50, 60, 70, 79, 80, 81, 90, 100, 120, 150, 200, usize::MAX] {
                    cases.push(case_fmt(w, &s, &["repo-file", width_tag(w)]));
                }
            }
        }
        // (4) definitions whose members sit exactly at a threshold: one-field structs with a name of every length
        for len in 1..(if ctx.thorough { 60 } else { 24 }) {
            let name: String = std::iter::repeat('a').take(len).collect();
            let t = format!(
                "interface a.b\ntype T ({n}: int)\nmethod M({n}: int) -> ({n}: int, b: (c: ?[]{N}))\nerror E ({n}: (x, y))\nmethod N() -> ()\nmethod O({n}: string) -> ()",
                n = name,
                N = "Tt"
            );
            for w in (len + 5)..(len + 40) {
                cases.push(case_fmt(w, &t, &["threshold", width_tag(w)]));
            }
        }
        // (5) documentation blocks: tabs, carriage returns, escape sequences, blank lines, all eol kinds
        let docs = [
            "# one\n", "\t# tab before\n", "# a\n\n# b\n", "# cr\r# cr2\r\n", "# ls\u{2028}# ps\u{2029}", "#\n", "\t\n", " \t \n",
            "# \u{1b}[0m reset inside\n", "# \u{1b}[0m\u{1b}[0m twice\n", "# half \u{1b}[3\n", "# half \u{1b}[\n", "# half \u{1b}\n",
            "# \u{1b}[31mred\u{1b}[0m\n", "# trailing space   \n", "#\ttab inside\t\n", "# \u{00a0}nbsp \u{3000}\n", "# 0m\n#[0m\n",
            "# \u{1b}[0\u{1b}[0m\n", "# \u{1b}\u{1b}[0m[0m\n",
        ];
        for (k, d) in docs.iter().enumerate() {
            let t = format!("{d}interface a.b\n{d}type T (a: int)\n{d}method M() -> ()\n{d}error E ()\n", d = d);
            cases.push(case_fmt1(&t, &["fmt1", "docs"]));
            for w in [0usize, 10, 80, 200] {
                cases.push(case_fmt(w, &t, &["docs", width_tag(w)]));
            }
            let _ = k;
        }
        // (6) members of the three kinds interleaved (the formatter regroups them by kind)
        for _ in 0..(if ctx.thorough { 300 } else { 60 }) {
            let g = gen_idl(&mut rng, 8, 1);
            let t = decorate(&mut rng, &render_idl(&g), 1).concat();
            for w in [0usize, 30, 80] {
                cases.push(case_fmt(w, &t, &["interleaved", width_tag(w)]));
            }
        }
        // (6b) deep nesting: the formatter must cope with what the parser accepts (the property's
        //      depth bound is 200); every level wraps at narrow widths, none at the huge ones
        let mut deep: Vec<(usize, String, &'static str)> = Vec::new();
        deep_struct_families(&[8, 16, 31, 32, 33, 40, 64, 100, 200], &mut deep);
        let valid: Vec<&(usize, String, &'static str)> =
            deep.iter().filter(|(_, _, tag)| *tag == "deep-struct:valid" || *tag == "deep-struct:valid-enum-leaf").collect();
        for (k, (d, t, _)) in valid.iter().enumerate() {
            if !ctx.thorough && (k % 3 != 0 || (*d >= 64 && k % 12 != 0)) {
                continue;
            }
            let dtag = format!("depth:{}", d);
            for w in [0usize, 20, 80, usize::MAX] {
                cases.push(case_fmt(w, t, &["deep-nesting", &dtag, width_tag(w)]));
            }
        }
        // (7) the command-line tool: stdout must be the library's rendering of the file's text
        if std::path::Path::new(&cli_path()).exists() {
            for i in 0..(if ctx.thorough { 60 } else { 12 }) {
                let t = gen_valid_text(&mut rng, 4, 2, i % 3).1.concat();
                for w in [Some(0usize), Some(40), Some(80), None] {
                    cases.push(case_cli(w, i % 2 == 0, &t, "cli:small"));
                }
            }
            //   FILE need not be a regular file: /dev/stdin behind a pipe, a named pipe
            for i in 0..(if ctx.thorough { 30 } else { 8 }) {
                let t = gen_valid_text(&mut rng, 4, 2, i % 3).1.concat();
                cases.push(case_cli_via(Some(80), false, &t, "cli:not-a-regular-file", "stdin"));
                cases.push(case_cli_via(None, i % 2 == 0, &t, "cli:not-a-regular-file", "fifo"));
            }
            cases.push(case_cli_via(Some(40), false, &big_text(&[8192, 16384], '\u{20ac}', 1), "cli:not-a-regular-file", "stdin"));
            cases.push(case_cli_via(Some(40), false, &big_text(&[8192, 16384], '\u{20ac}', 1), "cli:not-a-regular-file", "fifo"));
            //   how the file ends / begins: last line a comment with and without its line end (the
            //   library decides what is a definition, the tool must agree), leading BOM, trailing blanks
            for (k, end) in ["", "\n", "\n# last\n", "\n# last", "\n# last\r\n", "\n# last\r", "\n# last\u{2028}", "# c\n", "# c", " ", "\t", "\n\n \n", "\u{a0}", "\u{feff}", "\u{3000}\n"].iter().enumerate() {
                for start in ["", "\u{feff}", "\u{feff}# doc\n", " \n", "\t"] {
                    let t = format!("{}interface a.b\nmethod M{}() -> (){}", start, k, end);
                    cases.push(case_cli(Some(80), false, &t, "cli:file-ends"));
                }
            }
            //   widths no allocation can satisfy, through the child process (an abort is an exit status)
            for w in [usize::MAX, (isize::MAX as usize) + 1, isize::MAX as usize, 1usize << 62, 1usize << 40, 1usize << 32] {
                let t = "# d\ninterface a.b\ntype T (a: int, b: (c: ?[]string))\nmethod M(a: int) -> (b: (x, y))\nerror E ()";
                cases.push(case_cli(Some(w), false, t, "cli:huge-width"));
                cases.push(case_cli(Some(w), true, t, "cli:huge-width"));
            }
            for (k, (_, t, _)) in valid.iter().enumerate() {
                if k % 29 == 0 {
                    cases.push(case_cli(Some(80), false, t, "cli:deep"));
                    cases.push(case_cli(None, false, t, "cli:deep"));
                }
            }
            //   large files (8-40 KiB) with a multi-byte character of a doc comment at / across every
            //   multiple of 8192 bytes (a reader that decodes the file piecewise damages it there)
            let sets: Vec<Vec<usize>> = if ctx.thorough {
                vec![vec![8192], vec![8192, 16384], vec![8192, 16384, 24576], vec![8192, 16384, 24576, 32768, 40960], vec![4096, 8192, 12288]]
            } else {
                vec![vec![8192], vec![8192, 16384, 24576, 32768, 40960]]
            };
            for (si, set) in sets.iter().enumerate() {
                for ch in ['\u{e4}', '\u{20ac}', '\u{1F600}'] {
                    for k in [-1isize, 0, 1, 2, 3] {
                        if k >= ch.len_utf8() as isize + 1 {
                            continue;
                        }
                        let t = big_text(set, ch, k);
                        let w = match (si as isize + k + ch.len_utf8() as isize).rem_euclid(3) {
                            0 => None,
                            1 => Some(80),
                            _ => Some(30),
                        };
                        cases.push(case_cli(w, k == 2, &t, "cli:large"));
                    }
                }
            }
        }
        // (8) concurrent formatting: the rendering is a function of (definition, width); with colour
        //     forced on for the process, N threads rendering at once must each get the sequential value
        for i in 0..(if ctx.thorough { 40 } else { 10 }) {
            let nthreads = 2 + (i % 7);
            let mut jobs = Vec::new();
            for t in 0..nthreads {
                let text = gen_valid_text(&mut rng, 4, 2, (i + t) % 3).1.concat();
                let w = *rng.pick(&[0usize, 20, 40, 80, 200]);
                jobs.push(sx::list(vec![sx::nat(w), sx::xs(&text)]));
            }
            let mut v = vec![sx::nat(if ctx.thorough { 600 } else { 300 })];
            v.extend(jobs);
            cases.push(Case { input: sx::tagged("conc", v), tags: vec!["concurrent".into(), format!("threads:{}", nthreads)] });
        }
        cases
    }

    fn setup(&self, _ctx: &Ctx) {
        // colored decides once, on first use, from the environment: force colour on
        std::env::remove_var("NO_COLOR");
        std::env::set_var("CLICOLOR_FORCE", "1");
    }

    fn run(&self, ctx: &Ctx, input: &Sx) -> Sx {
        let l = match input.as_list() {
            Some(l) if !l.is_empty() => l,
            _ => return sx::atom("bad-case"),
        };
        match (l[0].as_atom(), l.len()) {
            (Some("fmt"), 3) => {
                let (w, text) = match (l[1].as_atom().and_then(|a| a.parse::<usize>().ok()), l[2].as_str()) {
                    (Some(w), Some(t)) => (w, t),
                    _ => return sx::atom("bad-case"),
                };
                let idl = match IDL::try_from(text.as_str()) {
                    Ok(i) => i,
                    Err(_) => return sx::list(vec![sx::atom("unparsable")]),
                };
                let plain = idl.get_multiline(0, w);
                let colored = idl.get_multiline_colored(0, w);
                let (re, second) = match IDL::try_from(plain.as_str()) {
                    Ok(i2) => (dump_idl(&i2, &plain), i2.get_multiline(0, w) == plain),
                    Err(_) => (observe(&plain), false),
                };
                sx::tagged("fmt", vec![dump_idl(&idl, &text), sx::xs(&plain), sx::xs(&colored), re, sx::boolean(second)])
            }
            (Some("fmt1"), 2) => {
                let text = match l[1].as_str() {
                    Some(t) => t,
                    None => return sx::atom("bad-case"),
                };
                let idl = match IDL::try_from(text.as_str()) {
                    Ok(i) => i,
                    Err(_) => return sx::list(vec![sx::atom("unparsable")]),
                };
                sx::tagged(
                    "fmt1",
                    vec![sx::xs(&idl.get_oneline()), sx::xs(&idl.get_oneline_colored()), sx::xs(&idl.to_string())],
                )
            }
            (Some("cli"), 4) | (Some("cli"), 5) => {
                let (w, color, text) = match (l[1].as_atom(), l[2].as_opt_bool(), l[3].as_str()) {
                    (Some(w), Some(Some(c)), Some(t)) => (w.parse::<usize>().ok(), c, t),
                    _ => return sx::atom("bad-case"),
                };
                let via = l.get(4).and_then(|a| a.as_atom()).unwrap_or("file").to_string();
                let path = format!("{}/fmt-cli-case.varlink", ctx.out_dir);
                let _ = std::fs::remove_file(&path);
                let mut cmd = std::process::Command::new(cli_path());
                cmd.arg(if color { "--color=on" } else { "--color=off" }).arg("format");
                if let Some(w) = w {
                    cmd.arg("-c").arg(format!("{}", w));
                }
                cmd.env("CLICOLOR_FORCE", "1").env_remove("NO_COLOR").stdout(std::process::Stdio::piped()).stderr(std::process::Stdio::piped());
                let out = match via.as_str() {
                    "stdin" => {
                        let mut child = cmd.arg("/dev/stdin").stdin(std::process::Stdio::piped()).spawn().expect("run varlink");
                        let mut si = child.stdin.take().unwrap();
                        let data = text.clone().into_bytes();
                        let h = std::thread::spawn(move || {
                            use std::io::Write;
                            let _ = si.write_all(&data);
                        });
                        let o = child.wait_with_output().expect("wait varlink");
                        let _ = h.join();
                        o
                    }
                    "fifo" => {
                        let c = std::ffi::CString::new(path.clone()).unwrap();
                        if unsafe { libc::mkfifo(c.as_ptr(), 0o600) } != 0 {
                            return sx::atom("mkfifo-failed");
                        }
                        let child = cmd.arg(&path).stdin(std::process::Stdio::null()).spawn().expect("run varlink");
                        let data = text.clone().into_bytes();
                        let p2 = path.clone();
                        // opening for writing blocks until the tool opens the pipe for reading
                        std::thread::spawn(move || {
                            use std::io::Write;
                            if let Ok(mut f) = std::fs::OpenOptions::new().write(true).open(&p2) {
                                let _ = f.write_all(&data);
                            }
                        });
                        child.wait_with_output().expect("wait varlink")
                    }
                    _ => {
                        std::fs::write(&path, text.as_bytes()).expect("write case file");
                        cmd.arg(&path).stdin(std::process::Stdio::null()).output().expect("run varlink")
                    }
                };
                let _ = std::fs::remove_file(&path);
                let lib = match IDL::try_from(text.as_str()) {
                    Ok(i) => sx::xs(&if color { i.get_multiline_colored(0, w.unwrap_or(80)) } else { i.get_multiline(0, w.unwrap_or(80)) }),
                    Err(_) => sx::atom("-"),
                };
                sx::tagged(
                    "cli",
                    vec![sx::int(out.status.code().unwrap_or(-1) as i64), sx::xs(&String::from_utf8_lossy(&out.stdout)), lib],
                )
            }
            (Some("conc"), n) if n >= 3 => {
                let iters = match l[1].as_usize() {
                    Some(i) => i,
                    None => return sx::atom("bad-case"),
                };
                let mut jobs: Vec<(usize, String)> = Vec::new();
                for j in &l[2..] {
                    match j.as_list() {
                        Some(p) if p.len() == 2 => match (p[0].as_usize(), p[1].as_str()) {
                            (Some(w), Some(t)) => jobs.push((w, t)),
                            _ => return sx::atom("bad-case"),
                        },
                        _ => return sx::atom("bad-case"),
                    }
                }
                // sequential references first
                let mut refs = Vec::new();
                for (w, t) in &jobs {
                    match IDL::try_from(t.as_str()) {
                        Ok(i) => refs.push((i.get_multiline(0, *w), i.get_multiline_colored(0, *w), i.to_string())),
                        Err(_) => return sx::list(vec![sx::atom("unparsable")]),
                    }
                }
                let barrier = std::sync::Arc::new(std::sync::Barrier::new(jobs.len()));
                let mut handles = Vec::new();
                for ((w, t), (rp, rc, rd)) in jobs.into_iter().zip(refs.iter().cloned()) {
                    let barrier = barrier.clone();
                    handles.push(std::thread::spawn(move || {
                        let idl = IDL::try_from(t.as_str()).expect("parsed before");
                        let (mut bp, mut bc, mut bd) = (0usize, 0usize, 0usize);
                        let mut first: Option<String> = None;
                        barrier.wait();
                        for it in 0..iters {
                            match it % 3 {
                                0 => {
                                    let x = idl.get_multiline(0, w);
                                    if x != rp {
                                        bp += 1;
                                        first.get_or_insert(x);
                                    }
                                }
                                1 => {
                                    let x = idl.get_multiline_colored(0, w);
                                    if x != rc {
                                        bc += 1;
                                        first.get_or_insert(x);
                                    }
                                }
                                _ => {
                                    let x = idl.to_string();
                                    if x != rd {
                                        bd += 1;
                                        first.get_or_insert(x);
                                    }
                                }
                            }
                        }
                        (bp, bc, bd, first)
                    }));
                }
                let mut out = Vec::new();
                for (h, (rp, rc, _)) in handles.into_iter().zip(refs.iter()) {
                    let (bp, bc, bd, first) = h.join().unwrap_or((usize::MAX, usize::MAX, usize::MAX, None));
                    out.push(sx::list(vec![sx::xs(rp), sx::xs(rc), sx::nat(bp), sx::nat(bc), sx::nat(bd), sx::opt_str(first.as_deref())]));
                }
                sx::tagged("conc", out)
            }
            _ => sx::atom("bad-case"),
        }
    }
}

fn cli_path() -> String {
    // built by ./check through spec.repo_bins into the same target directory as the harness
    let exe = std::env::current_exe().ok();
    let dir = exe.as_ref().and_then(|p| p.parent()).map(|p| p.to_path_buf()).unwrap_or_default();
    dir.join("varlink").to_string_lossy().into_owned()
}
