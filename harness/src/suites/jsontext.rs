//! Suite `jsontext` (C17, C06): serde_json's text layer — the REAL `serde_json::from_str::<Value>`,
//! `serde_json::to_string(&Value)` and `serde_json::from_slice::<varlink::Request>` (serde_json as resolved
//! by /repo's Cargo.lock with /repo's features) against the concrete model `Model/JsonText.lean`.
//!
//! Case input:
//!   (parse x<text> (ft (x<token> <bits>|-)*))
//!        ft: every maximal run of `[-+0-9.eE]` in the text, mapped to the bits of Rust std's
//!        `token.parse::<f64>()` (an oracle independent of serde_json; `-` when std rejects the token or
//!        yields an infinity = "number out of range")
//!   (print <json> (ft (<bits> x<text>)*))
//!        ft: every float of the value mapped to the text `serde_json::to_string` writes for it
//!   (corpus lines may leave the table out: `generate` measures it)
//!
//! Observation:
//!   parse: (obs <res> <req>)   res = err | (ok <json>)              from_str::<Value>
//!                              req = - | err | (ok (r more oneway upgrade method parameters))
//!                                    from_slice::<varlink::Request> on the same text, reported when the
//!                                    text is a JSON document whose value is an object or an array
//!                                    (`-` otherwise).  When the text is NOT a valid document the
//!                                    streaming `Request` deserializer can still accept it (ignored unknown
//!                                    members are skipped without depth / surrogate / range checks); such
//!                                    cases carry the tag `req-lax-on-invalid-document`.
//!   print: x<text>
use crate::rng::Rng;
use crate::sx::{self, Sx};
use crate::{Case, Ctx, Suite};
use serde_json::Value;

pub struct JsonTextSuite;

fn is_num_char(c: char) -> bool {
    c.is_ascii_digit() || matches!(c, '-' | '+' | '.' | 'e' | 'E')
}

fn parse_table(text: &str) -> Sx {
    let mut toks: Vec<String> = Vec::new();
    let mut cur = String::new();
    for c in text.chars() {
        if is_num_char(c) {
            cur.push(c);
        } else if !cur.is_empty() {
            toks.push(std::mem::take(&mut cur));
        }
    }
    if !cur.is_empty() {
        toks.push(cur);
    }
    toks.sort();
    toks.dedup();
    let mut l = vec![sx::atom("ft")];
    for t in toks {
        let v = match t.parse::<f64>() {
            Ok(f) if f.is_finite() => sx::atom(format!("{}", f.to_bits())),
            _ => sx::atom("-"),
        };
        l.push(sx::list(vec![sx::xs(&t), v]));
    }
    sx::list(l)
}

fn collect_floats(v: &Value, out: &mut Vec<u64>) {
    match v {
        Value::Number(n) => {
            if n.as_i64().is_none() && n.as_u64().is_none() {
                if let Some(f) = n.as_f64() {
                    out.push(f.to_bits());
                }
            }
        }
        Value::Array(a) => a.iter().for_each(|x| collect_floats(x, out)),
        Value::Object(o) => o.values().for_each(|x| collect_floats(x, out)),
        _ => {}
    }
}

fn print_table(v: &Value) -> Sx {
    let mut fl = Vec::new();
    collect_floats(v, &mut fl);
    fl.sort();
    fl.dedup();
    let mut l = vec![sx::atom("ft")];
    for b in fl {
        let n = serde_json::Number::from_f64(f64::from_bits(b)).expect("finite");
        let t = serde_json::to_string(&Value::Number(n)).expect("number text");
        l.push(sx::list(vec![sx::atom(format!("{}", b)), sx::xs(&t)]));
    }
    sx::list(l)
}

fn parse_case(text: &str) -> Sx {
    sx::tagged("parse", vec![sx::xs(text), parse_table(text)])
}

fn print_case(v: &Value) -> Sx {
    sx::tagged("print", vec![sx::json(v), print_table(v)])
}

fn req_sx(r: &varlink::Request) -> Sx {
    let ob = |b: &Option<bool>| match b {
        None => sx::atom("-"),
        Some(b) => sx::list(vec![sx::atom("some"), sx::boolean(*b)]),
    };
    let p = match &r.parameters {
        None => sx::atom("-"),
        Some(v) => sx::list(vec![sx::atom("some"), sx::list(vec![sx::atom("j"), sx::json(v)])]),
    };
    sx::tagged("r", vec![ob(&r.more), ob(&r.oneway), ob(&r.upgrade), sx::xs(&r.method), p])
}

fn run_parse(text: &str) -> Sx {
    let res = serde_json::from_str::<Value>(text);
    let req = match &res {
        Ok(Value::Object(_)) | Ok(Value::Array(_)) => match serde_json::from_slice::<varlink::Request>(text.as_bytes()) {
            Ok(r) => sx::tagged("ok", vec![req_sx(&r)]),
            Err(_) => sx::atom("err"),
        },
        _ => sx::atom("-"),
    };
    let r = match &res {
        Ok(v) => sx::tagged("ok", vec![sx::json(v)]),
        Err(_) => sx::atom("err"),
    };
    sx::tagged("obs", vec![r, req])
}

// ---------------------------------------------------------------------------
// generators

const STR_CHARS: &[char] = &[
    'a', 'b', 'z', 'A', '0', '9', ' ', '"', '\\', '/', '\u{8}', '\u{c}', '\n', '\r', '\t', '\u{0}', '\u{1}', '\u{1f}',
    '\u{7f}', '\u{80}', 'é', 'ß', '\u{7ff}', '\u{800}', '€', '\u{d7ff}', '\u{e000}', '\u{ffff}', '\u{10000}', '😀',
    '\u{10ffff}', '{', '}', '[', ']', ':', ',', 'u', 'e', 'E', '-', '+', '.',
];

fn gstring(r: &mut Rng) -> String {
    let n = match r.below(8) {
        0 => 0,
        1..=4 => r.range(1, 4),
        5 | 6 => r.range(5, 12),
        _ => r.range(13, 40),
    };
    (0..n)
        .map(|_| if r.chance(1, 10) { char::from_u32(r.below(0x80) as u32).unwrap() } else { *r.pick(STR_CHARS) })
        .collect()
}

const INTS: &[i128] = &[
    0,
    1,
    -1,
    9,
    10,
    -10,
    255,
    65536,
    4294967295,
    4294967296,
    9007199254740992,
    9007199254740993,
    9223372036854775806,
    9223372036854775807,
    9223372036854775808,
    9223372036854775809,
    18446744073709551614,
    18446744073709551615,
    -9223372036854775807,
    -9223372036854775808,
];

const FLOATS: &[f64] = &[
    0.0, -0.0, 1.0, -1.0, 0.5, 1.5, 0.1, 0.2, 0.3, 1e21, 1e-7, 1e300, 1e-300, 5e-324, 1.7976931348623157e308,
    2.2250738585072014e-308, 123456.789, 1e15, 1e16, 1e17, 9007199254740993.0, 18446744073709551616.0,
    -9223372036854775809.0, 3.141592653589793, 2.718281828459045,
];

fn gnumber(r: &mut Rng) -> Value {
    match r.below(6) {
        0 | 1 => {
            let i = *r.pick(INTS);
            if i < 0 {
                Value::from(i as i64)
            } else {
                Value::from(i as u64)
            }
        }
        2 => Value::from(r.next() as i64),
        3 => Value::from(r.next()),
        4 => Value::from(*r.pick(FLOATS)),
        _ => {
            let f = f64::from_bits(r.next());
            if f.is_finite() {
                Value::from(f)
            } else {
                Value::from(0.25)
            }
        }
    }
}

fn gvalue(r: &mut Rng, depth: usize) -> Value {
    let k = if depth == 0 { r.below(5) } else { r.below(8) };
    match k {
        0 => Value::Null,
        1 => Value::Bool(r.chance(1, 2)),
        2 | 3 => gnumber(r),
        4 => Value::String(gstring(r)),
        5 | 6 => {
            let n = r.below(4);
            Value::Array((0..n).map(|_| gvalue(r, depth - 1)).collect())
        }
        _ => {
            let n = r.below(4);
            let mut m = serde_json::Map::new();
            for _ in 0..n {
                let k = if r.chance(1, 2) { (*r.pick(&["a", "b", "c", "", "method", "k\"", "é"])).to_string() } else { gstring(r) };
                m.insert(k, gvalue(r, depth - 1));
            }
            Value::Object(m)
        }
    }
}

fn ws(r: &mut Rng, out: &mut String, on: bool) {
    if !on {
        return;
    }
    let n = match r.below(6) {
        0..=2 => 0,
        3 | 4 => 1,
        _ => r.range(2, 4),
    };
    for _ in 0..n {
        out.push(*r.pick(&[' ', '\t', '\n', '\r']));
    }
}

/// a string literal with randomly chosen (legal) escape forms
fn emit_string(r: &mut Rng, s: &str, out: &mut String, vary: bool) {
    if !vary {
        out.push_str(&serde_json::to_string(&Value::String(s.to_string())).unwrap());
        return;
    }
    out.push('"');
    for c in s.chars() {
        let must = (c as u32) < 0x20 || c == '"' || c == '\\';
        let short = match c {
            '"' => Some("\\\""),
            '\\' => Some("\\\\"),
            '/' => Some("\\/"),
            '\u{8}' => Some("\\b"),
            '\u{c}' => Some("\\f"),
            '\n' => Some("\\n"),
            '\r' => Some("\\r"),
            '\t' => Some("\\t"),
            _ => None,
        };
        let choice = r.below(4);
        if !must && choice < 2 {
            out.push(c);
        } else if short.is_some() && choice != 3 {
            out.push_str(short.unwrap());
        } else {
            let upper = r.chance(1, 2);
            let mut buf = [0u16; 2];
            for u in c.encode_utf16(&mut buf) {
                if upper {
                    out.push_str(&format!("\\u{:04X}", u));
                } else {
                    out.push_str(&format!("\\u{:04x}", u));
                }
            }
        }
    }
    out.push('"');
}

/// the value as text: random legal whitespace, random escape forms, members shuffled, duplicates injected
fn emit(r: &mut Rng, v: &Value, out: &mut String, wsp: bool, vary: bool, dups: bool) {
    match v {
        Value::String(s) => emit_string(r, s, out, vary),
        Value::Array(a) => {
            out.push('[');
            ws(r, out, wsp);
            for (i, x) in a.iter().enumerate() {
                if i > 0 {
                    out.push(',');
                    ws(r, out, wsp);
                }
                emit(r, x, out, wsp, vary, dups);
                ws(r, out, wsp);
            }
            out.push(']');
        }
        Value::Object(o) => {
            let mut members: Vec<(String, Value)> = o.iter().map(|(k, v)| (k.clone(), v.clone())).collect();
            if dups {
                // shuffle, then duplicate some keys with other values at random positions
                for i in (1..members.len()).rev() {
                    let j = r.below(i + 1);
                    members.swap(i, j);
                }
                if !members.is_empty() && r.chance(1, 2) {
                    let k = members[r.below(members.len())].0.clone();
                    let pos = r.below(members.len() + 1);
                    members.insert(pos, (k, gvalue(r, 1)));
                }
            }
            out.push('{');
            ws(r, out, wsp);
            for (i, (k, x)) in members.iter().enumerate() {
                if i > 0 {
                    out.push(',');
                    ws(r, out, wsp);
                }
                emit_string(r, k, out, vary);
                ws(r, out, wsp);
                out.push(':');
                ws(r, out, wsp);
                emit(r, x, out, wsp, vary, dups);
                ws(r, out, wsp);
            }
            out.push('}');
        }
        other => out.push_str(&serde_json::to_string(other).unwrap()),
    }
}

fn emit_doc(r: &mut Rng, v: &Value, wsp: bool, vary: bool, dups: bool) -> String {
    let mut s = String::new();
    ws(r, &mut s, wsp);
    emit(r, v, &mut s, wsp, vary, dups);
    ws(r, &mut s, wsp);
    s
}

const STRING_DOCS: &[&str] = &[
    r#""""#,
    r#""a""#,
    r#""A""#,
    r#""é""#,
    r#""é""#,
    r#""ï""#,
    r#""😀""#,
    r#""😀""#,
    r#""😀""#,
    r#""𐀀""#,
    r#""􏿿""#,
    r#""\ud800""#,
    r#""\udbff""#,
    r#""\udc00""#,
    r#""\udfff""#,
    r#""\udc00\ud800""#,
    r#""\ud800A""#,
    r#""\ud800\ud800""#,
    r#""\ud800𐀀""#,
    r#""\ud800x""#,
    r#""\ud800\n""#,
    r#""\ud800\""#,
    r#""\ud800\u""#,
    r#""\ud800\udc0""#,
    r#""\ud800\udbff""#,
    r#""\ud800\\udc00""#,
    r#""\u12""#,
    r#""\u12G4""#,
    r#""\u""#,
    r#""\u123""#,
    r#""\U0041""#,
    r#""\x41""#,
    r#""\a""#,
    r#""\0""#,
    r#""\'""#,
    r#""\/""#,
    r#""\"""#,
    r#""\\""#,
    r#""\b\f\n\r\t""#,
    r#""\B""#,
    r#""\u0000""#,
    r#""\u001f""#,
    r#""\u007f""#,
    r#""￿""#,
    r#""￾""#,
    r#""퟿""#,
    r#""""#,
    r#""\u+041""#,
    r#""\u-041""#,
    r#""\u 041""#,
    r#""\"#,
    r#"""#,
    r#""abc"#,
    r#""a"b""#,
    r#""\\"#,
    r#"'a'"#,
    r#""/""#,
    r#""""#,
    r#""""#,
    r#"" ""#,
    r#""é😀""#,
    r#""😀\ud83d""#,
    r#"{"😀":1}"#,
    r#"{"a":1,"a":2}"#,
    r#"{"a":1,"a":2}"#,
    r#"{"\ud800":1}"#,
    r#""ééé""#,
    r#""𝄞""#,
    r#""𝄞""#,
    r#""􏰀""#,
    r#""\udc00\udc00""#,
    r#""\udbff""#,
    r#""\udbff􏿿""#,
];

/// sequences of 4-hex-digit escapes (UTF-16 units): valid, both cases, surrogate pairs, lone / reversed surrogates
const HEX_ESCAPES: &[&[&str]] = &[
    &["0041"], &["00e9"], &["00E9"], &["00eF"], &["0061"], &["d83d", "de00"], &["D83D", "DE00"], &["d83D", "De00"], &["d800", "dc00"],
    &["dbff", "dfff"], &["DBFF", "DFFF"], &["d800", "0041"], &["d800", "d800", "dc00"], &["d800", "dc00", "dc00"], &["ffff"], &["FFFE"],
    &["d7ff"], &["e000"], &["0000"], &["001f"], &["001F"], &["000a"], &["000A"], &["0022"], &["005c"], &["005C"], &["002f"], &["007f"],
    &["0080"], &["dc00", "d800"], &["d834", "dd1e"], &["D834", "DD1E"], &["0041", "0042", "00e9"], &["d800"], &["dc00"], &["dfff"],
    &["dbff"], &["d7ff", "dc00"], &["e000", "dc00"], &["d800", "e000"], &["d800", "dbff"], &["abcd"], &["ABCD"], &["aBcD"], &["12g4"],
    &["123"], &["+123"], &["-123"], &["0x41"],
];

const NUMBER_TOKENS: &[&str] = &[
    "0", "-0", "0.0", "-0.0", "0e0", "-0e0", "0E+0", "1", "-1", "9", "10", "123", "01", "-01", "00", "-00", "007", "0x10", "+1", "+0",
    ".5", "-.5", "1.", "1.e5", "1e", "1e+", "1e-", "1E", "1.5", "1.5e10", "1.5e+10", "1.5E-10", "1e5", "1E5", "1e05",
    "1e+05", "-", "--1", "-+1", "1-2", "1+2", "1.2.3", "1e5e5", "1e5.5", "1..2", "1ee5", "e5", "E5", "-e5", "1e400",
    "-1e400", "1E-400", "-1E-400", "0e400", "0e999999999999999999999", "1e999999999999999999999",
    "1e-999999999999999999999", "0.0e999999999999999999999", "9223372036854775806", "9223372036854775807",
    "9223372036854775808", "9223372036854775809", "18446744073709551614", "18446744073709551615",
    "18446744073709551616", "18446744073709551617", "-9223372036854775807", "-9223372036854775808",
    "-9223372036854775809", "-9223372036854775810", "-18446744073709551615", "-18446744073709551616",
    "184467440737095516150", "1844674407370955161", "99999999999999999999", "100000000000000000000",
    "123456789012345678901234567890", "-123456789012345678901234567890", "1.7976931348623157e308",
    "1.7976931348623158e308", "1.7976931348623159e308", "1.8e308", "2.2250738585072011e-308", "2.2250738585072014e-308",
    "4.9e-324", "5e-324", "2e-324", "3e-324", "2.4703282292062327e-324", "2.4703282292062328e-324", "0.1", "0.2", "0.3",
    "9007199254740993", "9007199254740993.0", "0.30000000000000004", "1.0000000000000002", "1.00000000000000011102230246251565404236316680908203125",
    "1.00000000000000011102230246251565404236316680908203124", "1.00000000000000011102230246251565404236316680908203126",
    "8.41e21", "1e23", "9.5e-1", "123456789.123456789e-5", "0.000000000000000000000000000001", "1e0", "1e-0", "1e+0", "-1e-0",
    "18446744073709551615.0", "18446744073709551616.0", "1E400", "NaN", "Infinity", "-Infinity", "nan", "inf", "-inf", "1_000", "1,000",
    "0.", "-0.", "0.e1", "0e", "-0e", "0e+", "1.0e", "1.0e+", "1.0E-", "1 .5", "1. 5", "1 e5", "- 1",
];

const GARBAGE_DOCS: &[&str] = &[
    "", " ", "\n", "[", "]", "{", "}", ",", ":", "[]", "{}", "[ ]", "{ }", "[1,]", "[1, ]", "[,1]", "[,]", "[1,,2]", "[1 2]",
    "[1", "[1,", "[1,2", "{\"a\":1,}", "{\"a\":1, }", "{,}", "{\"a\":1,,\"b\":2}", "{\"a\" 1}", "{\"a\":}", "{\"a\"}", "{\"a\":1",
    "{\"a\":1 \"b\":2}", "{a:1}", "{1:2}", "{null:1}", "{\"a\":1}}", "[1]]", "[1]x", "[1] x", "[1],", "1 2", "null null", "nul",
    "nullx", "null x", "truee", "tru", "True", "TRUE", "fals", "falsee", "False", "n", "t", "f", "null", "true", "false", " null ",
    "\tnull\n", "\u{b}null", "\u{c}null", "null\u{b}", "null\u{c}", "\u{a0}null", "null\u{a0}", "\u{feff}null", "\u{2028}1", "/*c*/1",
    "//c\n1", "1//c", "'a'", "\"a\":1", "[\"a\":1]", "{\"a\",1}", "{[1]:2}", "[1}", "{\"a\":1]", "[[]", "[]]", "{{}}", "{\"a\":{}",
    "[null,true,false]", "[ null , true , false ]", "{\"a\":null,\"b\":true,\"c\":false}", "\u{0}", "null\u{0}", "[\u{0}]", "[1\u{0}]",
    "[\"a\" \"b\"]", "[\"a\",\"b\"]", "{\"a\":1,\"a\":2}", "{\"b\":1,\"a\":2}", "{\"a\":1,\"b\":2,\"a\":3}",
    "{\"b\":{\"z\":1,\"y\":2,\"z\":3},\"a\":[{\"d\":1,\"c\":2}]}", "{\"\":1,\"\":2}", "{\"a\":{\"a\":1},\"a\":[{\"b\":1,\"b\":2}]}",
    "{\"aa\":1,\"a\":2,\"ab\":3,\"B\":4,\"é\":5,\"z\":6,\"\u{10000}\":7,\"\u{ffff}\":8}",
];

const PREFIX_DOCS: &[&str] = &[
    r#"{"method":"org.example.Ping","parameters":{"a":[1,-2.5e3,true,null,"x\né😀"],"b":{}},"more":true}"#,
    "[ 1 , \"a\\\\\" , { \"k\" : [ ] } , false , -0 , 18446744073709551616 ] ",
    r#"{"a":{"b":{"c":[[],[[]],{"d":"e"}]}},"n":null,"t":true,"f":false,"s":"\"","i":-9223372036854775808}"#,
];

const MUT_CHARS: &[char] = &[
    '"', '\\', '{', '}', '[', ']', ',', ':', ' ', '\n', '0', '1', '9', '-', '+', '.', 'e', 'E', 'u', 'n', 't', 'f', 'a', 'l',
    '\u{0}', '\u{1f}', '\u{7f}', 'é', 'd', 'D', '8', 'c', '/',
];

fn nested(open: &str, close: &str, n: usize, inner: &str) -> String {
    let mut s = String::new();
    for _ in 0..n {
        s.push_str(open);
    }
    s.push_str(inner);
    for _ in 0..n {
        s.push_str(close);
    }
    s
}

fn mixed_nested(n: usize, inner: &str, start_obj: bool) -> String {
    let mut s = String::new();
    let mut closers = Vec::new();
    for i in 0..n {
        if (i % 2 == 0) == start_obj {
            s.push_str("{\"k\":");
            closers.push('}');
        } else {
            s.push('[');
            closers.push(']');
        }
    }
    s.push_str(inner);
    while let Some(c) = closers.pop() {
        s.push(c);
    }
    s
}

fn nested_value(n: usize, obj: u8, inner: Value) -> Value {
    let mut v = inner;
    for i in 0..n {
        let as_obj = match obj {
            0 => false,
            1 => true,
            _ => i % 2 == 0,
        };
        v = if as_obj {
            let mut m = serde_json::Map::new();
            m.insert("k".into(), v);
            Value::Object(m)
        } else {
            Value::Array(vec![v])
        };
    }
    v
}

fn request_docs() -> Vec<(String, &'static str)> {
    let mut out: Vec<(String, &'static str)> = Vec::new();
    let flag = ["", "true", "false", "null"];
    for m in flag {
        for o in flag {
            for u in flag {
                let mut s = String::from("{");
                if !m.is_empty() {
                    s.push_str(&format!("\"more\":{},", m));
                }
                if !o.is_empty() {
                    s.push_str(&format!("\"oneway\":{},", o));
                }
                if !u.is_empty() {
                    s.push_str(&format!("\"upgrade\":{},", u));
                }
                s.push_str("\"method\":\"org.example.M\",\"parameters\":{\"x\":1}}");
                out.push((s, "req:flags"));
            }
        }
    }
    for p in ["null", "{}", "[]", "[1,2]", "1", "-0", "1.5", "\"s\"", "true", "{\"b\":1,\"a\":2,\"b\":3}", "{\"a\":{\"z\":1,\"y\":[{\"q\":1,\"p\":2}]}}", "18446744073709551616", "1e400"] {
        out.push((format!("{{\"method\":\"a.B\",\"parameters\":{}}}", p), "req:parameters"));
        out.push((format!("{{\"parameters\":{},\"method\":\"a.B\"}}", p), "req:parameters"));
    }
    for d in [
        r#"{"method":"a.B"}"#, r#"{}"#, r#"{"method":null}"#, r#"{"method":1}"#, r#"{"method":["a"]}"#, r#"{"method":{"a":1}}"#, r#"{"method":""}"#,
        r#"{"method":"a😀\n"}"#, r#"{"Method":"a.B"}"#, r#"{"method ":"a.B"}"#, r#"{"method":"a.B"}"#,
        r#"{"method":"a.B","more":1}"#, r#"{"method":"a.B","more":"true"}"#, r#"{"method":"a.B","more":[]}"#, r#"{"method":"a.B","oneway":0}"#,
        r#"{"method":"a.B","upgrade":{}}"#, r#"{"method":"a.B","more":true,"more":true}"#, r#"{"method":"a.B","method":"a.C"}"#,
        r#"{"method":"a.B","parameters":{},"parameters":{}}"#, r#"{"method":"a.B","x":1}"#, r#"{"method":"a.B","x":1,"x":2}"#,
        r#"{"x":{"method":"no"},"method":"a.B"}"#, r#"{"method":"a.B","x":[1,{"y":null}],"":"","z":-1.5e-3}"#,
        r#"{"method":"a.B","x":"\ud800"}"#, r#"{"method":"a.B","x":1e400}"#, r#"{"method":"a.B","x":01}"#, r#"{"method":"a.B","x":"\q"}"#,
        r#"{"method":"a.B","x":-}"#, r#"{"method":"a.B","x":tru}"#, r#"{"method":"a.B","x":[1,]}"#, r#"{"method":"a.B","x":{"a":1,}}"#,
        r#"{"method":"a.B","x":"\u12"}"#, r#"{"method":"a.B","x":1.}"#, r#"{"method":"a.B","x":-0}"#, r#"{"method":"a.B","x":18446744073709551616}"#,
        r#" { "method" : "a.B" , "more" : true } "#, r#"{"method":"a.B"} x"#, r#"{"method":"a.B"}{"method":"a.B"}"#,
        r#"[null,null,null,"a.B",null]"#, r#"[true,false,null,"a.B",{"a":1}]"#, r#"[null,null,null,"a.B"]"#, r#"[null,null,null,"a.B",null,1]"#,
        r#"["a.B"]"#, r#"[]"#, r#"[1,null,null,"a.B",null]"#, r#"[null,null,null,1,null]"#, r#"[ true , true , true , "m" , [ ] ]"#,
        r#"{"method":"a.B","continues":true,"error":"x"}"#, r#"{"error":"org.varlink.service.MethodNotFound","parameters":{"method":"x"}}"#,
    ] {
        out.push((d.to_string(), "req:shape"));
    }
    for n in [125usize, 126, 127, 128, 129, 200] {
        out.push((format!("{{\"method\":\"a.B\",\"parameters\":{}}}", nested("[", "]", n, "")), "req:depth"));
        out.push((format!("{{\"method\":\"a.B\",\"x\":{}}}", nested("[", "]", n, "")), "req:depth"));
        out.push((format!("{{\"method\":\"a.B\",\"x\":{}}}", nested("{\"a\":", "}", n, "1")), "req:depth"));
    }
    out
}

fn corpus() -> Vec<Sx> {
    let p = format!("{}/corpus/jsontext.txt", env!("CARGO_MANIFEST_DIR"));
    std::fs::read_to_string(p)
        .unwrap_or_default()
        .lines()
        .filter(|l| l.trim_start().starts_with('('))
        .filter_map(sx::parse)
        .collect()
}

/// (re)measure the float table of a corpus / replay line
fn with_table(case: &Sx) -> Sx {
    let l = match case.as_list() {
        Some(l) if l.len() >= 2 => l,
        _ => return case.clone(),
    };
    match l[0].as_atom() {
        Some("parse") => match l[1].as_str() {
            Some(t) => parse_case(&t),
            None => case.clone(),
        },
        Some("print") => match l[1].to_json() {
            Some(v) => print_case(&v),
            None => case.clone(),
        },
        _ => case.clone(),
    }
}

fn parse_tags(text: &str, kind: &str) -> Vec<String> {
    let mut tags = vec!["parse".to_string(), format!("parse:{}", kind)];
    let res = serde_json::from_str::<Value>(text);
    tags.push(if res.is_ok() { "parse-ok".into() } else { "parse-err".into() });
    if res.is_err() && serde_json::from_slice::<varlink::Request>(text.as_bytes()).is_ok() {
        tags.push("req-lax-on-invalid-document".into());
    }
    if let Ok(Value::Object(_)) | Ok(Value::Array(_)) = res {
        tags.push(if serde_json::from_slice::<varlink::Request>(text.as_bytes()).is_ok() { "req-ok".into() } else { "req-err".into() });
    }
    tags
}

fn push_parse(out: &mut Vec<Case>, text: &str, kind: &str) {
    out.push(Case { input: parse_case(text), tags: parse_tags(text, kind) });
}

fn push_print(out: &mut Vec<Case>, v: &Value, kind: &str) {
    out.push(Case { input: print_case(v), tags: vec!["print".into(), format!("print:{}", kind)] });
}

impl Suite for JsonTextSuite {
    fn generate(&self, ctx: &Ctx) -> Vec<Case> {
        let mut out: Vec<Case> =
            corpus().into_iter().map(|c| Case { input: with_table(&c), tags: vec!["corpus".into()] }).collect();
        let mut r = Rng::new(ctx.seed);
        let scale = if ctx.thorough { 10 } else { 1 };

        // fixed documents
        for d in STRING_DOCS {
            push_parse(&mut out, d, "string-forms");
            push_parse(&mut out, &format!("[{}]", d), "string-forms");
        }
        for units in HEX_ESCAPES {
            let body: String = units.iter().map(|h| format!("{}u{}", '\\', h)).collect();
            push_parse(&mut out, &format!("\"{}\"", body), "hex-escapes");
            push_parse(&mut out, &format!("\"a{}b\"", body), "hex-escapes");
            push_parse(&mut out, &format!("{{\"{}\":[\"{}\"],\"a\":1}}", body, body), "hex-escapes");
        }
        for c in 0u32..0x20 {
            let ch = char::from_u32(c).unwrap();
            push_parse(&mut out, &format!("\"a{}b\"", ch), "raw-control");
            push_parse(&mut out, &format!("{{\"k{}\":1}}", ch), "raw-control");
            push_parse(&mut out, &format!("[1,{}2]", ch), "raw-control");
            push_print(&mut out, &Value::String(format!("x{}y", ch)), "control");
            let mut m = serde_json::Map::new();
            m.insert(format!("{}", ch), Value::Null);
            push_print(&mut out, &Value::Object(m), "control");
        }
        for t in NUMBER_TOKENS {
            push_parse(&mut out, t, "number");
            push_parse(&mut out, &format!("[{}]", t), "number");
            push_parse(&mut out, &format!(" {} ", t), "number");
            push_parse(&mut out, &format!("{{\"a\":{},\"b\":[{} ]}}", t, t), "number");
        }
        for n in [19usize, 20, 21, 30, 100, 308, 309, 310, 400, 1000] {
            let d: String = (0..n).map(|i| char::from(b'1' + (i % 9) as u8)).collect();
            push_parse(&mut out, &d, "number-huge");
            push_parse(&mut out, &format!("-{}", d), "number-huge");
            push_parse(&mut out, &format!("0.{}", d), "number-huge");
            push_parse(&mut out, &format!("{}.{}e-{}", d, d, n), "number-huge");
            push_parse(&mut out, &format!("1{}", "0".repeat(n)), "number-huge");
            push_parse(&mut out, &format!("0.{}1", "0".repeat(n)), "number-huge");
        }
        for d in GARBAGE_DOCS {
            push_parse(&mut out, d, "garbage");
        }
        for n in 124usize..=131 {
            for inner in ["", "1", "\"s\""] {
                if !inner.is_empty() || true {
                    push_parse(&mut out, &nested("[", "]", n, inner), "depth-array");
                }
                let oi = if inner.is_empty() { "{}" } else { inner };
                push_parse(&mut out, &nested("{\"k\":", "}", n, oi), "depth-object");
                push_parse(&mut out, &mixed_nested(n, if inner.is_empty() { "[]" } else { inner }, true), "depth-mixed");
                push_parse(&mut out, &mixed_nested(n, if inner.is_empty() { "{}" } else { inner }, false), "depth-mixed");
            }
            push_parse(&mut out, &format!(" [ {} , 1 ] ", nested("[ ", " ]", n, "")), "depth-array");
            for obj in 0u8..3 {
                push_print(&mut out, &nested_value(n, obj, Value::Null), "depth");
                push_print(&mut out, &nested_value(n, obj, Value::Array(vec![])), "depth");
            }
        }
        for (d, tag) in request_docs() {
            push_parse(&mut out, &d, tag);
        }
        for d in PREFIX_DOCS {
            let idx: Vec<usize> = d.char_indices().map(|(i, _)| i).chain(std::iter::once(d.len())).collect();
            for i in idx {
                push_parse(&mut out, &d[..i], "truncated");
            }
        }

        // random values: printed, and printed-then-decorated
        for i in 0..(600 * scale) {
            let v = gvalue(&mut r, 1 + i % 4);
            push_print(&mut out, &v, "random");
            let t0 = serde_json::to_string(&v).unwrap();
            push_parse(&mut out, &t0, "printed");
            let t1 = emit_doc(&mut r, &v, true, false, false);
            push_parse(&mut out, &t1, "printed-ws");
            let t2 = emit_doc(&mut r, &v, true, true, false);
            push_parse(&mut out, &t2, "escape-forms-ws");
            let (a, b) = (r.chance(1, 2), r.chance(1, 2));
            let t3 = emit_doc(&mut r, &v, a, b, true);
            push_parse(&mut out, &t3, "shuffled-duplicates");
        }
        // strings
        for _ in 0..(300 * scale) {
            let s = gstring(&mut r);
            push_print(&mut out, &Value::String(s.clone()), "string");
            let mut t = String::new();
            emit_string(&mut r, &s, &mut t, true);
            push_parse(&mut out, &t, "escape-forms");
        }
        // random number tokens
        for _ in 0..(300 * scale) {
            let mut t = String::new();
            if r.chance(1, 3) {
                t.push('-');
            }
            let nd = r.range(1, 24);
            for k in 0..nd {
                let lo = if k == 0 && nd > 1 && !r.chance(1, 10) { 1 } else { 0 };
                t.push(char::from(b'0' + r.range(lo, 9) as u8));
            }
            if r.chance(1, 2) {
                t.push('.');
                let lo = if r.chance(1, 10) { 0 } else { 1 };
                for _ in 0..r.range(lo, 20) {
                    t.push(char::from(b'0' + r.below(10) as u8));
                }
            }
            if r.chance(1, 2) {
                t.push(*r.pick(&['e', 'E']));
                match r.below(3) {
                    0 => t.push('+'),
                    1 => t.push('-'),
                    _ => {}
                }
                let lo = if r.chance(1, 10) { 0 } else { 1 };
                for _ in 0..r.range(lo, 3) {
                    t.push(char::from(b'0' + r.below(10) as u8));
                }
            }
            push_parse(&mut out, &t, "number-random");
        }
        // one-character mutations of valid documents
        for i in 0..(1500 * scale) {
            let v = if i % 5 == 0 {
                serde_json::from_str::<Value>(PREFIX_DOCS[(i / 5) % PREFIX_DOCS.len()]).unwrap()
            } else {
                gvalue(&mut r, 1 + i % 3)
            };
            let t = emit_doc(&mut r, &v, i % 2 == 0, i % 3 == 0, false);
            let mut cs: Vec<char> = t.chars().collect();
            if cs.is_empty() {
                continue;
            }
            let p = r.below(cs.len());
            let kind = match r.below(4) {
                0 => {
                    cs.remove(p);
                    "mutation-delete"
                }
                1 => {
                    cs.insert(p, *r.pick(MUT_CHARS));
                    "mutation-insert"
                }
                2 => {
                    let q = r.below(cs.len());
                    cs.swap(p, q);
                    "mutation-swap"
                }
                _ => {
                    cs[p] = *r.pick(MUT_CHARS);
                    "mutation-replace"
                }
            };
            let t: String = cs.into_iter().collect();
            push_parse(&mut out, &t, kind);
        }
        // request envelopes with random members
        for _ in 0..(300 * scale) {
            let mut m = serde_json::Map::new();
            for k in ["more", "oneway", "upgrade"] {
                match r.below(6) {
                    0 => {
                        m.insert(k.into(), Value::Bool(true));
                    }
                    1 => {
                        m.insert(k.into(), Value::Bool(false));
                    }
                    2 => {
                        m.insert(k.into(), Value::Null);
                    }
                    3 if r.chance(1, 4) => {
                        m.insert(k.into(), gvalue(&mut r, 1));
                    }
                    _ => {}
                }
            }
            if !r.chance(1, 10) {
                m.insert("method".into(), if r.chance(1, 10) { gvalue(&mut r, 1) } else { Value::String(gstring(&mut r)) });
            }
            if r.chance(2, 3) {
                m.insert("parameters".into(), gvalue(&mut r, 3));
            }
            if r.chance(1, 3) {
                m.insert(gstring(&mut r), gvalue(&mut r, 2));
            }
            let v = Value::Object(m);
            let (a, b, c) = (r.chance(1, 2), r.chance(1, 3), r.chance(1, 2));
            let t = emit_doc(&mut r, &v, a, b, c);
            push_parse(&mut out, &t, "req-random");
        }
        out
    }

    fn run(&self, _ctx: &Ctx, input: &Sx) -> Sx {
        let l = match input.as_list() {
            Some(l) if l.len() == 2 || l.len() == 3 => l,
            _ => return sx::atom("bad-case"),
        };
        match l[0].as_atom().unwrap_or("") {
            "parse" => match l[1].as_str() {
                Some(t) => run_parse(&t),
                None => sx::atom("bad-case"),
            },
            "print" => match l[1].to_json() {
                Some(v) => match serde_json::to_string(&v) {
                    Ok(t) => sx::xs(&t),
                    Err(_) => sx::atom("err"),
                },
                None => sx::atom("bad-case"),
            },
            _ => sx::atom("bad-case"),
        }
    }
}
