//! Suite `client`: the client side of the protocol (C07; client halves of C04, C05).
//! Real `varlink::Connection` + `MethodCall<Value, Value, varlink::Error>` over a
//! `UnixStream::pair()` against a scripted fake server thread.
//!
//! Case kinds (one S-expression per line):
//!
//!   (kind <reply>)                                   ErrorKind::from(reply), directly
//!   (seq <objs> <ops> <groups> <wbudget>)            one thread, scripted server
//!   (gated <objs> <progs> (sched t*))                2..8 real threads, controlled schedule, echo server
//!   (timed <withhold ms> <b after ms>)              thread A waits for a withheld reply, thread B calls meanwhile
//!   (free <objs> <progs> <seed>)                     2..8 real threads running freely (random yields,
//!                                                    retry while busy), echo server
//!
//!   objs   = (objs (x<method> <params>)*)
//!   ops    = (ops <op>*)            op = (call i)|(upgrade i)|(oneway i)|(more i)|(next i)|(recv i)
//!   progs  = (progs (p <op>*)*)     one operation list per thread
//!   groups = (groups <group>*)      group 0 is sent on connect, group n after the n-th request arrived
//!   group  = (g <close t|f> <frame>*)
//!   frame  = (f b<bytes> <dec>)     a NUL-terminated message; dec = what serde_json says about it
//!          | (part b<bytes> <dec>)  bytes without the NUL (only useful right before a close); dec is about
//!                                   the bytes minus the last one (that is what recv() parses)
//!          | (ioerr t|f)            the client's read fails (t: with ConnectionReset)
//!   dec    = bad | <reply>          reply = (r <continues> <error> <params>)
//!   wbudget = - | n                 number of writes of the client that succeed
//!
//! Observations:
//!   (kind-obs <kind>)
//!   (obs (res (<thread> <res>)*) (log <req>*) (slots <reader t|f> <writer t|f>) <blocked t|f>)
//!   (free-obs (threads (<res>*)*) (logs (<req>*)*) (slots r w) x<anomaly>)
//!   res  = (ok <json>) | unit | none | noobj | (err <kind>)
//!   kind = io | closed | badjson | (inf x) | (ip x) | (mnf x) | (mni x) | (reply c e p) | called | busy | old | (other x..)
//!   req  = (req <more> <oneway> <upgrade> x<method> <params>) | (rawreq b<bytes>)
use crate::rng::Rng;
use crate::sx::{self, Sx};
use crate::{Case, Ctx, Suite};
use serde_json::{json, Value};
use std::cell::Cell;
use std::collections::HashMap;
use std::io::{BufRead, BufReader, Read, Write};
use std::net::Shutdown;
use std::os::unix::net::UnixStream;
use std::sync::atomic::{AtomicBool, Ordering};
use std::sync::{Arc, Condvar, Mutex, RwLock};
use std::time::Duration;
use varlink::{Connection, ErrorKind, MethodCall, Reply};

pub struct ClientSuite;

/// a typed reply (what generated client code uses): the parameters of a reply may fail to decode into it
#[derive(serde_derive::Serialize, serde_derive::Deserialize, Debug)]
pub struct TypedReply {
    pub i: i64,
    #[serde(default, skip_serializing_if = "Option::is_none")]
    pub s: Option<String>,
}

/// the request parameters of a call object: a JSON value, or a value whose `Serialize` fails
/// (what e.g. a map with non-string keys does in `serde_json::to_value`)
#[derive(Clone)]
pub enum ReqArg {
    V(Value),
    Unser,
}

impl serde::Serialize for ReqArg {
    fn serialize<S: serde::Serializer>(&self, ser: S) -> Result<S::Ok, S::Error> {
        match self {
            ReqArg::V(v) => v.serialize(ser),
            ReqArg::Unser => Err(serde::ser::Error::custom("request does not serialize")),
        }
    }
}

/// a call object with `MReply = Value` or `MReply = TypedReply`
pub enum Call {
    V(MethodCall<ReqArg, Value, varlink::Error>),
    T(MethodCall<ReqArg, TypedReply, varlink::Error>),
}

fn typed_value(r: Result<TypedReply, varlink::Error>) -> Result<Value, varlink::Error> {
    r.map(|t| serde_json::to_value(t).unwrap())
}

impl Call {
    fn new(conn: Arc<RwLock<Connection>>, method: String, params: ReqArg, typed: bool) -> Call {
        if typed {
            Call::T(MethodCall::new(conn, method, params))
        } else {
            Call::V(MethodCall::new(conn, method, params))
        }
    }
    fn call(&mut self) -> Result<Value, varlink::Error> {
        match self {
            Call::V(c) => c.call(),
            Call::T(c) => typed_value(c.call()),
        }
    }
    fn upgrade(&mut self) -> Result<Value, varlink::Error> {
        match self {
            Call::V(c) => c.upgrade(),
            Call::T(c) => typed_value(c.upgrade()),
        }
    }
    fn recv(&mut self) -> Result<Value, varlink::Error> {
        match self {
            Call::V(c) => c.recv(),
            Call::T(c) => typed_value(c.recv()),
        }
    }
    fn oneway(&mut self) -> Result<(), varlink::Error> {
        match self {
            Call::V(c) => c.oneway(),
            Call::T(c) => c.oneway(),
        }
    }
    fn more(&mut self) -> Result<(), varlink::Error> {
        match self {
            Call::V(c) => c.more().map(|_| ()),
            Call::T(c) => c.more().map(|_| ()),
        }
    }
    fn next(&mut self) -> Option<Result<Value, varlink::Error>> {
        match self {
            Call::V(c) => c.next(),
            Call::T(c) => c.next().map(typed_value),
        }
    }
}

const MARK_IOERR: u8 = 0x01;
const MARK_RESET: u8 = 0x02;
const BLOCK_TIMEOUT_MS: u64 = 250;
/// every case runs on a worker thread; one that has not finished by then is reported as `(timeout N)`
const CASE_DEADLINE_S: u64 = 8;
static STUCK_EVENTS: std::sync::atomic::AtomicUsize = std::sync::atomic::AtomicUsize::new(0);

thread_local! {
    static WORKER_ID: Cell<usize> = Cell::new(usize::MAX);
}

// ---------------------------------------------------------------------------
// canonical forms

pub fn reply_sx(r: &Reply) -> Sx {
    sx::tagged(
        "r",
        vec![sx::opt_bool(r.continues), sx::opt_str(r.error.as_deref()), sx::opt_json(r.parameters.as_ref())],
    )
}

pub fn reply_of_sx(s: &Sx) -> Option<Reply> {
    let l = s.as_list()?;
    if l.first()?.as_atom()? != "r" {
        return None;
    }
    let c = l.get(1)?.as_opt_bool()?;
    let e = match l.get(2)?.as_atom()? {
        "-" => None,
        _ => Some(l.get(2)?.as_str()?),
    };
    let p = match l.get(3)? {
        Sx::Atom(a) if a == "-" => None,
        x => Some(x.to_json()?),
    };
    Some(Reply { continues: c, error: e.map(|s| s.into()), parameters: p })
}

pub fn kind_sx(k: &ErrorKind, blocked: bool) -> Sx {
    match k {
        ErrorKind::Io(_) if blocked => sx::atom("blocked"),
        ErrorKind::Io(_) => sx::atom("io"),
        ErrorKind::ConnectionClosed => sx::atom("closed"),
        ErrorKind::SerdeJsonSer(_) => sx::atom("badjson"),
        ErrorKind::InterfaceNotFound(s) => sx::tagged("inf", vec![sx::xs(s)]),
        ErrorKind::InvalidParameter(s) => sx::tagged("ip", vec![sx::xs(s)]),
        ErrorKind::MethodNotFound(s) => sx::tagged("mnf", vec![sx::xs(s)]),
        ErrorKind::MethodNotImplemented(s) => sx::tagged("mni", vec![sx::xs(s)]),
        ErrorKind::VarlinkErrorReply(r) => {
            sx::tagged("reply", vec![sx::opt_bool(r.continues), sx::opt_str(r.error.as_deref()), sx::opt_json(r.parameters.as_ref())])
        }
        ErrorKind::MethodCalledAlready => sx::atom("called"),
        ErrorKind::ConnectionBusy => sx::atom("busy"),
        ErrorKind::IteratorOldReply => sx::atom("old"),
        other => sx::tagged("other", vec![sx::xs(&format!("{:?}", other).chars().take(24).collect::<String>())]),
    }
}

fn res_value(r: Result<Value, varlink::Error>, blocked: bool) -> Sx {
    match r {
        Ok(v) => sx::tagged("ok", vec![sx::json(&v)]),
        Err(e) => sx::tagged("err", vec![kind_sx(e.kind(), blocked)]),
    }
}

fn res_unit<T>(r: Result<T, varlink::Error>, blocked: bool) -> Sx {
    match r {
        Ok(_) => sx::atom("unit"),
        Err(e) => sx::tagged("err", vec![kind_sx(e.kind(), blocked)]),
    }
}

/// what the server received, as a raw JSON view (null and absent stay distinct)
pub fn req_sx(frame: &[u8]) -> Sx {
    let raw = || sx::tagged("rawreq", vec![sx::bs(frame)]);
    let v: Value = match serde_json::from_slice(frame) {
        Ok(v) => v,
        Err(_) => return raw(),
    };
    let o = match v.as_object() {
        Some(o) => o,
        None => return raw(),
    };
    if !o.keys().all(|k| ["more", "oneway", "upgrade", "method", "parameters"].contains(&k.as_str())) {
        return raw();
    }
    let flag = |k: &str| -> Option<Option<bool>> {
        match o.get(k) {
            None => Some(None),
            Some(Value::Bool(b)) => Some(Some(*b)),
            _ => None,
        }
    };
    match (flag("more"), flag("oneway"), flag("upgrade"), o.get("method").and_then(|m| m.as_str())) {
        (Some(m), Some(ow), Some(up), Some(meth)) => sx::tagged(
            "req",
            vec![sx::opt_bool(m), sx::opt_bool(ow), sx::opt_bool(up), sx::xs(meth), sx::opt_json(o.get("parameters"))],
        ),
        _ => raw(),
    }
}

// ---------------------------------------------------------------------------
// reader / writer wrappers around the client's end of the socketpair

/// scheduler shared by the worker threads of a `gated` case
pub struct Ctl {
    pub st: Mutex<CtlState>,
    pub cv: Condvar,
}

pub struct CtlState {
    pub go: Vec<bool>,
    pub acks: Vec<u64>,
    pub at_gate: Vec<bool>,
    pub finished: Vec<bool>,
    pub abort: bool,
}

impl Ctl {
    fn new(n: usize) -> Arc<Ctl> {
        Arc::new(Ctl {
            st: Mutex::new(CtlState { go: vec![false; n], acks: vec![0; n], at_gate: vec![false; n], finished: vec![false; n], abort: false }),
            cv: Condvar::new(),
        })
    }
    /// worker side: report a stable point and wait for permission to go on
    fn pause(&self, t: usize, at_gate: bool) {
        let mut st = self.st.lock().unwrap();
        st.at_gate[t] = at_gate;
        st.acks[t] += 1;
        self.cv.notify_all();
        while !st.go[t] && !st.abort {
            st = self.cv.wait(st).unwrap();
        }
        st.go[t] = false;
        st.at_gate[t] = false;
    }
    fn finish(&self, t: usize) {
        let mut st = self.st.lock().unwrap();
        st.finished[t] = true;
        st.acks[t] += 1;
        self.cv.notify_all();
    }
    /// scheduler side: let thread t run to its next stable point; false on timeout
    fn kick(&self, t: usize) -> bool {
        let mut st = self.st.lock().unwrap();
        let before = st.acks[t];
        st.go[t] = true;
        self.cv.notify_all();
        // good code reaches its next stable point within microseconds; once operations have been seen to
        // block a few times in this run, do not spend seconds on every further case
        let wait = if STUCK_EVENTS.load(Ordering::SeqCst) >= 3 { Duration::from_millis(100) } else { Duration::from_secs(2) };
        let deadline = std::time::Instant::now() + wait;
        while st.acks[t] == before {
            let now = std::time::Instant::now();
            if now >= deadline {
                STUCK_EVENTS.fetch_add(1, Ordering::SeqCst);
                return false;
            }
            let (g, _) = self.cv.wait_timeout(st, deadline - now).unwrap();
            st = g;
        }
        true
    }
}

pub struct FaultReader {
    inner: UnixStream,
    pending: Vec<u8>,
    eof: bool,
    blocked: Arc<AtomicBool>,
    /// deliver at most one frame per read() and pass the gate before each
    gate: Option<Arc<Ctl>>,
}

impl Read for FaultReader {
    fn read(&mut self, buf: &mut [u8]) -> std::io::Result<usize> {
        if buf.is_empty() {
            return Ok(0);
        }
        if self.pending.is_empty() {
            if let Some(ctl) = &self.gate {
                let t = WORKER_ID.with(|w| w.get());
                if t != usize::MAX {
                    ctl.pause(t, true);
                }
            }
            // gated: fill until a whole frame, a marker or EOF is there (one frame per permission);
            // otherwise hand on whatever one read of the socket delivers, so that the pieces in which
            // the peer wrote a reply reach the library's own buffering unchanged
            let mut first = true;
            while !self.eof
                && (first || self.gate.is_some())
                && !self.pending.iter().any(|b| *b == 0 || *b == MARK_IOERR || *b == MARK_RESET)
            {
                first = false;
                let mut tmp = [0u8; 4096];
                match self.inner.read(&mut tmp) {
                    Ok(0) => self.eof = true,
                    Ok(n) => self.pending.extend_from_slice(&tmp[..n]),
                    Err(e) if e.kind() == std::io::ErrorKind::Interrupted => {}
                    Err(e) if e.kind() == std::io::ErrorKind::WouldBlock || e.kind() == std::io::ErrorKind::TimedOut => {
                        self.blocked.store(true, Ordering::SeqCst);
                        return Err(std::io::Error::new(std::io::ErrorKind::TimedOut, "blocked"));
                    }
                    Err(e) => return Err(e),
                }
            }
        }
        if self.pending.is_empty() {
            return Ok(0);
        }
        match self.pending[0] {
            MARK_IOERR => {
                self.pending.remove(0);
                return Err(std::io::Error::new(std::io::ErrorKind::Other, "injected"));
            }
            MARK_RESET => {
                self.pending.remove(0);
                return Err(std::io::Error::new(std::io::ErrorKind::ConnectionReset, "injected"));
            }
            _ => {}
        }
        let mut n = self.pending.len().min(buf.len());
        if let Some(m) = self.pending[..n].iter().position(|b| *b == MARK_IOERR || *b == MARK_RESET) {
            n = m;
        }
        if self.gate.is_some() {
            if let Some(z) = self.pending[..n].iter().position(|b| *b == 0) {
                n = z + 1;
            }
        }
        buf[..n].copy_from_slice(&self.pending[..n]);
        self.pending.drain(..n);
        Ok(n)
    }
}

pub struct FaultWriter {
    inner: UnixStream,
    budget: Option<usize>,
}

impl Write for FaultWriter {
    fn write(&mut self, buf: &[u8]) -> std::io::Result<usize> {
        if let Some(b) = self.budget.as_mut() {
            if *b == 0 {
                return Err(std::io::Error::new(std::io::ErrorKind::Other, "injected write failure"));
            }
            *b -= 1;
        }
        self.inner.write_all(buf)?;
        Ok(buf.len())
    }
    fn flush(&mut self) -> std::io::Result<()> {
        self.inner.flush()
    }
}

pub struct Rig {
    pub conn: Arc<RwLock<Connection>>,
    pub client_end: UnixStream,
    pub server_end: UnixStream,
    pub blocked: Arc<AtomicBool>,
}

pub fn rig(wbudget: Option<usize>, gate: Option<Arc<Ctl>>) -> Rig {
    let (cl, sv) = UnixStream::pair().expect("socketpair");
    let blocked = Arc::new(AtomicBool::new(false));
    let rd = cl.try_clone().unwrap();
    rd.set_read_timeout(Some(Duration::from_millis(BLOCK_TIMEOUT_MS))).unwrap();
    let reader = FaultReader { inner: rd, pending: Vec::new(), eof: false, blocked: blocked.clone(), gate };
    let writer = FaultWriter { inner: cl.try_clone().unwrap(), budget: wbudget };
    let mut c = Connection::default();
    c.reader = Some(BufReader::new(Box::new(reader)));
    c.writer = Some(Box::new(writer));
    Rig { conn: Arc::new(RwLock::new(c)), client_end: cl, server_end: sv, blocked }
}

// ---------------------------------------------------------------------------
// servers

#[derive(Clone)]
struct Group {
    close: bool,
    bytes: Vec<u8>,
    /// offsets at which the server pauses between two writes
    cuts: Vec<usize>,
}

/// write `bytes` in the pieces given by `cuts`, with a pause between two pieces
pub fn write_in_pieces(w: &mut dyn Write, bytes: &[u8], cuts: &[usize]) {
    let mut cs: Vec<usize> = cuts.iter().cloned().filter(|c| *c > 0 && *c < bytes.len()).collect();
    cs.sort();
    cs.dedup();
    let mut prev = 0;
    for c in cs {
        let _ = w.write_all(&bytes[prev..c]);
        let _ = w.flush();
        std::thread::sleep(Duration::from_millis(12));
        prev = c;
    }
    let _ = w.write_all(&bytes[prev..]);
    let _ = w.flush();
}

/// offsets right before UTF-8 continuation bytes: a cut there splits a character
pub fn char_splitting_offsets(bytes: &[u8]) -> Vec<usize> {
    bytes.iter().enumerate().filter(|(_, b)| (**b & 0xC0) == 0x80).map(|(i, _)| i).collect()
}

/// a reply (JSON text) whose multi-byte characters start at byte offset `at` of the text
pub fn big_reply_text(cont: Option<bool>, at: usize) -> Vec<u8> {
    let head = match cont {
        Some(c) => format!("{{\"continues\":{},\"parameters\":{{\"pad\":\"", c),
        None => "{\"parameters\":{\"pad\":\"".to_string(),
    };
    let mut s = head.clone();
    while s.len() < at {
        s.push('x');
    }
    s.push_str("€€é😀");
    s.push_str("\",\"tail\":\"ü\"}}");
    s.into_bytes()
}

fn parse_groups(s: &Sx) -> Vec<Group> {
    let mut out = Vec::new();
    for g in &s.as_list().unwrap()[1..] {
        let gl = g.as_list().unwrap();
        let close = gl[1].as_atom() == Some("t");
        let mut bytes = Vec::new();
        let mut cuts = Vec::new();
        for f in &gl[2..] {
            let fl = f.as_list().unwrap();
            match fl[0].as_atom().unwrap() {
                "cuts" => cuts = fl[1..].iter().filter_map(|c| c.as_usize()).collect(),
                "f" => {
                    bytes.extend_from_slice(&fl[1].as_bytes().unwrap());
                    bytes.push(0);
                }
                "part" => bytes.extend_from_slice(&fl[1].as_bytes().unwrap()),
                "ioerr" => {
                    // optionally some bytes of a reply arrive before the read fails
                    if let Some(b) = fl.get(2).and_then(|b| b.as_bytes()) {
                        bytes.extend_from_slice(&b);
                    }
                    bytes.push(if fl[1].as_atom() == Some("t") { MARK_RESET } else { MARK_IOERR })
                }
                other => panic!("frame kind {}", other),
            }
        }
        out.push(Group { close, bytes, cuts });
    }
    out
}

/// scripted server: group 0 on connect, group n after the n-th request; returns the request log
fn scripted_server(sv: UnixStream, groups: Vec<Group>) -> std::thread::JoinHandle<Vec<Vec<u8>>> {
    std::thread::spawn(move || {
        let mut w = sv.try_clone().unwrap();
        let mut rd = BufReader::new(sv);
        let mut log: Vec<Vec<u8>> = Vec::new();
        let mut closed = false;
        let mut send = |n: usize, closed: &mut bool| {
            if let Some(g) = groups.get(n) {
                if !*closed {
                    write_in_pieces(&mut w, &g.bytes, &g.cuts);
                    if g.close {
                        let _ = w.shutdown(Shutdown::Write);
                        *closed = true;
                    }
                }
            }
        };
        send(0, &mut closed);
        loop {
            let mut buf = Vec::new();
            match rd.read_until(0, &mut buf) {
                Ok(0) | Err(_) => break,
                Ok(_) => {
                    if buf.last() == Some(&0) {
                        buf.pop();
                        log.push(buf);
                        let n = log.len();
                        send(n, &mut closed);
                    } else {
                        log.push(buf); // dangling bytes: show them
                        break;
                    }
                }
            }
        }
        log
    })
}

/// the echo service of the thread cases: one final reply per non-oneway request, preceded by
/// `k` continues replies when the request carries `more`; `err` turns the final reply into an error
pub fn echo_frames(req: &Value) -> Vec<Value> {
    let o = req.as_object();
    let flag = |k: &str| o.and_then(|o| o.get(k)).and_then(|v| v.as_bool()).unwrap_or(false);
    if flag("oneway") {
        return Vec::new();
    }
    let p = o.and_then(|o| o.get("parameters")).cloned().unwrap_or(Value::Null);
    let tok = p.get("token").cloned().unwrap_or(Value::Null);
    let k = if flag("more") { p.get("k").and_then(|k| k.as_u64()).unwrap_or(0) } else { 0 };
    let mut out = Vec::new();
    for i in 0..k {
        out.push(json!({"continues": true, "parameters": {"i": i, "token": tok}}));
    }
    match p.get("err").and_then(|e| e.as_str()) {
        Some(name) => out.push(json!({"error": name, "parameters": {"i": k, "token": tok}})),
        None => out.push(json!({"parameters": {"i": k, "token": tok}})),
    }
    out
}

fn echo_server(sv: UnixStream) -> std::thread::JoinHandle<Vec<Vec<u8>>> {
    std::thread::spawn(move || {
        let mut w = sv.try_clone().unwrap();
        let mut rd = BufReader::new(sv);
        let mut log: Vec<Vec<u8>> = Vec::new();
        loop {
            let mut buf = Vec::new();
            match rd.read_until(0, &mut buf) {
                Ok(0) | Err(_) => break,
                Ok(_) => {
                    if buf.last() == Some(&0) {
                        buf.pop();
                    }
                    let v: Value = serde_json::from_slice(&buf).unwrap_or(Value::Null);
                    log.push(buf);
                    // a slow method: the reply is withheld for `delay` ms
                    if let Some(d) = v.get("parameters").and_then(|p| p.get("delay")).and_then(|d| d.as_u64()) {
                        std::thread::sleep(Duration::from_millis(d));
                    }
                    let mut out = Vec::new();
                    for f in echo_frames(&v) {
                        out.extend_from_slice(serde_json::to_string(&f).unwrap().as_bytes());
                        out.push(0);
                    }
                    let _ = w.write_all(&out);
                    let _ = w.flush();
                }
            }
        }
        log
    })
}

// ---------------------------------------------------------------------------
// running operations

#[derive(Clone, Debug)]
enum Op {
    Call(usize),
    Upgrade(usize),
    Oneway(usize),
    More(usize),
    Next(usize),
    Recv(usize),
}

impl Op {
    fn obj(&self) -> usize {
        match self {
            Op::Call(i) | Op::Upgrade(i) | Op::Oneway(i) | Op::More(i) | Op::Next(i) | Op::Recv(i) => *i,
        }
    }
    fn sx(&self) -> Sx {
        let (n, i) = match self {
            Op::Call(i) => ("call", i),
            Op::Upgrade(i) => ("upgrade", i),
            Op::Oneway(i) => ("oneway", i),
            Op::More(i) => ("more", i),
            Op::Next(i) => ("next", i),
            Op::Recv(i) => ("recv", i),
        };
        sx::tagged(n, vec![sx::nat(*i)])
    }
}

fn parse_op(s: &Sx) -> Op {
    let l = s.as_list().unwrap();
    let i = l[1].as_usize().unwrap();
    match l[0].as_atom().unwrap() {
        "call" => Op::Call(i),
        "upgrade" => Op::Upgrade(i),
        "oneway" => Op::Oneway(i),
        "more" => Op::More(i),
        "next" => Op::Next(i),
        "recv" => Op::Recv(i),
        other => panic!("op {}", other),
    }
}

fn parse_objs(s: &Sx) -> Vec<(String, ReqArg)> {
    s.as_list().unwrap()[1..]
        .iter()
        .map(|o| {
            let l = o.as_list().unwrap();
            let arg = if l[1].as_atom() == Some("unser") { ReqArg::Unser } else { ReqArg::V(l[1].to_json().unwrap()) };
            (l[0].as_str().unwrap(), arg)
        })
        .collect()
}

/// call objects of a case that go through the typed service client: `(x<method> <params> svc)`
fn svc_objs(s: &Sx) -> HashMap<usize, String> {
    let mut m = HashMap::new();
    for (i, o) in s.as_list().unwrap()[1..].iter().enumerate() {
        let l = o.as_list().unwrap();
        if l.get(2).and_then(|a| a.as_atom()) == Some("svc") {
            let iface = l[1].to_json().and_then(|p| p.get("interface").and_then(|i| i.as_str().map(|s| s.to_string()))).unwrap_or_default();
            m.insert(i, iface);
        }
    }
    m
}

/// `OrgVarlinkServiceClient::get_interface_description` — one client object per case, asked repeatedly
fn exec_svc(client: &mut varlink::OrgVarlinkServiceClient, iface: &str, blocked: &AtomicBool) -> Sx {
    use varlink::OrgVarlinkServiceInterface;
    let r = client.get_interface_description(iface.to_string());
    res_value(r.map(|d| serde_json::to_value(d).unwrap()), blocked.load(Ordering::SeqCst))
}

fn exec_op(objs: &mut HashMap<usize, Call>, op: &Op, blocked: &AtomicBool) -> Sx {
    let c = match objs.get_mut(&op.obj()) {
        Some(c) => c,
        None => return sx::atom("noobj"),
    };
    let r = match op {
        Op::Call(_) => {
            let r = c.call();
            res_value(r, blocked.load(Ordering::SeqCst))
        }
        Op::Upgrade(_) => {
            let r = c.upgrade();
            res_value(r, blocked.load(Ordering::SeqCst))
        }
        Op::Recv(_) => {
            let r = c.recv();
            res_value(r, blocked.load(Ordering::SeqCst))
        }
        Op::Oneway(_) => {
            let r = c.oneway();
            res_unit(r, blocked.load(Ordering::SeqCst))
        }
        Op::More(_) => {
            let r = c.more();
            res_unit(r, blocked.load(Ordering::SeqCst))
        }
        Op::Next(_) => match c.next() {
            None => sx::atom("none"),
            Some(r) => res_value(r, blocked.load(Ordering::SeqCst)),
        },
    };
    r
}

/// a panic inside the library (e.g. a poisoned lock) is an observation of that operation
fn exec_op_caught(objs: &mut HashMap<usize, Call>, op: &Op, blocked: &AtomicBool) -> Sx {
    match std::panic::catch_unwind(std::panic::AssertUnwindSafe(|| exec_op(objs, op, blocked))) {
        Ok(r) => r,
        Err(_) => sx::tagged("err", vec![sx::tagged("other", vec![sx::xs("panic")])]),
    }
}

fn is_blocked(res: &Sx) -> bool {
    res.render() == "(err blocked)"
}

fn slots_sx(conn: &Arc<RwLock<Connection>>) -> Sx {
    // never wait for ever for the lock: an implementation that keeps it while blocked must not wedge the harness
    let patience = if STUCK_EVENTS.load(Ordering::SeqCst) >= 3 { 50 } else { 500 };
    let deadline = std::time::Instant::now() + Duration::from_millis(patience);
    let c = loop {
        match conn.try_read() {
            Ok(c) => break c,
            Err(std::sync::TryLockError::Poisoned(p)) => break p.into_inner(),
            Err(std::sync::TryLockError::WouldBlock) => {
                if std::time::Instant::now() > deadline {
                    return sx::tagged("slots", vec![sx::atom("-"), sx::atom("-")]);
                }
                std::thread::sleep(Duration::from_millis(1));
            }
        }
    };
    sx::tagged("slots", vec![sx::boolean(c.reader.is_some()), sx::boolean(c.writer.is_some())])
}

fn run_seq(input: &Sx) -> Sx {
    let l = input.as_list().unwrap();
    let objs_spec = parse_objs(&l[1]);
    let ops: Vec<Op> = l[2].as_list().unwrap()[1..].iter().map(parse_op).collect();
    let groups = parse_groups(&l[3]);
    let wbudget = l[4].as_usize();
    let typed = l.get(5).map(|r| r.render() == "(rtype typed)").unwrap_or(false);
    let rig = rig(wbudget, None);
    let server = scripted_server(rig.server_end.try_clone().unwrap(), groups);
    drop(rig.server_end);
    let svc = svc_objs(&l[1]);
    let mut client = varlink::OrgVarlinkServiceClient::new(rig.conn.clone());
    let mut objs: HashMap<usize, Call> = HashMap::new();
    for (i, (m, p)) in objs_spec.iter().enumerate() {
        // (service-client objects get a plain twin for the operations that do not send)
        objs.insert(i, Call::new(rig.conn.clone(), m.clone(), p.clone(), typed));
    }
    let mut res = vec![sx::atom("res")];
    let mut blocked = false;
    for op in &ops {
        let r = match (op, svc.get(&op.obj())) {
            (Op::Call(_), Some(iface)) => exec_svc(&mut client, iface, &rig.blocked),
            _ => exec_op(&mut objs, op, &rig.blocked),
        };
        if is_blocked(&r) {
            blocked = true;
            break;
        }
        res.push(sx::list(vec![sx::nat(0), r]));
    }
    let slots = if blocked { sx::tagged("slots", vec![sx::atom("-"), sx::atom("-")]) } else { slots_sx(&rig.conn) };
    drop(objs);
    drop(client);
    drop(rig.conn);
    let _ = rig.client_end.shutdown(Shutdown::Both);
    let log = server.join().unwrap_or_default();
    let mut logsx = vec![sx::atom("log")];
    logsx.extend(log.iter().map(|f| req_sx(f)));
    sx::tagged("obs", vec![sx::list(res), sx::list(logsx), slots, sx::boolean(blocked)])
}

fn parse_progs(s: &Sx) -> Vec<Vec<Op>> {
    s.as_list().unwrap()[1..].iter().map(|p| p.as_list().unwrap()[1..].iter().map(parse_op).collect()).collect()
}

/// 2..8 real threads on one Arc<RwLock<Connection>>; the schedule of the case decides which thread
/// performs its next atomic step (a send under the write lock, or the read of one frame + restore)
fn run_gated(input: &Sx) -> Sx {
    let l = input.as_list().unwrap();
    let objs_spec = parse_objs(&l[1]);
    let progs = parse_progs(&l[2]);
    let sched: Vec<usize> = l[3].as_list().unwrap()[1..].iter().map(|t| t.as_usize().unwrap()).collect();
    let n = progs.len();
    let ctl = Ctl::new(n);
    let rig = rig(None, Some(ctl.clone()));
    let server = echo_server(rig.server_end.try_clone().unwrap());
    drop(rig.server_end);
    let trace: Arc<Mutex<Vec<Sx>>> = Arc::new(Mutex::new(Vec::new()));
    // each object belongs to the thread that uses it first in program order
    let mut owner: HashMap<usize, usize> = HashMap::new();
    for (t, p) in progs.iter().enumerate() {
        for op in p {
            owner.entry(op.obj()).or_insert(t);
        }
    }
    let mut handles = Vec::new();
    for (t, prog) in progs.iter().cloned().enumerate() {
        let mut objs: HashMap<usize, Call> = HashMap::new();
        let typed = false;
        for (i, (m, p)) in objs_spec.iter().enumerate() {
            if owner.get(&i) == Some(&t) {
                objs.insert(i, Call::new(rig.conn.clone(), m.clone(), p.clone(), typed));
            }
        }
        let ctl = ctl.clone();
        let trace = trace.clone();
        let blocked = rig.blocked.clone();
        handles.push(std::thread::spawn(move || {
            WORKER_ID.with(|w| w.set(t));
            for op in &prog {
                ctl.pause(t, false);
                if ctl.st.lock().unwrap().abort {
                    break;
                }
                let r = exec_op_caught(&mut objs, op, &blocked);
                trace.lock().unwrap().push(sx::list(vec![sx::nat(t), r]));
            }
            ctl.finish(t);
            drop(objs);
        }));
    }
    // wait until every worker sits at its first stable point
    for t in 0..n {
        let mut st = ctl.st.lock().unwrap();
        while st.acks[t] == 0 {
            st = ctl.cv.wait(st).unwrap();
        }
    }
    let mut pc = vec![0usize; n];
    let mut anomaly = String::new();
    for &t in &sched {
        if t >= n {
            continue;
        }
        let (fin, gate) = {
            let st = ctl.st.lock().unwrap();
            (st.finished[t], st.at_gate[t])
        };
        if fin {
            continue;
        }
        if gate {
            // the read of one frame, the restore, and the return of the operation
            if !ctl.kick(t) {
                anomaly = "stuck-after-gate".into();
                break;
            }
            continue;
        }
        // idle between operations (or all operations done: the kick lets the thread finish)
        let op = progs[t].get(pc[t]).cloned();
        pc[t] += 1;
        if !ctl.kick(t) {
            anomaly = "stuck-in-operation".into();
            break;
        }
        let (fin, gate) = {
            let st = ctl.st.lock().unwrap();
            (st.finished[t], st.at_gate[t])
        };
        if fin {
            continue;
        }
        if gate {
            if let Some(Op::Next(_)) | Some(Op::Recv(_)) = op {
                // reaching the reader is not a step of its own for operations that do not send
                if !ctl.kick(t) {
                    anomaly = "stuck-after-gate".into();
                    break;
                }
            }
        }
    }
    // observe, then stop: release everybody
    let snapshot: Vec<Sx> = trace.lock().unwrap().clone();
    let slots = slots_sx(&rig.conn);
    {
        let mut st = ctl.st.lock().unwrap();
        st.abort = true;
        ctl.cv.notify_all();
    }
    let _ = rig.client_end.shutdown(Shutdown::Both);
    for h in handles {
        let _ = h.join();
    }
    drop(rig.conn);
    let log = server.join().unwrap_or_default();
    let mut logsx = vec![sx::atom("log")];
    logsx.extend(log.iter().map(|f| req_sx(f)));
    let mut res = vec![sx::atom("res")];
    res.extend(snapshot);
    if !anomaly.is_empty() {
        res.push(sx::tagged("anomaly", vec![sx::xs(&anomaly)]));
    }
    sx::tagged("obs", vec![sx::list(res), sx::list(logsx), slots, sx::boolean(false)])
}

/// free-running threads: every operation that fails with ConnectionBusy *before having been sent*
/// cannot be retried on the same object (the object is spent), so a thread that meets `busy` takes the
/// next spare object for the same request and tries again (with yields in between)
fn run_free(input: &Sx) -> Sx {
    let l = input.as_list().unwrap();
    let objs_spec = parse_objs(&l[1]);
    let progs = parse_progs(&l[2]);
    let seed = l[3].as_usize().unwrap() as u64;
    let n = progs.len();
    let rig = rig(None, None);
    let server = echo_server(rig.server_end.try_clone().unwrap());
    drop(rig.server_end);
    let start = Arc::new(std::sync::Barrier::new(n));
    let mut handles = Vec::new();
    for (t, prog) in progs.iter().cloned().enumerate() {
        let conn = rig.conn.clone();
        let spec = objs_spec.clone();
        let blocked = rig.blocked.clone();
        let start = start.clone();
        let mut rng = Rng::new(seed.wrapping_mul(1000).wrapping_add(t as u64));
        handles.push(std::thread::spawn(move || {
            let mut results: Vec<Sx> = Vec::new();
            start.wait();
            // a connection that never becomes free again must not keep the threads spinning
            let deadline = std::time::Instant::now() + Duration::from_secs(3);
            let mut cur: HashMap<usize, Call> = HashMap::new();
            for op in &prog {
                let i = op.obj();
                loop {
                    for _ in 0..rng.below(4) {
                        std::thread::yield_now();
                    }
                    let sends = matches!(op, Op::Call(_) | Op::Upgrade(_) | Op::Oneway(_) | Op::More(_));
                    if sends {
                        let (m, p) = spec[i].clone();
                        cur.insert(i, Call::new(conn.clone(), m, p, false));
                    }
                    let r = exec_op_caught(&mut cur, op, &blocked);
                    if sends && r.render() == "(err busy)" && std::time::Instant::now() < deadline {
                        continue;
                    }
                    results.push(r);
                    break;
                }
            }
            drop(cur);
            results
        }));
    }
    let mut threads = vec![sx::atom("threads")];
    let mut anomaly = String::new();
    for h in handles {
        match h.join() {
            Ok(r) => threads.push(sx::list(r)),
            Err(_) => {
                anomaly = "thread-panicked".into();
                threads.push(sx::list(vec![]));
            }
        }
    }
    let slots = slots_sx(&rig.conn);
    let _ = rig.client_end.shutdown(Shutdown::Both);
    drop(rig.conn);
    let log = server.join().unwrap_or_default();
    // the global order is the observed linearisation; per-thread projections are schedule independent
    let mut per: Vec<Vec<Sx>> = vec![Vec::new(); n];
    let mut lin = vec![sx::atom("lin")];
    for f in &log {
        let v: Value = serde_json::from_slice(f).unwrap_or(Value::Null);
        let t = v.get("parameters").and_then(|p| p.get("thread")).and_then(|t| t.as_u64());
        match t {
            Some(t) if (t as usize) < n => {
                per[t as usize].push(req_sx(f));
                lin.push(sx::nat(t as usize));
            }
            _ => anomaly = "request-without-thread-tag".into(),
        }
    }
    // replay the observed linearisation sequentially on a fresh real connection: every thread must see the
    // same results as in the concurrent run
    let replay_same = replay_linearisation(&objs_spec, &progs, &lin[1..]) == threads[1..].to_vec();
    if !replay_same && anomaly.is_empty() {
        anomaly = "sequential-replay-of-the-observed-linearisation-differs".into();
    }
    let mut logs = vec![sx::atom("logs")];
    logs.extend(per.into_iter().map(sx::list));
    sx::tagged("free-obs", vec![sx::list(threads), sx::list(logs), slots, sx::xs(&anomaly)])
}

/// the threads' operations executed one after the other in the order in which their requests reached the
/// server (operations that send nothing run right after the preceding operation of their thread)
fn replay_linearisation(objs_spec: &[(String, ReqArg)], progs: &[Vec<Op>], lin: &[Sx]) -> Vec<Sx> {
    let rig = rig(None, None);
    let server = echo_server(rig.server_end.try_clone().unwrap());
    let mut pcs = vec![0usize; progs.len()];
    let mut objs: Vec<HashMap<usize, Call>> = (0..progs.len()).map(|_| HashMap::new()).collect();
    let mut results: Vec<Vec<Sx>> = vec![Vec::new(); progs.len()];
    let step = |t: usize, pcs: &mut Vec<usize>, objs: &mut Vec<HashMap<usize, Call>>, results: &mut Vec<Vec<Sx>>| {
        // run the sending operation and the non-sending operations that follow it
        let mut first = true;
        while pcs[t] < progs[t].len() {
            let op = &progs[t][pcs[t]];
            let sends = matches!(op, Op::Call(_) | Op::Upgrade(_) | Op::Oneway(_) | Op::More(_));
            if sends && !first {
                break;
            }
            if sends {
                let (m, p) = objs_spec[op.obj()].clone();
                objs[t].insert(op.obj(), Call::new(rig.conn.clone(), m, p, false));
            }
            let r = exec_op(&mut objs[t], op, &rig.blocked);
            results[t].push(r);
            pcs[t] += 1;
            first = false;
        }
    };
    // leading non-sending operations
    for t in 0..progs.len() {
        while pcs[t] < progs[t].len() && !matches!(progs[t][pcs[t]], Op::Call(_) | Op::Upgrade(_) | Op::Oneway(_) | Op::More(_)) {
            let op = &progs[t][pcs[t]];
            let r = exec_op(&mut objs[t], op, &rig.blocked);
            results[t].push(r);
            pcs[t] += 1;
        }
    }
    for e in lin {
        if let Some(t) = e.as_usize() {
            if t < progs.len() {
                step(t, &mut pcs, &mut objs, &mut results);
            }
        }
    }
    drop(objs);
    let _ = rig.client_end.shutdown(Shutdown::Both);
    drop(rig.conn);
    drop(rig.server_end);
    let _ = server.join();
    results.into_iter().map(sx::list).collect()
}

fn run_kind(input: &Sx) -> Sx {
    let l = input.as_list().unwrap();
    let r = reply_of_sx(&l[1]).expect("reply");
    sx::tagged("kind-obs", vec![kind_sx(&ErrorKind::from(r), false)])
}

// ---------------------------------------------------------------------------
// generators

const STD_ERRORS: [&str; 4] = [
    "org.varlink.service.InterfaceNotFound",
    "org.varlink.service.InvalidParameter",
    "org.varlink.service.MethodNotFound",
    "org.varlink.service.MethodNotImplemented",
];

fn gen_error_name(rng: &mut Rng) -> String {
    match rng.below(16) {
        0..=5 => STD_ERRORS[rng.below(4)].to_string(),
        // interface-defined errors that only LOOK like a standard one: same last component under another
        // interface, the standard name as a prefix or suffix of a longer one
        12 => format!("com.example.{}", STD_ERRORS[rng.below(4)].rsplit('.').next().unwrap()),
        13 => format!("org.varlink.service.sub.{}", STD_ERRORS[rng.below(4)].rsplit('.').next().unwrap()),
        14 => format!("{}.Extra", STD_ERRORS[rng.below(4)]),
        15 => STD_ERRORS[rng.below(4)].rsplit('.').next().unwrap().to_string(),
        6 => (*rng.pick(&["org.example.client.Custom", "com.example.InvalidParameter", "com.example.MethodNotFound", "x.MethodNotImplemented", "InterfaceNotFound"])).to_string(),
        7 => "org.varlink.service.InterfaceNotFoun".into(),
        8 => "org.varlink.service.interfacenotfound".into(),
        9 => String::new(),
        10 => "org.varlink.service.InvalidParameter ".into(),
        _ => "ü.é.Ошибка".into(),
    }
}

fn gen_leaf(rng: &mut Rng) -> Value {
    match rng.below(9) {
        0 => json!("s"),
        1 => json!("org.example.iface"),
        2 => json!("q\"uo\\te\n\u{0}\u{7f}ü→😀"),
        3 => json!(5),
        4 => Value::Null,
        5 => json!(true),
        6 => json!(1.5),
        7 => json!({}),
        _ => json!(["x"]),
    }
}

/// type-directed: the shapes serde's derive distinguishes for `struct { member: Option<String> }`
pub fn gen_error_params(rng: &mut Rng) -> Option<Value> {
    let member = *rng.pick(&["interface", "method", "parameter", "other", "Interface"]);
    match rng.below(16) {
        0 => None,
        1 => Some(Value::Null),
        2 => Some(json!({})),
        3..=5 => Some(json!({ member: "the.value" })),
        6 => Some(json!({ member: gen_leaf(rng) })),
        7 => Some(json!({ member: "v", "extra": gen_leaf(rng) })),
        8 => Some(json!({"interface": "i", "method": "m", "parameter": "p"})),
        9 => Some(json!(["positional"])),
        10 => Some(json!([])),
        11 => Some(json!(["a", "b"])),
        12 => Some(json!([gen_leaf(rng)])),
        13 => Some(gen_leaf(rng)),
        14 => Some(json!({ member: {"nested": "x"} })),
        _ => Some(json!({ member: "" })),
    }
}

/// parameters for a reply read by a `TypedReply` client: well-typed, ill-typed, missing, extra
fn gen_typed_params(rng: &mut Rng) -> Option<Value> {
    let n = rng.below(50) as i64 - 5;
    match rng.below(20) {
        0..=7 => Some(json!({"i": n})),
        8 => Some(json!({"i": n, "s": "text"})),
        9 => Some(json!({"i": n, "s": null})),
        10 => Some(json!({"i": n, "extra": [1, 2]})),
        11 => Some(json!({"i": "done"})),
        12 => Some(json!({})),
        13 => None,
        14 => Some(json!({"s": "only"})),
        15 => Some(json!([n])),
        16 => Some(json!({"i": 1.5})),
        17 => Some(json!({"i": 9223372036854775808u64})),
        18 => Some(json!({"i": n, "s": 7})),
        _ => Some(Value::Null),
    }
}

fn gen_ok_params(rng: &mut Rng, tok: &str) -> Option<Value> {
    if tok == "typed" {
        return gen_typed_params(rng);
    }
    match rng.below(10) {
        0 => None,
        1 => Some(Value::Null),
        2 => Some(json!({})),
        3 => Some(json!([1, "two", null])),
        4 => Some(json!(7)),
        5 => Some(json!({"token": tok, "big": 18446744073709551615u64, "neg": i64::MIN, "f": 0.1, "s": "q\"\\\n\u{1f}ü😀"})),
        _ => Some(json!({"token": tok, "i": rng.below(100)})),
    }
}

/// a reply as a JSON object on the wire (members may be null / ill-typed / unknown)
fn gen_reply_value(rng: &mut Rng, cont: Option<bool>, tok: &str) -> Value {
    let mut o = serde_json::Map::new();
    if let Some(c) = cont {
        o.insert("continues".into(), json!(c));
    }
    let is_err = rng.chance(2, 5);
    if is_err {
        o.insert("error".into(), json!(gen_error_name(rng)));
        if let Some(p) = gen_error_params(rng) {
            o.insert("parameters".into(), p);
        }
    } else {
        if rng.chance(1, 20) {
            o.insert("error".into(), Value::Null);
        }
        if let Some(p) = gen_ok_params(rng, tok) {
            o.insert("parameters".into(), p);
        }
    }
    if rng.chance(1, 25) {
        o.insert("unknown".into(), json!(1));
    }
    Value::Object(o)
}

fn dec_sx(bytes: &[u8]) -> Sx {
    match serde_json::from_slice::<Reply>(bytes) {
        Ok(r) => reply_sx(&r),
        Err(_) => sx::atom("bad"),
    }
}

pub fn frame_sx(bytes: &[u8]) -> Sx {
    sx::tagged("f", vec![sx::bs(bytes), dec_sx(bytes)])
}

/// what `serde_json::from_value::<TypedReply>` makes of the parameters of a reply (absent: `{}`)
fn typed_view(bytes: &[u8]) -> Sx {
    match serde_json::from_slice::<Reply>(bytes) {
        Ok(r) => {
            let p = r.parameters.unwrap_or_else(|| Value::Object(serde_json::Map::new()));
            match serde_json::from_value::<TypedReply>(p) {
                Ok(t) => sx::json(&serde_json::to_value(t).unwrap()),
                Err(_) => sx::atom("-"),
            }
        }
        Err(_) => sx::atom("-"),
    }
}

/// add the typed view to every frame of a case with a typed reply
fn annotate_typed(frame: &Sx) -> Sx {
    let l = match frame.as_list() {
        Some(l) => l,
        None => return frame.clone(),
    };
    match l[0].as_atom() {
        Some("f") => {
            let b = l[1].as_bytes().unwrap();
            sx::tagged("f", vec![l[1].clone(), l[2].clone(), typed_view(&b)])
        }
        Some("part") => {
            let b = l[1].as_bytes().unwrap();
            let cut = if b.is_empty() { &b[..] } else { &b[..b.len() - 1] };
            sx::tagged("part", vec![l[1].clone(), l[2].clone(), typed_view(cut)])
        }
        _ => frame.clone(),
    }
}

/// the bytes a list of frames puts on the wire
pub fn frames_to_bytes(frames: &[Sx]) -> Vec<u8> {
    let mut bytes = Vec::new();
    for f in frames {
        if let Some(fl) = f.as_list() {
            match fl[0].as_atom() {
                Some("f") => {
                    bytes.extend_from_slice(&fl[1].as_bytes().unwrap());
                    bytes.push(0);
                }
                Some("part") => bytes.extend_from_slice(&fl[1].as_bytes().unwrap()),
                Some("ioerr") => bytes.push(if fl[1].as_atom() == Some("t") { MARK_RESET } else { MARK_IOERR }),
                _ => {}
            }
        }
    }
    bytes
}

pub fn part_sx(bytes: &[u8]) -> Sx {
    let d = if bytes.is_empty() { sx::atom("bad") } else { dec_sx(&bytes[..bytes.len() - 1]) };
    sx::tagged("part", vec![sx::bs(bytes), d])
}

fn gen_garbage(rng: &mut Rng) -> Vec<u8> {
    match rng.below(8) {
        0 => b"{".to_vec(),
        1 => Vec::new(),
        2 => b"[1,2]".to_vec(),
        3 => b"{\"continues\":\"yes\"}".to_vec(),
        4 => b"{\"error\":5}".to_vec(),
        5 => vec![0xff, 0xfe, b'{', b'}'],
        6 => b"\"reply\"".to_vec(),
        _ => b"{\"parameters\":{}} trailing".to_vec(),
    }
}

fn reply_frame(rng: &mut Rng, cont: Option<bool>, tok: &str) -> Sx {
    let v = gen_reply_value(rng, cont, tok);
    let bytes = if rng.chance(1, 10) { serde_json::to_vec_pretty(&v).unwrap() } else { serde_json::to_vec(&v).unwrap() };
    frame_sx(&bytes)
}

struct SeqGen {
    objs: Vec<Sx>,
    ops: Vec<Op>,
    groups: Vec<Sx>, // groups[0] = initial
    tags: Vec<String>,
    // generator-side guess of the client state
    outstanding: Option<usize>,
    iter_left: usize,
    typed: bool,
    unser: Vec<usize>,
    svc: Vec<usize>,
    svc_count: usize,
}

impl SeqGen {
    fn new_obj(&mut self, rng: &mut Rng) -> usize {
        let i = self.objs.len();
        let params = match rng.below(8) {
            0 => Value::Null,
            1 => json!({}),
            2 => json!([i]),
            _ => json!({"token": format!("t{}", i), "n": rng.below(5)}),
        };
        if rng.chance(1, 12) {
            // a request whose Serialize impl fails
            self.objs.push(sx::list(vec![sx::xs(&format!("org.example.client.M{}", i)), sx::atom("unser")]));
            self.tags.push("obj:unserializable-request".into());
            self.unser.push(i);
        } else {
            self.objs.push(sx::list(vec![sx::xs(&format!("org.example.client.M{}", i)), sx::json(&params)]));
        }
        i
    }

    fn group(close: bool, frames: Vec<Sx>) -> Sx {
        let mut v = vec![sx::atom("g"), sx::boolean(close)];
        v.extend(frames);
        sx::list(v)
    }

    /// the group the server sends for a request of this kind; perturbed now and then
    fn push_group(&mut self, rng: &mut Rng, kind: &str, tok: &str) -> usize {
        let tok = if self.typed { "typed" } else { tok };
        let mut frames = Vec::new();
        let mut close = false;
        let mut k = 0;
        match kind {
            "oneway" => {
                if rng.chance(1, 25) {
                    frames.push(reply_frame(rng, None, tok));
                    self.tags.push("script:reply-to-oneway".into());
                }
            }
            "more" => {
                k = match rng.below(6) {
                    0 => 0,
                    1 => 1,
                    2 => 2,
                    3 => 3,
                    _ => rng.range(0, 8),
                };
                for _ in 0..k {
                    frames.push(reply_frame(rng, Some(true), tok));
                }
                let c = if rng.chance(1, 4) { Some(false) } else { None };
                frames.push(reply_frame(rng, c, tok));
            }
            _ => {
                if rng.chance(1, 15) {
                    // a service that streams without being asked
                    frames.push(reply_frame(rng, Some(true), tok));
                    self.tags.push("script:continues-to-plain-call".into());
                    k = 1;
                }
                let c = if rng.chance(1, 5) { Some(false) } else { None };
                frames.push(reply_frame(rng, c, tok));
            }
        }
        // perturbations
        match rng.below(60) {
            0 => {
                let at = rng.below(frames.len() + 1);
                frames.insert(at, frame_sx(&gen_garbage(rng)));
                self.tags.push("script:garbage".into());
            }
            1 => {
                let at = rng.below(frames.len() + 1);
                frames.insert(at, sx::tagged("ioerr", vec![sx::boolean(rng.chance(1, 2))]));
                self.tags.push("script:ioerr".into());
            }
            2 => {
                close = true;
                self.tags.push("script:close-after-group".into());
            }
            3 => {
                if !frames.is_empty() {
                    frames.pop();
                }
                close = true;
                self.tags.push("script:eof-instead-of-final".into());
            }
            4 => {
                if !frames.is_empty() {
                    frames.pop();
                }
                let v = gen_reply_value(rng, None, tok);
                let mut b = serde_json::to_vec(&v).unwrap();
                match rng.below(3) {
                    0 => b.truncate(b.len() / 2),
                    1 => b.push(b'x'),
                    _ => {}
                }
                frames.push(part_sx(&b));
                close = true;
                self.tags.push("script:partial-frame-then-eof".into());
            }
            5 => {
                frames.push(reply_frame(rng, None, tok));
                self.tags.push("script:extra-final".into());
            }
            _ => {}
        }
        // how the bytes travel: now and then a large reply whose multi-byte characters sit at the 8 KiB
        // buffer boundary, now and then a group written in pieces that split a character
        if !self.typed && rng.chance(1, 30) {
            let first_ok = frames.first().and_then(|f| f.as_list().map(|l| l.to_vec())).filter(|l| {
                l[0].as_atom() == Some("f") && l[2].as_list().map(|d| d.len() == 4 && d[2].as_atom() == Some("-")).unwrap_or(false)
            });
            if let Some(l) = first_ok {
                let cont = l[2].as_list().unwrap()[1].as_opt_bool().unwrap_or(None);
                let at = *rng.pick(&[8189usize, 8190, 8191, 8192, 8193, 16382, 16383, 16384, 300]);
                frames[0] = frame_sx(&big_reply_text(cont, at));
                self.tags.push("script:large-reply-multibyte-at-buffer-boundary".into());
            }
        }
        if rng.chance(1, 20) {
            let bytes = frames_to_bytes(&frames);
            let mut offs = char_splitting_offsets(&bytes);
            if offs.is_empty() && !bytes.is_empty() {
                offs.push(rng.below(bytes.len()));
            }
            if !offs.is_empty() {
                let mut cuts = vec![sx::atom("cuts")];
                for _ in 0..rng.range(1, 2) {
                    cuts.push(sx::nat(*rng.pick(&offs)));
                }
                frames.push(sx::list(cuts));
                self.tags.push("script:written-in-pieces".into());
            }
        }
        self.groups.push(Self::group(close, frames));
        k
    }
}

fn gen_seq(rng: &mut Rng, maxlen: usize) -> (Sx, Vec<String>) {
    let typed = rng.chance(1, 3);
    let mut g = SeqGen { objs: Vec::new(), ops: Vec::new(), groups: Vec::new(), tags: Vec::new(), outstanding: None, iter_left: 0, typed, unser: Vec::new(), svc: Vec::new(), svc_count: 0 };
    // initial group: almost always empty
    let init = match rng.below(40) {
        0 => {
            g.tags.push("script:unsolicited-initial-reply".into());
            vec![reply_frame(rng, None, "init")]
        }
        1 => {
            g.tags.push("script:closed-from-the-start".into());
            Vec::new()
        }
        _ => Vec::new(),
    };
    let init_close = g.tags.iter().any(|t| t == "script:closed-from-the-start");
    g.groups.push(SeqGen::group(init_close, init));
    let len = rng.range(1, maxlen);
    while g.ops.len() < len {
        let choice = rng.below(100);
        let busy = g.outstanding.is_some();
        if busy && g.iter_left > 0 && choice < 55 {
            // go on iterating
            let o = g.outstanding.unwrap();
            g.ops.push(if rng.chance(1, 8) { Op::Recv(o) } else { Op::Next(o) });
            g.iter_left -= 1;
            if g.iter_left == 0 {
                g.outstanding = None;
                if rng.chance(1, 2) {
                    g.ops.push(Op::Next(o));
                    g.tags.push("op:next-after-final".into());
                }
            }
            continue;
        }
        if false && !g.typed && rng.chance(1, 14) {
            // (kept for reference; the service-client cases are generated by gen_svc_case)
            // the typed service client (one client object per case): the same interface is asked again and again —
            // every time a request must go out (or ConnectionBusy come back), never a remembered answer
            let name = *rng.pick(&["org.example.a", "org.example.a", "org.example.b"]);
            let i = g.objs.len();
            g.objs.push(sx::list(vec![
                sx::xs("org.varlink.service.GetInterfaceDescription"),
                sx::json(&json!({"interface": name})),
                sx::atom("svc"),
            ]));
            g.svc.push(i);
            g.ops.push(Op::Call(i));
            g.tags.push(if busy { "op:service-client-while-busy".to_string() } else { "op:service-client".to_string() });
            if !busy {
                g.svc_count += 1;
                let v = if rng.chance(1, 4) {
                    json!({"error": "org.varlink.service.InvalidParameter", "parameters": {"parameter": "interface"}})
                } else {
                    json!({"parameters": {"description": format!("interface {} # answer {}", name, g.svc_count)}})
                };
                let f = frame_sx(&serde_json::to_vec(&v).unwrap());
                g.groups.push(SeqGen::group(false, vec![f]));
            }
            continue;
        }
        if choice < 30 {
            let i = g.new_obj(rng);
            g.ops.push(if rng.chance(1, 8) { Op::Upgrade(i) } else { Op::Call(i) });
            if g.unser.contains(&i) {
                g.tags.push(if busy { "op:unserializable-while-busy".to_string() } else { "op:unserializable-while-idle".to_string() });
            } else if busy {
                g.tags.push("op:new-call-while-busy".into());
            } else {
                let k = g.push_group(rng, "call", &format!("t{}", i));
                if k > 0 {
                    g.outstanding = Some(i);
                    g.iter_left = k;
                }
            }
        } else if choice < 50 {
            let i = g.new_obj(rng);
            g.ops.push(Op::More(i));
            if g.unser.contains(&i) {
                g.tags.push(if busy { "op:unserializable-while-busy".to_string() } else { "op:unserializable-while-idle".to_string() });
            } else if busy {
                g.tags.push("op:more-while-busy".into());
            } else {
                let k = g.push_group(rng, "more", &format!("t{}", i));
                g.outstanding = Some(i);
                g.iter_left = k + 1;
                g.tags.push(format!("stream:k={}", if k > 3 { "4+".to_string() } else { k.to_string() }));
            }
        } else if choice < 62 {
            let i = g.new_obj(rng);
            g.ops.push(Op::Oneway(i));
            if g.unser.contains(&i) {
                g.tags.push(if busy { "op:unserializable-while-busy".to_string() } else { "op:unserializable-while-idle".to_string() });
            } else if busy {
                g.tags.push("op:oneway-while-busy".into());
            } else {
                g.push_group(rng, "oneway", &format!("t{}", i));
            }
        } else if choice < 78 && !g.objs.is_empty() {
            // second send on an object that was used before
            let i = rng.below(g.objs.len());
            if g.svc.contains(&i) {
                continue;
            }
            let op = match rng.below(4) {
                0 => Op::Call(i),
                1 => Op::More(i),
                2 => Op::Oneway(i),
                _ => Op::Upgrade(i),
            };
            g.ops.push(op);
            g.tags.push("op:second-send-on-same-object".into());
        } else if choice < 88 && !g.objs.is_empty() {
            let i = rng.below(g.objs.len());
            if g.svc.contains(&i) {
                continue;
            }
            g.ops.push(if rng.chance(1, 2) { Op::Next(i) } else { Op::Recv(i) });
            g.tags.push("op:next-or-recv-on-arbitrary-object".into());
        } else if choice < 92 {
            let i = g.objs.len() + rng.below(2);
            g.ops.push(Op::Next(i));
            g.tags.push("op:missing-object".into());
        } else {
            // abandon the iteration: leave the stream outstanding
            if busy {
                g.tags.push("op:abandon-iteration".into());
                g.iter_left = 0;
            }
            let i = g.new_obj(rng);
            g.ops.push(Op::Call(i));
            if !busy && !g.unser.contains(&i) {
                let k = g.push_group(rng, "call", &format!("t{}", i));
                if k > 0 {
                    g.outstanding = Some(i);
                    g.iter_left = k;
                }
            }
        }
    }
    let wbudget = if rng.chance(1, 30) {
        g.tags.push("script:write-failure".into());
        sx::nat(rng.below(3))
    } else {
        sx::atom("-")
    };
    let mut objs = vec![sx::atom("objs")];
    objs.extend(g.objs);
    let mut ops = vec![sx::atom("ops")];
    ops.extend(g.ops.iter().map(|o| o.sx()));
    let mut groups = vec![sx::atom("groups")];
    if g.typed {
        g.tags.push("rtype:typed".into());
        for gr in &g.groups {
            let gl = gr.as_list().unwrap();
            let mut v = vec![gl[0].clone(), gl[1].clone()];
            v.extend(gl[2..].iter().map(annotate_typed));
            groups.push(sx::list(v));
        }
    } else {
        g.tags.push("rtype:value".into());
        groups.extend(g.groups.clone());
    }
    g.tags.push(format!("seq:len={}", match g.ops.len() { 0..=2 => "1-2", 3..=6 => "3-6", _ => "7-12" }));
    g.tags.sort();
    g.tags.dedup();
    let mut fields = vec![sx::list(objs), sx::list(ops), sx::list(groups), wbudget];
    if g.typed {
        fields.push(sx::tagged("rtype", vec![sx::atom("typed")]));
    }
    (sx::tagged("seq", fields), g.tags)
}

/// programs for the thread cases: every request carries its thread number and a unique token
fn gen_progs(rng: &mut Rng, nthreads: usize, maxops: usize, free: bool) -> (Sx, Sx) {
    let mut objs = vec![sx::atom("objs")];
    let mut progs = vec![sx::atom("progs")];
    let mut idx = 0usize;
    for t in 0..nthreads {
        let mut p = vec![sx::atom("p")];
        let n = rng.range(1, maxops);
        let mut count = 0;
        while count < n {
            let i = idx;
            idx += 1;
            let tok = format!("th{}-{}", t, i);
            match rng.below(10) {
                0..=4 => {
                    let mut params = json!({"token": tok, "thread": t});
                    if rng.chance(1, 5) {
                        params["err"] = json!(*rng.pick(&["org.example.client.Boom", "org.varlink.service.MethodNotFound"]));
                    }
                    objs.push(sx::list(vec![sx::xs("org.example.client.Echo"), sx::json(&params)]));
                    p.push(Op::Call(i).sx());
                    count += 1;
                }
                5..=6 => {
                    let k = rng.below(4);
                    objs.push(sx::list(vec![sx::xs("org.example.client.Stream"), sx::json(&json!({"token": tok, "thread": t, "k": k}))]));
                    p.push(Op::More(i).sx());
                    // free threads must finish the iteration (otherwise the others spin for ever)
                    let nexts = if free { k + 2 } else { rng.range(0, k + 2) };
                    for _ in 0..nexts {
                        p.push(Op::Next(i).sx());
                    }
                    count += 1 + nexts;
                }
                7 => {
                    objs.push(sx::list(vec![sx::xs("org.example.client.Fire"), sx::json(&json!({"token": tok, "thread": t}))]));
                    p.push(Op::Oneway(i).sx());
                    count += 1;
                }
                _ => {
                    objs.push(sx::list(vec![sx::xs("org.example.client.Echo"), sx::json(&json!({"token": tok, "thread": t}))]));
                    p.push(Op::Call(i).sx());
                    if !free {
                        // second send on the same object
                        p.push(if rng.chance(1, 2) { Op::Call(i).sx() } else { Op::Oneway(i).sx() });
                        count += 1;
                    }
                    count += 1;
                }
            }
        }
        progs.push(sx::list(p));
    }
    (sx::list(objs), sx::list(progs))
}

/// two connections, one thread: on the first the peer sends part of a reply and the read then fails;
/// the second connection must be unaffected
fn gen_seq2(rng: &mut Rng) -> (Sx, Vec<String>) {
    let v = json!({"parameters": {"token": "first", "pad": "x".repeat(rng.range(0, 40))}});
    let full = serde_json::to_vec(&v).unwrap();
    let cut = rng.range(1, full.len() - 1);
    let reset = rng.chance(1, 2);
    let more = rng.chance(1, 3);
    let mut ops = vec![sx::atom("ops"), if more { Op::More(0).sx() } else { Op::Call(0).sx() }];
    if more {
        ops.push(Op::Next(0).sx());
    }
    ops.push(Op::Recv(0).sx());
    let first = sx::tagged(
        "seq",
        vec![
            sx::list(vec![sx::atom("objs"), sx::list(vec![sx::xs("org.example.client.First"), sx::json(&json!({"token": "first"}))])]),
            sx::list(ops),
            sx::list(vec![
                sx::atom("groups"),
                SeqGen::group(false, vec![]),
                SeqGen::group(false, vec![sx::tagged("ioerr", vec![sx::boolean(reset), sx::bs(&full[..cut])])]),
            ]),
            sx::atom("-"),
        ],
    );
    let (second, mut tags) = loop {
        let (c, t) = gen_seq(rng, 6);
        if c.as_list().unwrap().len() == 5 {
            break (c, t);
        }
    };
    tags.push("seq2:read-error-after-part-of-a-reply-then-another-connection".into());
    (sx::tagged("seq2", vec![first, second]), tags)
}

/// the typed service client `OrgVarlinkServiceClient` (one client object per case) inside an operation sequence:
/// the same interface is asked repeatedly — after the service's answer changed, and while a `more` call is
/// outstanding.  Every time a request must go out (or ConnectionBusy come back), never a remembered answer.
fn gen_svc_case(rng: &mut Rng) -> (Sx, Vec<String>) {
    let mut objs: Vec<Sx> = Vec::new();
    let mut ops: Vec<Op> = Vec::new();
    let mut groups: Vec<Sx> = vec![SeqGen::group(false, vec![])];
    let mut answers = 0usize;
    let mut tags = vec!["svc:service-client-asked-repeatedly".to_string()];
    let svc = |objs: &mut Vec<Sx>, ops: &mut Vec<Op>, name: &str| {
        let i = objs.len();
        objs.push(sx::list(vec![
            sx::xs("org.varlink.service.GetInterfaceDescription"),
            sx::json(&json!({"interface": name})),
            sx::atom("svc"),
        ]));
        ops.push(Op::Call(i));
    };
    let mut answer = |rng: &mut Rng, groups: &mut Vec<Sx>, name: &str| {
        answers += 1;
        let v = if rng.chance(1, 4) {
            json!({"error": "org.varlink.service.InvalidParameter", "parameters": {"parameter": "interface"}})
        } else {
            json!({"parameters": {"description": format!("interface {} # answer {}", name, answers)}})
        };
        groups.push(SeqGen::group(false, vec![frame_sx(&serde_json::to_vec(&v).unwrap())]));
    };
    let steps = rng.range(2, 5);
    for _ in 0..steps {
        let name = *rng.pick(&["org.example.a", "org.example.a", "org.example.b"]);
        match rng.below(3) {
            0 | 1 => {
                svc(&mut objs, &mut ops, name);
                answer(rng, &mut groups, name);
            }
            _ => {
                // a stream is outstanding while the client is asked
                let k = rng.range(1, 2);
                let i = objs.len();
                objs.push(sx::list(vec![sx::xs("org.example.client.Stream"), sx::json(&json!({"token": format!("t{}", i)}))]));
                ops.push(Op::More(i));
                let mut fr = Vec::new();
                for n in 0..k {
                    fr.push(frame_sx(&serde_json::to_vec(&json!({"continues": true, "parameters": {"i": n}})).unwrap()));
                }
                fr.push(frame_sx(&serde_json::to_vec(&json!({"parameters": {"i": k}})).unwrap()));
                groups.push(SeqGen::group(false, fr));
                ops.push(Op::Next(i));
                svc(&mut objs, &mut ops, name); // busy: nothing written, no answer consumed
                tags.push("svc:asked-while-a-stream-is-outstanding".into());
                for _ in 0..k {
                    ops.push(Op::Next(i));
                }
                ops.push(Op::Next(i));
            }
        }
    }
    let mut o = vec![sx::atom("objs")];
    o.extend(objs);
    let mut p = vec![sx::atom("ops")];
    p.extend(ops.iter().map(|x| x.sx()));
    let mut g = vec![sx::atom("groups")];
    g.extend(groups);
    tags.dedup();
    (sx::tagged("seq", vec![sx::list(o), sx::list(p), sx::list(g), sx::atom("-")]), tags)
}

fn gen_gated(rng: &mut Rng) -> (Sx, Vec<String>) {
    let n = rng.range(2, 8);
    let (objs, progs) = gen_progs(rng, n, 5, false);
    let total: usize = progs.as_list().unwrap()[1..].iter().map(|p| p.as_list().unwrap().len() - 1).sum();
    let mut sched = vec![sx::atom("sched")];
    // enough entries to finish every thread with high probability, biased to bursts
    let mut left = total * 3 + 8;
    while left > 0 {
        let t = rng.below(n);
        let burst = if rng.chance(1, 3) { rng.range(1, 3) } else { 1 };
        for _ in 0..burst.min(left) {
            sched.push(sx::nat(t));
            left -= 1;
        }
    }
    // then round robin so that everybody finishes
    for r in 0..(total * 2 + 2) {
        sched.push(sx::nat(r % n));
    }
    (sx::tagged("gated", vec![objs, progs, sx::list(sched)]), vec![format!("gated:threads={}", n)])
}

fn gen_free(rng: &mut Rng) -> (Sx, Vec<String>) {
    let n = rng.range(2, 8);
    let (objs, progs) = gen_progs(rng, n, 6, true);
    (sx::tagged("free", vec![objs, progs, sx::nat(rng.below(1_000_000))]), vec![format!("free:threads={}", n)])
}

fn gen_kind(rng: &mut Rng) -> (Sx, Vec<String>) {
    let cont = match rng.below(4) {
        0 => Some(true),
        1 => Some(false),
        _ => None,
    };
    let (error, tag) = if rng.chance(1, 6) { (None, "kind:no-error") } else { (Some(gen_error_name(rng)), "kind:error") };
    let params = gen_error_params(rng);
    let r = Reply { continues: cont, error: error.map(|e| e.into()), parameters: params };
    (sx::tagged("kind", vec![reply_sx(&r)]), vec![tag.to_string()])
}

impl Suite for ClientSuite {
    fn generate(&self, ctx: &Ctx) -> Vec<Case> {
        let mut rng = Rng::new(ctx.seed ^ 0xC07);
        let mut cases = Vec::new();
        if let Ok(txt) = std::fs::read_to_string(concat!(env!("CARGO_MANIFEST_DIR"), "/corpus/client.txt")) {
            for l in txt.lines() {
                if l.trim_start().starts_with('(') {
                    if let Some(s) = sx::parse(l) {
                        cases.push(Case { input: s, tags: vec!["corpus".into()] });
                    }
                }
            }
        }
        let (n_kind, n_seq, n_gated, n_free) = if ctx.thorough { (6000, 40000, 6000, 1200) } else { (1000, 6000, 600, 80) };
        // every standard error name x every parameter shape, systematically
        for name in STD_ERRORS.iter().chain(["org.example.client.Custom"].iter()) {
            for member in ["interface", "method", "parameter", "x"] {
                for shape in 0..8 {
                    let p = match shape {
                        0 => None,
                        1 => Some(json!({ member: "v" })),
                        2 => Some(json!({ member: 5 })),
                        3 => Some(json!({ member: null })),
                        4 => Some(json!(["v"])),
                        5 => Some(json!(["v", "w"])),
                        6 => Some(json!([5])),
                        _ => Some(Value::Null),
                    };
                    let r = Reply { continues: None, error: Some((*name).into()), parameters: p };
                    cases.push(Case { input: sx::tagged("kind", vec![reply_sx(&r)]), tags: vec!["kind:systematic".into()] });
                }
            }
        }
        for _ in 0..n_kind {
            let (c, tags) = gen_kind(&mut rng);
            cases.push(Case { input: c, tags });
        }
        for _ in 0..n_seq {
            let (c, tags) = gen_seq(&mut rng, 12);
            cases.push(Case { input: c, tags });
        }
        for _ in 0..(n_seq / 30) {
            let (c, tags) = gen_svc_case(&mut rng);
            cases.push(Case { input: c, tags });
        }
        for _ in 0..(n_seq / 40) {
            let (c, tags) = gen_seq2(&mut rng);
            cases.push(Case { input: c, tags });
        }
        for _ in 0..n_gated {
            let (c, tags) = gen_gated(&mut rng);
            cases.push(Case { input: c, tags });
        }
        // the deterministic shape "B calls while A waits for a withheld reply" (real time)
        for (w, b) in [(600usize, 50usize), (450, 100)] {
            cases.push(Case { input: sx::tagged("timed", vec![sx::nat(w), sx::nat(b)]), tags: vec!["timed:busy-while-reply-withheld".into()] });
        }
        for _ in 0..n_free {
            let (c, tags) = gen_free(&mut rng);
            cases.push(Case { input: c, tags });
        }
        cases
    }

    fn run(&self, _ctx: &Ctx, input: &Sx) -> Sx {
        // the case body runs on its own thread with a deadline: a stuck case is an observation, and its
        // threads (own connection, own peer) are left behind without disturbing the following cases
        let inp = input.clone();
        let (tx, rx) = std::sync::mpsc::channel();
        std::thread::spawn(move || {
            let r = std::panic::catch_unwind(std::panic::AssertUnwindSafe(|| run_case(&inp)));
            let _ = tx.send(r);
        });
        match rx.recv_timeout(Duration::from_secs(CASE_DEADLINE_S)) {
            Ok(Ok(o)) => o,
            Ok(Err(e)) => std::panic::resume_unwind(e),
            Err(_) => sx::tagged("timeout", vec![sx::nat(CASE_DEADLINE_S as usize)]),
        }
    }
}

fn run_case(input: &Sx) -> Sx {
    match input.as_list().and_then(|l| l.first()).and_then(|a| a.as_atom()) {
        Some("kind") => run_kind(input),
        Some("seq") => run_seq(input),
        // two connections used one after the other by the same thread
        Some("seq2") => {
            let l = input.as_list().unwrap();
            sx::tagged("obs2", vec![run_seq(&l[1]), run_seq(&l[2])])
        }
        Some("gated") => run_gated(input),
        Some("free") => run_free(input),
        Some("timed") => run_timed(input),
        _ => sx::atom("unknown-case-kind"),
    }
}

/// (timed <withhold ms> <b after ms>): thread A calls a method whose reply the peer withholds; thread B calls
/// on the shared connection while A waits.  B must be refused at once — long before A's reply exists.
/// Observation: (timed-obs (a <res>) (b <res> fast|slow) (log <req>*) (slots r w))
fn run_timed(input: &Sx) -> Sx {
    let l = input.as_list().unwrap();
    let withhold = l[1].as_usize().unwrap() as u64;
    let b_after = l[2].as_usize().unwrap() as u64;
    let rig = rig(None, None);
    // the reply is withheld on purpose: the "would block" watchdog of the other case kinds must not fire
    let _ = rig.client_end.set_read_timeout(Some(Duration::from_secs(4)));
    let server = echo_server(rig.server_end.try_clone().unwrap());
    let conn_a = rig.conn.clone();
    let blocked_a = rig.blocked.clone();
    let a = std::thread::spawn(move || {
        let mut objs: HashMap<usize, Call> = HashMap::new();
        objs.insert(0, Call::new(conn_a, "org.example.client.Slow".into(), ReqArg::V(json!({"token": "A", "thread": 0, "delay": withhold})), false));
        exec_op_caught(&mut objs, &Op::Call(0), &blocked_a)
    });
    std::thread::sleep(Duration::from_millis(b_after));
    let conn_b = rig.conn.clone();
    let blocked_b = rig.blocked.clone();
    let (tx, rx) = std::sync::mpsc::channel();
    std::thread::spawn(move || {
        let mut objs: HashMap<usize, Call> = HashMap::new();
        objs.insert(1, Call::new(conn_b, "org.example.client.Echo".into(), ReqArg::V(json!({"token": "B", "thread": 1})), false));
        let t0 = std::time::Instant::now();
        let r = exec_op_caught(&mut objs, &Op::Call(1), &blocked_b);
        let _ = tx.send((r, t0.elapsed()));
    });
    // "at once": well before the withheld reply can exist
    let limit = Duration::from_millis((withhold - b_after) * 2 / 3);
    let (rb, speed) = match rx.recv_timeout(Duration::from_secs(4)) {
        Ok((r, el)) => (r, if el < limit { "fast" } else { "slow" }),
        Err(_) => (sx::atom("blocked"), "slow"),
    };
    let ra = a.join().unwrap_or(sx::atom("panic"));
    let slots = slots_sx(&rig.conn);
    let _ = rig.client_end.shutdown(Shutdown::Both);
    drop(rig.conn);
    drop(rig.server_end);
    let log = server.join().unwrap_or_default();
    let mut logsx = vec![sx::atom("log")];
    logsx.extend(log.iter().map(|f| req_sx(f)));
    sx::tagged(
        "timed-obs",
        vec![sx::tagged("a", vec![ra]), sx::tagged("b", vec![rb, sx::atom(speed)]), sx::list(logsx), slots],
    )
}
