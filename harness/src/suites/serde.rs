//! Suite `serde` (C17): the public wire data types of the `varlink` crate through the
//! REAL `serde_json::{to_string, to_vec, to_value}` x `{from_str, from_slice, from_value}`.
//!
//! Case input:
//!   (enc <ty> <tval> <fl>)      a typed value: serialize three ways, deserialize each encoding three ways
//!   (dec <ty> <rawjson> <fl>)   a raw JSON tree (objects in document order, duplicate keys possible):
//!                          printed as text by the harness, then from_str / from_slice /
//!                          from_value(from_str::<Value>(text))
//!   fl    = (fl (<bits> <bits'>)*)  serde_json's text layer on the floats of the case, measured by
//!           `generate` with the real serde_json: printing f64 <bits> and parsing the text back yields
//!           <bits'> (only the pairs that differ).  The text layer is a parameter of the model.
//!   (size-boundary cases: every collection-like type with 0, 1, 2, 1023, 1024, 1025, 4096, 10000 members)
//!   ty    = req | reply | info | desc | descargs | set | mapstr | mapint | mapoptstr | mapval
//!         | mapmapstr | mapset
//!   tval  = t | f | (i <int>) | (d <f64 bits>) | x<hex> | (j <json>) | - | (some tval)
//!         | (l tval*) | (m (x<key> tval)*) keys sorted | (S x<key>*) sorted | (r tval*) struct members
//!
//! Observation:
//!   enc: (obs (encs <json> <json> <json>) <same-bytes t|f> (rt <res>{9}))   order: for encoding in
//!        [string, vec, value] for decoder in [str, slice, value];  res = err | (ok <tval> <eq t|f>);
//!        `(rt9 <res>)` when all nine are the same
//!   dec: (obs <res> <res> <res>)   order str, slice, value;  res = err | (ok <tval> <json re-encoded>)
use crate::rng::Rng;
use crate::sx::{self, Sx};
use crate::{Case, Ctx, Suite};
use serde::de::DeserializeOwned;
use serde::Serialize;
use serde_json::Value;
use std::borrow::Cow;
use std::collections::HashMap;
use varlink::{
    GetInterfaceDescriptionArgs, GetInterfaceDescriptionReply, Reply, Request, ServiceInfo, StringHashMap,
    StringHashSet,
};

pub struct SerdeSuite;

// ---------------------------------------------------------------------------
// typed values <-> Sx

pub trait TV: Sized {
    fn from_sx(s: &Sx) -> Option<Self>;
    fn to_sx(&self) -> Sx;
}

impl TV for bool {
    fn from_sx(s: &Sx) -> Option<Self> {
        match s.as_atom()? {
            "t" => Some(true),
            "f" => Some(false),
            _ => None,
        }
    }
    fn to_sx(&self) -> Sx {
        sx::boolean(*self)
    }
}

impl TV for i64 {
    fn from_sx(s: &Sx) -> Option<Self> {
        let l = s.as_list()?;
        if l.len() == 2 && l[0].as_atom()? == "i" {
            l[1].as_atom()?.parse().ok()
        } else {
            None
        }
    }
    fn to_sx(&self) -> Sx {
        sx::list(vec![sx::atom("i"), sx::int(*self)])
    }
}

impl TV for String {
    fn from_sx(s: &Sx) -> Option<Self> {
        s.as_str()
    }
    fn to_sx(&self) -> Sx {
        sx::xs(self)
    }
}

impl TV for Value {
    fn from_sx(s: &Sx) -> Option<Self> {
        let l = s.as_list()?;
        if l.len() == 2 && l[0].as_atom()? == "j" {
            l[1].to_json()
        } else {
            None
        }
    }
    fn to_sx(&self) -> Sx {
        sx::list(vec![sx::atom("j"), sx::json(self)])
    }
}

impl<T: TV> TV for Option<T> {
    fn from_sx(s: &Sx) -> Option<Self> {
        if s.as_atom() == Some("-") {
            return Some(None);
        }
        let l = s.as_list()?;
        if l.len() == 2 && l[0].as_atom()? == "some" {
            T::from_sx(&l[1]).map(Some)
        } else {
            None
        }
    }
    fn to_sx(&self) -> Sx {
        match self {
            None => sx::atom("-"),
            Some(v) => sx::list(vec![sx::atom("some"), v.to_sx()]),
        }
    }
}

impl<T: TV> TV for Vec<T> {
    fn from_sx(s: &Sx) -> Option<Self> {
        let l = s.as_list()?;
        if l.first()?.as_atom()? != "l" {
            return None;
        }
        l[1..].iter().map(T::from_sx).collect()
    }
    fn to_sx(&self) -> Sx {
        let mut l = vec![sx::atom("l")];
        l.extend(self.iter().map(|x| x.to_sx()));
        sx::list(l)
    }
}

impl<T: TV> TV for HashMap<String, T> {
    fn from_sx(s: &Sx) -> Option<Self> {
        let l = s.as_list()?;
        if l.first()?.as_atom()? != "m" {
            return None;
        }
        let mut m = HashMap::new();
        for e in &l[1..] {
            let e = e.as_list()?;
            m.insert(e.first()?.as_str()?, T::from_sx(e.get(1)?)?);
        }
        Some(m)
    }
    fn to_sx(&self) -> Sx {
        let mut kv: Vec<(&String, &T)> = self.iter().collect();
        kv.sort_by(|a, b| a.0.as_bytes().cmp(b.0.as_bytes()));
        let mut l = vec![sx::atom("m")];
        l.extend(kv.into_iter().map(|(k, v)| sx::list(vec![sx::xs(k), v.to_sx()])));
        sx::list(l)
    }
}

impl TV for StringHashSet {
    fn from_sx(s: &Sx) -> Option<Self> {
        let l = s.as_list()?;
        if l.first()?.as_atom()? != "S" {
            return None;
        }
        let mut m = StringHashSet::new();
        for e in &l[1..] {
            m.insert(e.as_str()?);
        }
        Some(m)
    }
    fn to_sx(&self) -> Sx {
        let mut k: Vec<&String> = self.iter().collect();
        k.sort_by(|a, b| a.as_bytes().cmp(b.as_bytes()));
        let mut l = vec![sx::atom("S")];
        l.extend(k.into_iter().map(|k| sx::xs(k)));
        sx::list(l)
    }
}

fn rec(s: &Sx, n: usize) -> Option<&[Sx]> {
    let l = s.as_list()?;
    if l.len() == n + 1 && l[0].as_atom()? == "r" {
        Some(&l[1..])
    } else {
        None
    }
}

fn mkrec(v: Vec<Sx>) -> Sx {
    sx::tagged("r", v)
}

impl TV for Request<'static> {
    fn from_sx(s: &Sx) -> Option<Self> {
        let f = rec(s, 5)?;
        Some(Request {
            more: TV::from_sx(&f[0])?,
            oneway: TV::from_sx(&f[1])?,
            upgrade: TV::from_sx(&f[2])?,
            method: Cow::Owned(String::from_sx(&f[3])?),
            parameters: TV::from_sx(&f[4])?,
        })
    }
    fn to_sx(&self) -> Sx {
        mkrec(vec![
            self.more.to_sx(),
            self.oneway.to_sx(),
            self.upgrade.to_sx(),
            sx::xs(&self.method),
            self.parameters.to_sx(),
        ])
    }
}

impl TV for Reply {
    fn from_sx(s: &Sx) -> Option<Self> {
        let f = rec(s, 3)?;
        let e: Option<String> = TV::from_sx(&f[1])?;
        Some(Reply { continues: TV::from_sx(&f[0])?, error: e.map(Cow::Owned), parameters: TV::from_sx(&f[2])? })
    }
    fn to_sx(&self) -> Sx {
        mkrec(vec![
            self.continues.to_sx(),
            self.error.as_ref().map(|c| c.to_string()).to_sx(),
            self.parameters.to_sx(),
        ])
    }
}

impl TV for ServiceInfo {
    fn from_sx(s: &Sx) -> Option<Self> {
        let f = rec(s, 5)?;
        let is: Vec<String> = TV::from_sx(&f[4])?;
        Some(ServiceInfo {
            vendor: Cow::Owned(String::from_sx(&f[0])?),
            product: Cow::Owned(String::from_sx(&f[1])?),
            version: Cow::Owned(String::from_sx(&f[2])?),
            url: Cow::Owned(String::from_sx(&f[3])?),
            interfaces: is.into_iter().map(Cow::Owned).collect(),
        })
    }
    fn to_sx(&self) -> Sx {
        mkrec(vec![
            sx::xs(&self.vendor),
            sx::xs(&self.product),
            sx::xs(&self.version),
            sx::xs(&self.url),
            self.interfaces.iter().map(|c| c.to_string()).collect::<Vec<String>>().to_sx(),
        ])
    }
}

impl TV for GetInterfaceDescriptionReply {
    fn from_sx(s: &Sx) -> Option<Self> {
        let f = rec(s, 1)?;
        Some(GetInterfaceDescriptionReply { description: TV::from_sx(&f[0])? })
    }
    fn to_sx(&self) -> Sx {
        mkrec(vec![self.description.to_sx()])
    }
}

impl TV for GetInterfaceDescriptionArgs<'static> {
    fn from_sx(s: &Sx) -> Option<Self> {
        let f = rec(s, 1)?;
        Some(GetInterfaceDescriptionArgs { interface: Cow::Owned(String::from_sx(&f[0])?) })
    }
    fn to_sx(&self) -> Sx {
        mkrec(vec![sx::xs(&self.interface)])
    }
}

// ---------------------------------------------------------------------------
// raw JSON trees -> text (document order and duplicate keys preserved)

pub fn raw_text(s: &Sx, out: &mut String) -> Option<()> {
    match s {
        Sx::Atom(a) => match a.as_str() {
            "n" => out.push_str("null"),
            "t" => out.push_str("true"),
            "f" => out.push_str("false"),
            _ => return None,
        },
        Sx::List(l) => {
            let tag = l.first()?.as_atom()?;
            match tag {
                "i" => out.push_str(l.get(1)?.as_atom()?),
                "d" => {
                    let bits: u64 = l.get(1)?.as_atom()?.parse().ok()?;
                    let n = serde_json::Number::from_f64(f64::from_bits(bits))?;
                    out.push_str(&n.to_string());
                }
                "s" => out.push_str(&serde_json::to_string(&l.get(1)?.as_str()?).ok()?),
                "a" => {
                    out.push('[');
                    for (i, x) in l[1..].iter().enumerate() {
                        if i > 0 {
                            out.push(',');
                        }
                        raw_text(x, out)?;
                    }
                    out.push(']');
                }
                "o" => {
                    out.push('{');
                    for (i, kv) in l[1..].iter().enumerate() {
                        if i > 0 {
                            out.push(',');
                        }
                        let kv = kv.as_list()?;
                        out.push_str(&serde_json::to_string(&kv.first()?.as_str()?).ok()?);
                        out.push(':');
                        raw_text(kv.get(1)?, out)?;
                    }
                    out.push('}');
                }
                _ => return None,
            }
        }
    }
    Some(())
}

// ---------------------------------------------------------------------------
// running the real code

fn res_enc<T: TV + PartialEq>(orig: &T, r: Result<T, serde_json::Error>) -> Sx {
    match r {
        Err(_) => sx::atom("err"),
        Ok(v) => sx::tagged("ok", vec![v.to_sx(), sx::boolean(&v == orig)]),
    }
}

fn run_enc<T: TV + Serialize + DeserializeOwned + PartialEq>(v: &Sx) -> Sx {
    let v = match T::from_sx(v) {
        Some(v) => v,
        None => return sx::atom("bad-case"),
    };
    let s = serde_json::to_string(&v);
    let b = serde_json::to_vec(&v);
    let val = serde_json::to_value(&v);
    let (s, b, val) = match (s, b, val) {
        (Ok(s), Ok(b), Ok(val)) => (s, b, val),
        _ => return sx::tagged("obs", vec![sx::atom("enc-err")]),
    };
    let same = s.as_bytes() == &b[..];
    let parse = |t: &[u8]| -> Sx {
        match serde_json::from_slice::<Value>(t) {
            Ok(v) => sx::json(&v),
            Err(_) => sx::atom("err"),
        }
    };
    let encs = sx::tagged("encs", vec![parse(s.as_bytes()), parse(&b), sx::json(&val)]);
    // (text, value) per encoding
    let texts: Vec<(Vec<u8>, Option<Value>)> = vec![
        (s.clone().into_bytes(), serde_json::from_str::<Value>(&s).ok()),
        (b.clone(), serde_json::from_slice::<Value>(&b).ok()),
        (serde_json::to_vec(&val).unwrap_or_default(), Some(val.clone())),
    ];
    let mut rt = vec![];
    for (text, value) in &texts {
        let as_str = std::str::from_utf8(text).unwrap_or("");
        rt.push(res_enc(&v, serde_json::from_str::<T>(as_str)));
        rt.push(res_enc(&v, serde_json::from_slice::<T>(text)));
        rt.push(match value {
            Some(value) => res_enc(&v, serde_json::from_value::<T>(value.clone())),
            None => sx::atom("err"),
        });
    }
    let rt = if rt.iter().all(|x| x == &rt[0]) { sx::tagged("rt9", vec![rt[0].clone()]) } else { sx::tagged("rt", rt) };
    sx::tagged("obs", vec![encs, sx::boolean(same), rt])
}

fn res_dec<T: TV + Serialize>(r: Result<T, serde_json::Error>) -> Sx {
    match r {
        Err(_) => sx::atom("err"),
        Ok(v) => {
            let re = match serde_json::to_value(&v) {
                Ok(j) => sx::json(&j),
                Err(_) => sx::atom("err"),
            };
            sx::tagged("ok", vec![v.to_sx(), re])
        }
    }
}

fn run_dec<T: TV + Serialize + DeserializeOwned>(raw: &Sx) -> Sx {
    let mut text = String::new();
    if raw_text(raw, &mut text).is_none() {
        return sx::atom("bad-case");
    }
    let a = res_dec(serde_json::from_str::<T>(&text));
    let b = res_dec(serde_json::from_slice::<T>(text.as_bytes()));
    let c = match serde_json::from_str::<Value>(&text) {
        Ok(v) => res_dec(serde_json::from_value::<T>(v)),
        Err(_) => sx::atom("text-err"),
    };
    sx::tagged("obs", vec![a, b, c])
}

macro_rules! dispatch {
    ($f:ident, $ty:expr, $arg:expr) => {
        match $ty {
            "req" => $f::<Request<'static>>($arg),
            "reply" => $f::<Reply>($arg),
            "info" => $f::<ServiceInfo>($arg),
            "desc" => $f::<GetInterfaceDescriptionReply>($arg),
            "descargs" => $f::<GetInterfaceDescriptionArgs<'static>>($arg),
            "set" => $f::<StringHashSet>($arg),
            "mapstr" => $f::<StringHashMap<String>>($arg),
            "mapint" => $f::<StringHashMap<i64>>($arg),
            "mapoptstr" => $f::<StringHashMap<Option<String>>>($arg),
            "mapval" => $f::<StringHashMap<Value>>($arg),
            "mapmapstr" => $f::<StringHashMap<StringHashMap<String>>>($arg),
            "mapset" => $f::<StringHashMap<StringHashSet>>($arg),
            _ => sx::atom("bad-type"),
        }
    };
}

// ---------------------------------------------------------------------------
// generators

const STRS: &[&str] = &[
    "", "a", "b", "org.example.Method", "org.varlink.service.GetInfo", "é", "日本語", "\"", "\\", "\n", "\u{0}",
    "\u{1}", "a\"b\\c", "/", "\u{7f}", "😀", "\u{2028}", "\u{fffd}", " ", "null", "{}", "more", "parameters",
    "method", "x y", "\t\r", "ß", "\u{10ffff}", "A", "Z", "aa", "ab",
];

const FLOATS: &[f64] = &[
    0.0, -0.0, 1.0, -1.0, 1.5, 0.1, std::f64::consts::PI, 1e300, -1e300, 5e-324, 2.2250738585072014e-308,
    1.7976931348623157e308, 9007199254740993.0, 1e21, 1e-7, 123456789.125,
];

const INTS: &[i128] = &[
    0, 1, -1, 2, 42, -42, 9223372036854775807, -9223372036854775808, 9223372036854775808, 18446744073709551615,
    4294967296, -4294967297, 9007199254740993,
];

fn gstr(r: &mut Rng) -> String {
    if r.chance(1, 8) {
        let n = r.range(2, 6);
        let mut s = String::new();
        for _ in 0..n {
            s.push_str(*r.pick(STRS));
        }
        s
    } else {
        r.pick(STRS).to_string()
    }
}

fn jnum_f(f: f64) -> Sx {
    sx::list(vec![sx::atom("d"), sx::atom(format!("{}", f.to_bits()))])
}

/// a JSON value as Sx, keys sorted and distinct (a serde_json::Value)
fn gjson(r: &mut Rng, depth: usize) -> Sx {
    let top = if depth == 0 { 6 } else { 8 };
    match r.below(top) {
        0 => sx::atom("n"),
        1 => sx::atom(if r.chance(1, 2) { "t" } else { "f" }),
        2 => sx::list(vec![sx::atom("i"), sx::atom(format!("{}", r.pick(INTS)))]),
        3 => {
            if r.chance(1, 4) {
                // random finite bits
                loop {
                    let f = f64::from_bits(r.next());
                    if f.is_finite() {
                        return jnum_f(f);
                    }
                }
            }
            jnum_f(*r.pick(FLOATS))
        }
        4 | 5 => sx::list(vec![sx::atom("s"), sx::xs(&gstr(r))]),
        6 => {
            let n = r.below(4);
            let mut l = vec![sx::atom("a")];
            for _ in 0..n {
                l.push(gjson(r, depth - 1));
            }
            sx::list(l)
        }
        _ => {
            let n = r.below(4);
            let mut keys: Vec<String> = (0..n).map(|_| gstr(r)).collect();
            keys.sort_by(|a, b| a.as_bytes().cmp(b.as_bytes()));
            keys.dedup();
            let mut l = vec![sx::atom("o")];
            for k in keys {
                l.push(sx::list(vec![sx::xs(&k), gjson(r, depth - 1)]));
            }
            sx::list(l)
        }
    }
}

fn gopt<F: FnMut(&mut Rng) -> Sx>(r: &mut Rng, mut f: F) -> Sx {
    if r.chance(1, 3) {
        sx::atom("-")
    } else {
        sx::list(vec![sx::atom("some"), f(r)])
    }
}

fn gbool(r: &mut Rng) -> Sx {
    sx::boolean(r.chance(1, 2))
}

fn gparams(r: &mut Rng) -> Sx {
    // absent / null / scalar / nested
    match r.below(8) {
        0 | 1 => sx::atom("-"),
        2 => sx::list(vec![sx::atom("some"), sx::list(vec![sx::atom("j"), sx::atom("n")])]),
        3 => sx::list(vec![sx::atom("some"), sx::list(vec![sx::atom("j"), gjson(r, 0)])]),
        _ => sx::list(vec![sx::atom("some"), sx::list(vec![sx::atom("j"), gjson(r, 3)])]),
    }
}

fn gkeys(r: &mut Rng, k: usize) -> Vec<String> {
    let n = r.below(k + 1);
    let mut keys: Vec<String> = (0..n).map(|_| gstr(r)).collect();
    keys.sort_by(|a, b| a.as_bytes().cmp(b.as_bytes()));
    keys.dedup();
    keys
}

fn gmap<F: FnMut(&mut Rng) -> Sx>(r: &mut Rng, k: usize, mut f: F) -> Sx {
    let mut l = vec![sx::atom("m")];
    for key in gkeys(r, k) {
        l.push(sx::list(vec![sx::xs(&key), f(r)]));
    }
    sx::list(l)
}

fn gset(r: &mut Rng, k: usize) -> Sx {
    let mut l = vec![sx::atom("S")];
    for key in gkeys(r, k) {
        l.push(sx::xs(&key));
    }
    sx::list(l)
}

pub const TYPES: &[&str] = &[
    "req", "reply", "info", "desc", "descargs", "set", "mapstr", "mapint", "mapoptstr", "mapval", "mapmapstr",
    "mapset",
];

fn gval(r: &mut Rng, ty: &str) -> Sx {
    let k = 6;
    match ty {
        "req" => mkrec(vec![gopt(r, gbool), gopt(r, gbool), gopt(r, gbool), sx::xs(&gstr(r)), gparams(r)]),
        "reply" => mkrec(vec![gopt(r, gbool), gopt(r, |r| sx::xs(&gstr(r))), gparams(r)]),
        "info" => {
            let n = r.below(4);
            let mut is = vec![sx::atom("l")];
            for _ in 0..n {
                is.push(sx::xs(&gstr(r)));
            }
            mkrec(vec![sx::xs(&gstr(r)), sx::xs(&gstr(r)), sx::xs(&gstr(r)), sx::xs(&gstr(r)), sx::list(is)])
        }
        "desc" => mkrec(vec![gopt(r, |r| sx::xs(&gstr(r)))]),
        "descargs" => mkrec(vec![sx::xs(&gstr(r))]),
        "set" => gset(r, k),
        "mapstr" => gmap(r, k, |r| sx::xs(&gstr(r))),
        "mapint" => gmap(r, k, |r| {
            let i = *r.pick(&[0i64, 1, -1, 7, i64::MAX, i64::MIN, 1 << 40]);
            sx::list(vec![sx::atom("i"), sx::int(i)])
        }),
        "mapoptstr" => gmap(r, k, |r| gopt(r, |r| sx::xs(&gstr(r)))),
        "mapval" => gmap(r, k, |r| sx::list(vec![sx::atom("j"), gjson(r, 2)])),
        "mapmapstr" => gmap(r, 4, |r| gmap(r, 3, |r| sx::xs(&gstr(r)))),
        "mapset" => gmap(r, 4, |r| gset(r, 3)),
        _ => sx::atom("-"),
    }
}

/// the real encoding of a typed value as a raw tree (document order = sorted)
fn real_encoding(ty: &str, v: &Sx) -> Option<Sx> {
    fn enc<T: TV + Serialize>(v: &Sx) -> Sx {
        match T::from_sx(v).and_then(|v| serde_json::to_value(&v).ok()) {
            Some(j) => sx::json(&j),
            None => sx::atom("n"),
        }
    }
    fn wrap<T: TV + Serialize + DeserializeOwned>(v: &Sx) -> Sx {
        enc::<T>(v)
    }
    Some(dispatch!(wrap, ty, v))
}

fn junk(r: &mut Rng) -> Sx {
    gjson(r, 1)
}

fn obj_entries(s: &Sx) -> Option<Vec<Sx>> {
    let l = s.as_list()?;
    if l.first()?.as_atom()? == "o" {
        Some(l[1..].to_vec())
    } else {
        None
    }
}

fn mkobj(entries: Vec<Sx>) -> Sx {
    sx::tagged("o", entries)
}

fn known_members(ty: &str) -> &'static [&'static str] {
    match ty {
        "req" => &["more", "oneway", "upgrade", "method", "parameters"],
        "reply" => &["continues", "error", "parameters"],
        "info" => &["vendor", "product", "version", "url", "interfaces"],
        "desc" => &["description"],
        "descargs" => &["interface"],
        _ => &[],
    }
}

fn shuffle<T>(r: &mut Rng, v: &mut Vec<T>) {
    for i in (1..v.len()).rev() {
        let j = r.below(i + 1);
        v.swap(i, j);
    }
}

/// one mutation of a raw tree that is a valid encoding; returns (tree, tag)
fn mutate(r: &mut Rng, ty: &str, tree: &Sx) -> (Sx, &'static str) {
    let known = known_members(ty);
    let entries = obj_entries(tree);
    let Some(mut es) = entries else {
        return (junk(r), "junk");
    };
    let is_struct = !known.is_empty();
    match r.below(12) {
        0 => {
            // extra (unknown for structs) member, possibly duplicated
            let k = if is_struct { format!("x{}", r.below(3)) } else { gstr(r) };
            es.push(sx::list(vec![sx::xs(&k), junk(r)]));
            if r.chance(1, 3) {
                es.push(sx::list(vec![sx::xs(&k), junk(r)]));
            }
            shuffle(r, &mut es);
            (mkobj(es), "extra-member")
        }
        1 if is_struct => {
            // a known member set to null (present or not before)
            let k = *r.pick(known);
            es.retain(|e| e.as_list().and_then(|e| e[0].as_str()).as_deref() != Some(k));
            es.push(sx::list(vec![sx::xs(k), sx::atom("n")]));
            shuffle(r, &mut es);
            (mkobj(es), "null-member")
        }
        2 if !es.is_empty() => {
            // member value replaced by a value of some other JSON type
            let i = r.below(es.len());
            let k = es[i].as_list().unwrap()[0].clone();
            es[i] = sx::list(vec![k, junk(r)]);
            (mkobj(es), "retyped-member")
        }
        3 if !es.is_empty() => {
            let i = r.below(es.len());
            es.remove(i);
            (mkobj(es), "removed-member")
        }
        4 if !es.is_empty() => {
            // duplicate an existing member (same or other value)
            let i = r.below(es.len());
            let mut e = es[i].clone();
            if r.chance(1, 2) {
                let k = e.as_list().unwrap()[0].clone();
                e = sx::list(vec![k, junk(r)]);
            }
            if r.chance(1, 2) {
                es.push(e);
            } else {
                es.insert(0, e);
            }
            (mkobj(es), "duplicate-member")
        }
        5 if is_struct => {
            // array form: members in declaration order, null for absent ones
            let mut l = vec![sx::atom("a")];
            for k in known {
                let v = es
                    .iter()
                    .find(|e| e.as_list().and_then(|e| e[0].as_str()).as_deref() == Some(*k))
                    .map(|e| e.as_list().unwrap()[1].clone())
                    .unwrap_or(sx::atom("n"));
                l.push(v);
            }
            match r.below(4) {
                0 => {
                    l.pop();
                }
                1 => l.push(junk(r)),
                _ => {}
            }
            (sx::list(l), "array-form")
        }
        6 => {
            shuffle(r, &mut es);
            (mkobj(es), "reordered")
        }
        7 => (junk(r), "junk"),
        9 => (tree.clone(), "valid-unchanged"),
        8 if ty == "set" || ty == "mapset" || ty == "mapmapstr" || ty == "mapval" => {
            // member values of every JSON type
            let k = gstr(r);
            let v = match r.below(9) {
                0 => sx::atom("n"),
                1 => sx::atom("t"),
                2 => sx::list(vec![sx::atom("i"), sx::atom("5")]),
                3 => jnum_f(1.5),
                4 => sx::list(vec![sx::atom("s"), sx::xs("s")]),
                5 => sx::tagged("a", vec![]),
                6 => sx::tagged("a", vec![sx::tagged("o", vec![])]),
                7 => sx::tagged("o", vec![sx::list(vec![sx::xs("x"), junk(r)])]),
                _ => sx::tagged("o", vec![]),
            };
            es.push(sx::list(vec![sx::xs(&k), v]));
            shuffle(r, &mut es);
            (mkobj(es), "member-of-any-type")
        }
        _ => (tree.clone(), "valid"),
    }
}

/// all `(d <bits>)` nodes of a case
fn collect_floats(s: &Sx, out: &mut Vec<u64>) {
    if let Sx::List(l) = s {
        if l.len() == 2 && l[0].as_atom() == Some("d") {
            if let Some(b) = l[1].as_atom().and_then(|a| a.parse::<u64>().ok()) {
                out.push(b);
                return;
            }
        }
        for x in l {
            collect_floats(x, out);
        }
    }
}

/// serde_json's text layer on one f64: print, parse back
pub fn float_text_roundtrip(bits: u64) -> u64 {
    let f = f64::from_bits(bits);
    match serde_json::to_string(&f).ok().and_then(|t| serde_json::from_str::<f64>(&t).ok()) {
        Some(g) => g.to_bits(),
        None => bits,
    }
}

/// the `(fl ...)` component of a case: measured with the real serde_json
pub fn float_table(case_body: &Sx) -> Sx {
    let mut fs = Vec::new();
    collect_floats(case_body, &mut fs);
    fs.sort();
    fs.dedup();
    let mut l = vec![sx::atom("fl")];
    for b in fs {
        let b2 = float_text_roundtrip(b);
        if b2 != b {
            l.push(sx::list(vec![sx::atom(format!("{}", b)), sx::atom(format!("{}", b2))]));
        }
    }
    sx::list(l)
}

/// (kind ty body [fl]) -> (kind ty body fl) with a freshly measured table
fn with_table(case: &Sx) -> Sx {
    match case.as_list() {
        Some(l) if l.len() >= 3 => sx::list(vec![l[0].clone(), l[1].clone(), l[2].clone(), float_table(&l[2])]),
        _ => case.clone(),
    }
}

fn corpus(name: &str) -> Vec<Sx> {
    let p = format!("{}/corpus/{}.txt", env!("CARGO_MANIFEST_DIR"), name);
    std::fs::read_to_string(p)
        .unwrap_or_default()
        .lines()
        .filter(|l| l.trim_start().starts_with('('))
        .filter_map(sx::parse)
        .collect()
}

/// size-boundary values of every collection-like wire type: 0, 1, 2 and around the powers of two where
/// buffers, pre-allocation caps and length hints change behaviour
pub const SIZES: &[usize] = &[0, 1, 2, 1023, 1024, 1025, 4096, 10000];

fn nkey(i: usize) -> String {
    format!("k{:05}", i) // fixed width: ascending in byte order
}

fn sized_value(ty: &str, n: usize) -> Option<Sx> {
    let keys = || (0..n).map(nkey);
    let map = |f: &dyn Fn(usize) -> Sx| {
        let mut l = vec![sx::atom("m")];
        l.extend(keys().enumerate().map(|(i, k)| sx::list(vec![sx::xs(&k), f(i)])));
        sx::list(l)
    };
    let jint = |i: usize| sx::list(vec![sx::atom("i"), sx::nat(i)]);
    let big_obj = |f: &dyn Fn(usize) -> Sx| {
        let mut l = vec![sx::atom("o")];
        l.extend(keys().enumerate().map(|(i, k)| sx::list(vec![sx::xs(&k), f(i)])));
        sx::list(vec![sx::atom("some"), sx::list(vec![sx::atom("j"), sx::list(l)])])
    };
    let big_arr = || {
        let mut l = vec![sx::atom("a")];
        l.extend((0..n).map(jint));
        sx::list(vec![sx::atom("some"), sx::list(vec![sx::atom("j"), sx::list(l)])])
    };
    Some(match ty {
        "set" => {
            let mut l = vec![sx::atom("S")];
            l.extend(keys().map(|k| sx::xs(&k)));
            sx::list(l)
        }
        "mapstr" => map(&|i| sx::xs(&format!("v{}", i))),
        "mapint" => map(&|i| sx::list(vec![sx::atom("i"), sx::int(i as i64 - 7)])),
        "mapoptstr" => map(&|i| if i % 3 == 0 { sx::atom("-") } else { sx::list(vec![sx::atom("some"), sx::xs("x")]) }),
        "mapval" => map(&|i| sx::list(vec![sx::atom("j"), jint(i)])),
        "mapmapstr" => map(&|i| sx::list(vec![sx::atom("m"), sx::list(vec![sx::xs("a"), sx::xs(&format!("{}", i))])])),
        "mapset" => map(&|i| sx::list(vec![sx::atom("S"), sx::xs(&nkey(i))])),
        // one member that is itself a big set / map
        "mapset-inner" => sx::list(vec![sx::atom("m"), sx::list(vec![sx::xs("big"), sized_value("set", n)?])]),
        "mapmapstr-inner" => sx::list(vec![sx::atom("m"), sx::list(vec![sx::xs("big"), sized_value("mapstr", n)?])]),
        "info" => {
            let mut is = vec![sx::atom("l")];
            is.extend(keys().map(|k| sx::xs(&k)));
            mkrec(vec![sx::xs("v"), sx::xs("p"), sx::xs("1"), sx::xs("u"), sx::list(is)])
        }
        // parameters holding a set-shaped object, a map-shaped object, an array
        "req-setobj" => mkrec(vec![sx::atom("-"), sx::atom("-"), sx::atom("-"), sx::xs("a.B"), big_obj(&|_| sx::tagged("o", vec![]))]),
        "req-mapobj" => mkrec(vec![sx::atom("-"), sx::atom("-"), sx::atom("-"), sx::xs("a.B"), big_obj(&jint)]),
        "req-array" => mkrec(vec![sx::atom("-"), sx::atom("-"), sx::atom("-"), sx::xs("a.B"), big_arr()]),
        "reply-setobj" => mkrec(vec![sx::atom("-"), sx::atom("-"), big_obj(&|_| sx::tagged("o", vec![]))]),
        "reply-array" => mkrec(vec![sx::atom("-"), sx::atom("-"), big_arr()]),
        _ => return None,
    })
}

pub const SIZED: &[(&str, &str)] = &[
    ("set", "set"),
    ("mapstr", "mapstr"),
    ("mapint", "mapint"),
    ("mapoptstr", "mapoptstr"),
    ("mapval", "mapval"),
    ("mapmapstr", "mapmapstr"),
    ("mapset", "mapset"),
    ("mapset-inner", "mapset"),
    ("mapmapstr-inner", "mapmapstr"),
    ("info", "info"),
    ("req-setobj", "req"),
    ("req-mapobj", "req"),
    ("req-array", "req"),
    ("reply-setobj", "reply"),
    ("reply-array", "reply"),
];

fn boundary_cases(thorough: bool) -> Vec<Case> {
    let mut out = vec![];
    for (shape, ty) in SIZED {
        for &n in SIZES {
            // quick: the two largest sizes for the wire types the property names first, 4096 for the rest
            let primary = matches!(*shape, "set" | "mapstr" | "info" | "req-setobj" | "reply-array" | "mapset-inner");
            if !thorough && n > 4096 && !primary {
                continue;
            }
            let Some(v) = sized_value(shape, n) else { continue };
            out.push(Case {
                input: with_table(&sx::tagged("enc", vec![sx::atom(*ty), v.clone()])),
                tags: vec!["enc".into(), "size-boundary".into(), format!("size:{}", n), format!("shape:{}", shape)],
            });
            // the decode direction on the real encoding of that value (text, bytes and Value entry points),
            // as it is and with one spoilt member at the very end
            if matches!(*shape, "set" | "mapstr" | "mapset-inner" | "info") {
                if let Some(tree) = real_encoding(ty, &v) {
                    out.push(Case {
                        input: with_table(&sx::tagged("dec", vec![sx::atom(*ty), tree.clone()])),
                        tags: vec!["dec".into(), "size-boundary".into(), format!("size:{}", n), format!("shape:{}", shape)],
                    });
                    if let Some(mut es) = obj_entries(&tree) {
                        if *shape != "info" {
                            es.push(sx::list(vec![sx::xs("zzz-last"), sx::list(vec![sx::atom("i"), sx::atom("5")])]));
                            out.push(Case {
                                input: with_table(&sx::tagged("dec", vec![sx::atom(*ty), mkobj(es)])),
                                tags: vec!["dec".into(), "size-boundary".into(), "mut:bad-last-member".into(), format!("size:{}", n)],
                            });
                        }
                    }
                }
            }
        }
    }
    out
}

impl Suite for SerdeSuite {
    fn generate(&self, ctx: &Ctx) -> Vec<Case> {
        let mut out: Vec<Case> = corpus("serde")
            .into_iter()
            .map(|input| Case { input: with_table(&input), tags: vec!["corpus".into()] })
            .collect();
        out.extend(boundary_cases(ctx.thorough));
        let mut r = Rng::new(ctx.seed);
        let (n_enc, n_dec) = if ctx.thorough { (30000, 40000) } else { (3000, 4000) };
        for i in 0..n_enc {
            let ty = TYPES[i % TYPES.len()];
            let v = gval(&mut r, ty);
            let input = with_table(&sx::tagged("enc", vec![sx::atom(ty), v]));
            let mut tags = vec!["enc".to_string(), format!("enc:{}", ty)];
            if input.as_list().map(|l| l[3].as_list().map(|f| f.len() > 1).unwrap_or(false)).unwrap_or(false) {
                tags.push("float-text-inexact".into());
            }
            out.push(Case { input, tags });
        }
        for i in 0..n_dec {
            let ty = TYPES[i % TYPES.len()];
            let v = gval(&mut r, ty);
            let tree = real_encoding(ty, &v).unwrap_or(sx::atom("n"));
            let (mut t, mut tag) = mutate(&mut r, ty, &tree);
            // most mutations apply to some types only: retry a few times before settling for `valid`
            for _ in 0..6 {
                if tag != "valid" {
                    break;
                }
                let (t1, tag1) = mutate(&mut r, ty, &tree);
                t = t1;
                tag = tag1;
            }
            let mut tags = vec!["dec".to_string(), format!("dec:{}", ty)];
            if r.chance(1, 4) {
                let (t2, tag2) = mutate(&mut r, ty, &t);
                tags.push(format!("mut:{}", tag));
                t = t2;
                tag = tag2;
            }
            tags.push(format!("mut:{}", tag));
            out.push(Case { input: with_table(&sx::tagged("dec", vec![sx::atom(ty), t])), tags });
        }
        out
    }

    fn run(&self, _ctx: &Ctx, input: &Sx) -> Sx {
        let l = match input.as_list() {
            Some(l) if l.len() == 3 || l.len() == 4 => l,
            _ => return sx::atom("bad-case"),
        };
        let kind = l[0].as_atom().unwrap_or("");
        let ty = l[1].as_atom().unwrap_or("");
        match kind {
            "enc" => dispatch!(run_enc, ty, &l[2]),
            "dec" => dispatch!(run_dec, ty, &l[2]),
            _ => sx::atom("bad-case"),
        }
    }
}
