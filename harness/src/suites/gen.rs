//! Suite `gen` (C08, C09): the REAL generator + rustc + serde + runtime on grammar-directed
//! interface definitions.
//!
//! Case kinds (every case carries the definition text AND the real parser's syntax tree of it):
//!   (compile SRC)                              generator outcome, rustc verdict, emitted items/fns
//!   (probe SRC ROOT (path f*) JSON)            from_value::<T>(json).map(to_value) for emitted type T
//!   (call SRC xMethod MODE ARGS (script A*))   generated client <-> socketpair <-> generated proxy + recorder
//!   (raw SRC REQUEST-JSON)                     raw request through VarlinkService::handle + generated proxy
//!   (front WHICH SRC)                          build helper / tosource helper / CLI tool / proc macro
//! SRC = (src x<text> (idl ..) | (rej parse|idl)).
//!
//! rustc dominates the cost: all definitions of a run go into ONE scratch package
//! (<verif>/work/genprobe, shared target dir) with one bin per definition; see gen/build.rs.
#[path = "gen/ast.rs"]
pub mod ast;
#[path = "gen/build.rs"]
pub mod build;
#[path = "gen/idlgen.rs"]
pub mod idlgen;
#[path = "gen/probe.rs"]
pub mod probe;
#[path = "gen/val.rs"]
pub mod val;

use crate::rng::Rng;
use crate::sx::{self, Sx};
use crate::{Case, Ctx, Suite};
use ast::*;
use probe::*;
use serde_json::Value;
use std::collections::{BTreeMap, HashMap};
use std::sync::Mutex;
use val::*;

pub struct GenSuite;

// ------------------------------------------------------------------ in-process generator

#[derive(Clone, Debug)]
pub enum GenStatus {
    Ok(String),
    Rejected(&'static str),
    Panic(String),
}

pub fn generate_inproc(text: &str, tosource: bool) -> GenStatus {
    let mut w: Vec<u8> = Vec::new();
    let r = std::panic::catch_unwind(std::panic::AssertUnwindSafe(|| {
        let mut rd: &[u8] = text.as_bytes();
        varlink_generator::generate(&mut rd, &mut w, tosource)
    }));
    match r {
        Ok(Ok(())) => GenStatus::Ok(String::from_utf8_lossy(&w).to_string()),
        Ok(Err(varlink_generator::Error::Parse(varlink_parser::Error::Idl(_)))) => GenStatus::Rejected("idl"),
        Ok(Err(_)) => GenStatus::Rejected("parse"),
        Err(e) => GenStatus::Panic(if let Some(s) = e.downcast_ref::<String>() {
            s.clone()
        } else if let Some(s) = e.downcast_ref::<&str>() {
            s.to_string()
        } else {
            "?".into()
        }),
    }
}

pub fn src_sx(text: &str) -> Sx {
    let p = match Idl::parse(text) {
        Ok(i) => idl_sx(&i),
        Err(k) => sx::tagged("rej", vec![sx::atom(k)]),
    };
    sx::tagged("src", vec![sx::xs(text), p])
}

fn src_text(s: &Sx) -> Option<String> {
    let l = s.as_list()?;
    if l.first()?.as_atom()? != "src" {
        return None;
    }
    l.get(1)?.as_str()
}

// ------------------------------------------------------------------ case construction

fn compile_case(text: &str) -> Sx {
    sx::tagged("compile", vec![src_sx(text)])
}
fn probe_case(text: &str, e: &Emitted, j: &Value) -> Sx {
    sx::tagged("probe", vec![src_sx(text), e.root.clone(), sx::tagged("path", e.path.iter().map(|p| sx::xs(p)).collect()), sx::json(j)])
}
fn call_case(text: &str, c: &CallCase) -> Sx {
    sx::tagged(
        "call",
        vec![src_sx(text), sx::xs(&c.method), sx::atom(c.mode.clone()), val_sx(&c.args), sx::tagged("script", c.script.iter().map(action_sx).collect())],
    )
}
fn raw_case(text: &str, req: &Value) -> Sx {
    sx::tagged("raw", vec![src_sx(text), sx::json(req)])
}
fn front_case(which: &str, text: &str) -> Sx {
    sx::tagged("front", vec![sx::atom(which), src_sx(text)])
}

fn options_case(text: &str, tosource: bool, pre: &str) -> Sx {
    sx::tagged("options", vec![src_sx(text), sx::boolean(tosource), sx::atom(pre)])
}
/// the cells of the option matrix that set `bool_type` / `int_type` / `float_type` / `string_type`
fn types_of(pre: &str) -> [Option<&'static str>; 4] {
    match pre {
        "float-f32" => [None, None, Some("f32"), None],
        "int-i32" => [None, Some("i32"), None, None],
        "int-i128" => [None, Some("i128"), None, None],
        "string-path" => [None, None, None, Some("std::string::String")],
        "bool-path" => [Some("std::primitive::bool"), None, None, None],
        "all-types" => [Some("std::primitive::bool"), Some("i32"), Some("f32"), Some("std::string::String")],
        _ => [None, None, None, None],
    }
}

fn preamble_of(pre: &str) -> Option<String> {
    match pre {
        "float-f32" | "int-i32" | "int-i128" | "string-path" | "bool-path" | "all-types" => None,
        "none" => None,
        "empty" => Some(String::new()),
        "one" => Some("use std::fmt;".into()),
        _ => Some("use std::fmt; pub const VERIF_PREAMBLE: u32 = 1; pub fn verif_preamble() -> u32 { VERIF_PREAMBLE } pub struct VerifPreamble;".into()),
    }
}
fn frontpath_case(which: &str, rel: &str, text: &str) -> Sx {
    sx::tagged("frontpath", vec![sx::atom(which), sx::xs(rel), src_sx(text)])
}

fn regen_case(which: &str, first: &str, second: &str) -> Sx {
    sx::tagged("regen", vec![sx::atom(which), src_sx(first), src_sx(second)])
}
fn desc_case(text: &str) -> Sx {
    sx::tagged("desc", vec![src_sx(text)])
}

/// the same definition with another of the line-ending conventions the grammar's `eol_r` admits
fn with_eol(text: &str, eol: &str) -> String {
    text.replace('\n', eol)
}

/// comment lines that are hostile to whoever pastes the definition text into Rust source
const NASTY_COMMENTS: &str = "# raw string terminators \"# \"## \"### r#\" r##\" \"#\"# br#\"\n# backslashes \\ \\n \\\" \\u{41} quotes ' \" \"\"\" comment markers */ /* // braces {} {{}} {0} attribute #![deny(x)] $crate $x\n#\"#\n";

fn tosource2_case(rel1: &str, rel2: &str, t1: &str, t2: &str) -> Sx {
    sx::tagged("tosource2", vec![sx::xs(rel1), sx::xs(rel2), src_sx(t1), src_sx(t2)])
}

/// `cargo_build_tosource(rel1, true); cargo_build_tosource(rel2, true)` in ONE process (what a build.rs with two interfaces
/// does), both paths relative to the working directory, rustfmt enabled
fn tosource2_obs(rel1: &str, rel2: &str, t1: &str, t2: &str) -> Sx {
    let base = build::work_dir().join("front").join(format!("{:016x}-ts2", build::fnv(format!("{}\u{0}{}\u{0}{}\u{0}{}", rel1, rel2, t1, t2).as_bytes())));
    let _ = std::fs::remove_dir_all(&base);
    let cwd = base.join("cwd");
    let mut outs = Vec::new();
    for (rel, t) in [(rel1, t1), (rel2, t2)] {
        let input = cwd.join(rel);
        if let Some(d) = input.parent() {
            let _ = std::fs::create_dir_all(d);
        }
        std::fs::write(&input, t).expect("front input");
    }
    let mut c = std::process::Command::new(build::bin_path("fe_build"));
    c.current_dir(&cwd).arg("tosource2").arg(&base).arg(rel1).arg(rel2);
    let (code, _, err) = run_tool(&mut c);
    for rel in [rel1, rel2] {
        let input = cwd.join(rel);
        let fname = input.file_name().unwrap().to_string_lossy().to_string();
        let stem = fname.strip_suffix(".varlink").unwrap_or(&fname).replace('.', "_");
        let produced = std::fs::read_to_string(input.parent().unwrap().join(format!("{}.rs", stem))).unwrap_or_default();
        outs.push(sx::boolean(!produced.is_empty()));
    }
    let mut l = vec![sx::atom(status_of(code, &err))];
    l.extend(outs);
    sx::tagged("tosource2", l)
}

fn frontmany_case(texts: &[&str]) -> Sx {
    sx::tagged("frontmany", texts.iter().map(|t| src_sx(t)).collect())
}

fn parse_call(l: &[Sx]) -> Option<CallCase> {
    Some(CallCase {
        method: l.get(2)?.as_str()?,
        mode: l.get(3)?.as_atom()?.to_string(),
        args: sx_val(l.get(4)?)?,
        script: l.get(5)?.as_list()?[1..].iter().map(sx_action).collect::<Option<Vec<_>>>()?,
    })
}

/// replace the first float leaf by `bits` / the first `?object` by Some(null)
fn inject(idl: &Idl, t: &Ty, v: &mut Val, what: &str, bits: u64) -> bool {
    match (t, v) {
        (Ty::Ref(n), v) => match idl.typedef(n) {
            Some(td) => inject(idl, &td.def.clone(), v, what, bits),
            None => false,
        },
        (Ty::Float, v @ Val::F(_)) if what == "float" => {
            *v = Val::F(bits);
            true
        }
        (Ty::Opt(i), v) if what == "optobj" && **i == Ty::Object => {
            *v = Val::Some_(Box::new(Val::J(Value::Null)));
            true
        }
        (Ty::Opt(i), Val::Some_(x)) => inject(idl, i, x, what, bits),
        (Ty::Arr(i), Val::Arr(l)) => l.iter_mut().any(|x| inject(idl, i, x, what, bits)),
        (Ty::Map(i), Val::Map(l)) => l.iter_mut().any(|(_, x)| inject(idl, i, x, what, bits)),
        (Ty::Struct(fs), Val::Rec(l)) => {
            for (f, ft) in fs {
                if let Some((_, x)) = l.iter_mut().find(|(k, _)| k == f) {
                    if inject(idl, ft, x, what, bits) {
                        return true;
                    }
                }
            }
            false
        }
        _ => false,
    }
}

fn gen_script(rng: &mut Rng, idl: &Idl, m: &Method, mode: &str) -> Vec<Action> {
    let out_t = Ty::Struct(m.output.clone());
    let mut script = Vec::new();
    if mode == "more" {
        for _ in 0..rng.below(4) {
            script.push(Action::Reply(true, gen_val(rng, idl, &out_t, 3)));
        }
    }
    let usable: Vec<&ErrorDef> = idl.errors.iter().filter(|e| inhabited(idl, &Ty::Struct(e.parm.clone()), 6)).collect();
    if mode != "oneway" && !usable.is_empty() && rng.chance(1, 3) {
        let e = *rng.pick(&usable);
        script.push(Action::Error(e.name.clone(), gen_val(rng, idl, &Ty::Struct(e.parm.clone()), 3)));
    } else {
        script.push(Action::Reply(false, gen_val(rng, idl, &out_t, 3)));
    }
    script
}

/// probe / call / raw cases of one definition
fn cases_for_program(rng: &mut Rng, text: &str, rich: bool, out: &mut Vec<Case>, origin: &str) {
    let idl = match Idl::parse(text) {
        Ok(i) => i,
        Err(_) => return,
    };
    let tag = |t: &str| vec![format!("kind:{}", t), format!("origin:{}", origin)];
    // probes
    let ems = emitted_types(&idl);
    let per_type = if rich { 3 } else { 1 };
    let mut budget = if rich { 90 } else { 3 };
    for e in &ems {
        if budget == 0 {
            break;
        }
        if !inhabited(&idl, &e.def, 6) {
            // uninhabited (empty enum somewhere): only junk can be probed
            out.push(Case { input: probe_case(text, e, &gen_json(rng, 2)), tags: tag("probe-junk") });
            budget -= 1;
            continue;
        }
        for k in 0..per_type {
            if budget == 0 {
                break;
            }
            budget -= 1;
            let v = gen_val(rng, &idl, &e.def, 3);
            let mut j = to_json(&idl, &e.def, &v, e.top);
            let mut tags = tag("probe-valid");
            if k > 0 {
                let m = mutate_json(rng, &mut j);
                tags = tag("probe-near");
                tags.push(m.to_string());
            }
            out.push(Case { input: probe_case(text, e, &j), tags });
        }
    }
    // string-set positions (top level and nested) with a member that is not `{}`: must be refused
    let junk = set_junk();
    let mut nset = 0usize;
    for e in &ems {
        if nset >= if rich { 12 } else { 2 } || !inhabited(&idl, &e.def, 6) {
            continue;
        }
        let v = gen_val(rng, &idl, &e.def, 3);
        let base = to_json(&idl, &e.def, &v, e.top);
        for k in 0..2 {
            let mut j = base.clone();
            let jk = &junk[(nset + k * 3) % junk.len()];
            if poison_set(&idl, &e.def, &mut j, jk, 8) {
                nset += 1;
                out.push(Case { input: probe_case(text, e, &j), tags: tag("probe-set-poison") });
            } else {
                break;
            }
        }
    }
    if !rich {
        return;
    }
    // calls
    for m in &idl.methods {
        let in_t = Ty::Struct(m.input.clone());
        let out_t = Ty::Struct(m.output.clone());
        if !inhabited(&idl, &in_t, 6) || !inhabited(&idl, &out_t, 6) {
            continue;
        }
        for mode in ["call", "more", "oneway", "call"] {
            let args = gen_val(rng, &idl, &in_t, 3);
            let script = gen_script(rng, &idl, m, mode);
            let c = CallCase { method: m.name.clone(), mode: mode.to_string(), args, script };
            let mut tags = tag("call");
            tags.push(format!("mode:{}", mode));
            if c.script.iter().any(|a| matches!(a, Action::Error(..))) {
                tags.push("script:error".into());
            }
            out.push(Case { input: call_case(text, &c), tags });
        }
        // raw requests: valid, missing parameters, ill-typed / near-valid parameters, flags
        let full = format!("{}.{}", idl.name, m.name);
        let good = to_json(&idl, &in_t, &gen_val(rng, &idl, &in_t, 3), true);
        let mk = |params: Option<Value>, extra: Option<(&str, Value)>| {
            let mut o = serde_json::Map::new();
            o.insert("method".into(), Value::from(full.clone()));
            if let Some(p) = params {
                o.insert("parameters".into(), p);
            }
            if let Some((k, v)) = extra {
                o.insert(k.into(), v);
            }
            Value::Object(o)
        };
        out.push(Case { input: raw_case(text, &mk(Some(good.clone()), None)), tags: tag("raw-valid") });
        out.push(Case { input: raw_case(text, &mk(None, None)), tags: tag("raw-missing-parameters") });
        out.push(Case { input: raw_case(text, &mk(Some(Value::Null), None)), tags: tag("raw-null-parameters") });
        for (k, jk) in junk.iter().enumerate().take(3) {
            let mut j = good.clone();
            if poison_set(&idl, &in_t, &mut j, &junk[(k * 2 + m.name.len()) % junk.len()], 8) {
                let _ = jk;
                out.push(Case { input: raw_case(text, &mk(Some(j), None)), tags: tag("raw-set-poison") });
            } else {
                break;
            }
        }
        // a long string of multi-byte characters (0-3 ASCII characters in front) where no string belongs: the text of
        // serde's complaint quotes the value; the answer must still be InvalidParameter
        let mut nlong = 0;
        for (f, ft) in m.input.iter() {
            let (rt, _) = resolve(&idl, ft);
            if matches!(rt, Ty::Str | Ty::Object | Ty::Enum(_)) || matches!(rt, Ty::Opt(i) if matches!(resolve(&idl, i).0, Ty::Str | Ty::Object | Ty::Enum(_))) {
                continue;
            }
            for pre in 0..4usize {
                if nlong >= 8 {
                    break;
                }
                nlong += 1;
                let ch = ["\u{20ac}", "\u{fc}", "\u{1d11e}", "\u{20ac}"][(pre + nlong) % 4];
                let n = [90usize, 130, 260, 700][(pre + f.len()) % 4];
                let s = format!("{}{}", &"abc"[..pre.min(3)], ch.repeat(n));
                let mut j = good.clone();
                if let Value::Object(o) = &mut j {
                    o.insert(f.clone(), Value::from(s));
                }
                out.push(Case { input: raw_case(text, &mk(Some(j), None)), tags: tag("raw-long-multibyte-string") });
            }
        }
        for _ in 0..2 {
            let mut j = good.clone();
            let mt = mutate_json(rng, &mut j);
            let mut tags = tag("raw-near");
            tags.push(mt.to_string());
            let extra = match rng.below(4) {
                0 => Some(("more", Value::Bool(true))),
                1 => Some(("oneway", Value::Bool(true))),
                _ => None,
            };
            out.push(Case { input: raw_case(text, &mk(Some(j), extra)), tags });
        }
    }
    let mut o = serde_json::Map::new();
    o.insert("method".into(), Value::from(format!("{}.NoSuchMethod9", idl.name)));
    o.insert("parameters".into(), Value::Object(serde_json::Map::new()));
    out.push(Case { input: raw_case(text, &Value::Object(o)), tags: tag("raw-unknown-method") });
}

fn repo_idls() -> Vec<String> {
    let mut v = Vec::new();
    for p in [
        "/repo/varlink_generator/tests/org.example.complex.varlink",
        "/repo/examples/ping/src/org.example.ping.varlink",
        "/repo/examples/more/src/org.example.more.varlink",
        "/repo/examples/example/src/org.example.network.varlink",
        "/repo/varlink-certification/src/org.varlink.certification.varlink",
        "/repo/varlink_stdinterfaces/src/org.varlink.resolver.varlink",
        "/repo/varlink_stdinterfaces/src/org.varlink.service.varlink",
    ] {
        if let Ok(t) = std::fs::read_to_string(p) {
            v.push(t);
        }
    }
    v
}

/// hand-picked witnesses: one reproducing definition per known class (and near misses)
pub fn witnesses() -> Vec<(&'static str, &'static str)> {
    vec![
        ("raw-ident", "interface org.example.w\nmethod Foo(self: int) -> ()\n"),
        ("raw-ident", "interface org.example.w\ntype Self (a: int)\nmethod Foo() -> ()\n"),
        ("raw-ident", "interface org.example.w\ntype E (a, crate)\nmethod Foo() -> ()\n"),
        ("raw-ident", "interface org.example.w\nmethod Foo() -> (super: string)\n"),
        ("err-anon-dup", "interface org.example.w\nmethod Foo() -> ()\nerror Bad (reason: (a, b))\n"),
        ("err-anon-dup", "interface org.example.w\nmethod Foo() -> ()\nerror Bad (x: []?(a: int))\n"),
        ("err-anon-dup", "interface org.example.w\nmethod Foo() -> ()\nerror Bad (x: ())\n"),
        ("kw-fn", "interface org.example.w\nmethod Type() -> ()\n"),
        ("kw-fn", "interface org.example.w\nmethod MATCH(a: int) -> (b: int)\n"),
        ("kw-fn", "interface org.example.w\nmethod Foo() -> ()\nerror Self ()\n"),
        ("snake-dup", "interface org.example.w\nmethod GetID() -> ()\nmethod GetId() -> ()\n"),
        ("snake-dup", "interface org.example.w\nmethod CallUpgraded() -> ()\n"),
        ("snake-dup", "interface org.example.w\nmethod Foo() -> ()\nerror FooBar ()\nerror FooBAR ()\n"),
        ("reserved-type", "interface org.example.w\ntype Error (a: int)\nmethod Foo() -> ()\n"),
        ("reserved-type", "interface org.example.w\ntype Arc (a: int)\nmethod Foo() -> ()\n"),
        ("reserved-type", "interface org.example.w\ntype Option (a, b)\nmethod Foo() -> ()\n"),
        ("reserved-type", "interface org.example.w\ntype String (a: int)\nmethod Foo() -> ()\n"),
        ("reserved-type", "interface org.example.w\ntype Vec ()\nmethod Foo() -> ()\n"),
        ("path-dup", "interface org.example.w\ntype T (a_b: (x: int), a: (b: (y: int)))\nmethod Foo(t: T) -> ()\n"),
        ("path-dup", "interface org.example.w\ntype Call (Foo: (a: int))\nmethod Foo() -> ()\n"),
        ("path-dup", "interface org.example.w\nmethod Call(a: int) -> (b: int)\nmethod Args() -> ()\n"),
        ("path-dup", "interface org.example.w\nerror Call (a: int)\nmethod Args() -> ()\n"),
        ("opt-cycle", "interface org.example.w\ntype T (next: ?T)\nmethod Foo(t: T) -> ()\n"),
        ("opt-cycle", "interface org.example.w\ntype A (b: ?B)\ntype B (a: ?A)\nmethod Foo(t: A) -> ()\n"),
        ("opt-cycle", "interface org.example.w\ntype T (a: (next: ?T))\nmethod Foo(t: T) -> ()\n"),
        ("err-fn-shadow", "interface org.example.w\nmethod Foo() -> ()\nerror Struct (a: int)\n"),
        ("err-fn-shadow", "interface org.example.w\nmethod Foo() -> ()\nerror MethodNotFound ()\n"),
        ("err-fn-shadow", "interface org.example.w\nmethod Foo(a: int) -> ()\nerror InvalidParameter ()\n"),
        ("param-shadow", "interface org.example.w\nmethod Foo(Some: int) -> ()\n"),
        ("param-shadow", "interface org.example.w\nmethod Foo() -> (None: int)\n"),
        ("param-shadow", "interface org.example.w\nmethod Foo() -> ()\nerror Bad (Ok: int)\n"),
        ("param-shadow", "interface org.example.w\nmethod Foo(Err: string) -> ()\n"),
        ("param-shadow", "interface org.example.w\nmethod Foo(Error: string) -> ()\n"),
        ("ok", "interface org.example.w\ntype T (Some: int, None: int, Ok: int, Err: int, Error: int, e: (Some, None, Ok, Err, Error))\nmethod Foo(t: T, Option: int, ErrorKind: int, new: int, Result: int, VarlinkClient: int) -> (Vec: int)\n"),
        ("param-variant", "interface org.example.w\ntype State (name, enum, ref)\nmethod Foo() -> ()\nerror Oops (enum: State)\n"),
        ("param-variant", "interface org.example.w\nmethod Foo(kind: (kind, other)) -> ()\n"),
        ("param-variant", "interface org.example.w\ntype Interface (interface, b, c)\nmethod Foo() -> (interface: Interface)\n"),
        ("ok", "interface org.example.w\ntype State (a, b)\ntype S (a: State, b: ?State)\nmethod Foo(a: ?State, b: []State, s: S) -> (b: [string]State)\n"),
        ("ok", "interface org.example.w\nmethod Foo() -> ()\nerror InvalidParameter ()\n"),
        ("ok", "interface org.example.w\nmethod Foo(call: int) -> (call: int)\n"),
        ("ok", "interface org.example.w\ntype T (next: []T, m: [string]T, o: ?[]T)\nmethod Foo(t: T) -> ()\n"),
        ("ok", "interface org.example.w\nmethod Foo() -> ()\nerror Bad (s: [string]())\n"),
        ("ok", "interface org.example.w\nmethod Union() -> ()\nmethod Default() -> ()\nmethod Call(a: int) -> (b: int)\n"),
        ("ok", "interface org.example.w\ntype Into (a: int)\ntype Some (x, y)\ntype Call (Foo: int)\nmethod Foo(i: Into, s: Some) -> (c: ?Call)\n"),
        ("ok", "interface org.example.w\nerror OnlyAnError (a: int)\n"),
        // interface names over the whole grammar rule: later labels starting with a digit, inner (double) hyphens,
        // single-character labels, many labels, upper case
        ("ok", "interface org.7zip.archive\nmethod Pack(name: string, level: ?int) -> (size: int)\nerror Full (free: int)\n"),
        ("ok", "interface org.example-2.archive-v2\nmethod Pack(name: string) -> (size: int)\nerror Full (free: int)\n"),
        ("ok", "interface a.b\nmethod M(x: int) -> (y: int)\n"),
        ("ok", "interface X--y.9.Z-0.q.UPPER.l0-w--3r\ntype T (a: int)\nmethod Get(t: T) -> (t: ?T)\nerror E9 ()\n"),
        ("ok", "interface org.example.tags\ntype Tagged (name: string, tags: [string](), groups: [][string](), maybe: ?[string](), byname: [string][string]())\nmethod Tag(tags: [string]()) -> (tags: [string]())\nmethod Merge(sets: [][string](), extra: ?[string](), t: Tagged) -> (all: [string](), t: ?Tagged)\nerror Bad (seen: [string]())\n"),
        // method and error names ending in / consisting of runs of capitals and digits (to_snake_case corners)
        ("ok", "interface org.example.w\nmethod GetID() -> ()\nmethod SetTTL(t: int) -> ()\nmethod XY() -> ()\nmethod X() -> ()\nmethod HTTPServer2() -> ()\nmethod A1B2() -> ()\nmethod AB() -> ()\nerror BadIO ()\nerror EOF (at: int)\nerror E2BIG ()\n"),
        // accepted definitions whose TEXT is hostile to being pasted into Rust source (the description is emitted verbatim)
        ("ok", "# he said \"# and r#\" and \"## \\ \\\" */ {}\ninterface org.example.w\n\n# \"#\nmethod Foo(a: int) -> (b: int)\n"),
        ("ok", "# CR only\rinterface org.example.w\r\r# second comment \"#\rmethod Foo(a: int) -> (b: int)\rerror Bad (why: string)\r"),
        ("ok", "# CRLF\r\ninterface org.example.w\r\n\r\nmethod Foo(a: int) -> (b: int)\r\n\r\ntype T (x: ?string)\r\n"),
        ("ok", "# U+2028 and U+2029\u{2028}interface org.example.w\u{2029}\u{2028}method Foo(a: int) -> (b: int)\u{2028}"),
        ("ok", "\u{feff}\u{a0}\t# grammar whitespace before and after\ninterface org.example.w\nmethod Foo() -> ()\n\u{3000}\u{feff}\t \n"),
        // rejected only because of ONE character that Unicode calls white space but the grammar does not (or neither does)
        ("rejected", "\u{b}interface org.example.w\nmethod Foo() -> ()\n"),
        ("rejected", "interface org.example.w\nmethod Foo() -> ()\n\u{c}"),
        ("rejected", "\u{85}interface org.example.w\nmethod Foo() -> ()\n"),
        ("rejected", "interface org.example.w\nmethod Foo() -> ()\n\u{85}\n"),
        ("rejected", "\u{200b}interface org.example.w\nmethod Foo() -> ()\n"),
        ("rejected", "interface org.example.w\nmethod Foo() -> ()\u{b}\n"),
        // rejected texts whose parse error sits at the very end, right after a newline
        ("rejected", "interface org.example.w\n"),
        ("rejected", "interface org.example.w\n\nmethod Foo(a: int,\n"),
        ("rejected", "interface org.example.w\n\nmethod Foo() -> ()\n\ntype T (\n"),
        ("rejected", "interface org.example.w\n\n\n"),
        ("not-well-formed", "interface org.example.w\nmethod Foo(a: int, a: int) -> ()\n"),
        ("not-well-formed", "interface org.example.w\nmethod Foo(e: Nope) -> ()\n"),
        ("not-well-formed", "interface org.example.w\ntype T (next: T)\nmethod Foo(t: T) -> ()\n"),
    ]
}

/// two known classes (or a class and an ill-formed feature) in one definition: which failure ranks first
pub fn pair_witnesses() -> Vec<(&'static str, &'static str)> {
    vec![
        ("From+Option", "interface org.example.w\ntype From (a: int)\ntype Option (a: int)\nmethod Foo() -> ()\n"),
        ("From+ErrStruct", "interface org.example.w\ntype From (a: int)\nmethod Foo() -> ()\nerror Struct ()\n"),
        ("Option+optcycle", "interface org.example.w\ntype Option (a: int)\ntype T (n: ?T)\nmethod Foo() -> ()\n"),
        ("Option+ErrStruct", "interface org.example.w\ntype Option (a: int)\nmethod Foo() -> ()\nerror Struct ()\n"),
        ("String+ErrStruct", "interface org.example.w\ntype String (a: int)\nmethod Foo() -> ()\nerror Struct ()\n"),
        ("optcycle+ErrStruct", "interface org.example.w\ntype T (n: ?T)\nmethod Foo() -> ()\nerror Struct ()\n"),
        ("SomeParam+From", "interface org.example.w\ntype From (a: int)\nmethod Foo(Some: int) -> ()\n"),
        ("SomeParam+optcycle", "interface org.example.w\ntype T (n: ?T)\nmethod Foo(Some: int) -> ()\n"),
        ("SomeParam+ErrStruct", "interface org.example.w\nmethod Foo(Some: int) -> ()\nerror Struct ()\n"),
        ("NoneParam+ErrStruct", "interface org.example.w\nmethod Foo(None: int) -> ()\nerror Struct ()\n"),
        ("NoneParam+optcycle", "interface org.example.w\ntype T (n: ?T)\nmethod Foo(None: int) -> ()\n"),
        ("dupfieldT+From", "interface org.example.w\ntype From (a: int)\ntype T (a: int, a: int)\nmethod Foo() -> ()\n"),
        ("dupfieldT+Option", "interface org.example.w\ntype Option (a: int)\ntype T (a: int, a: int)\nmethod Foo() -> ()\n"),
        ("dupfieldT+optcycle", "interface org.example.w\ntype T (a: int, a: int)\ntype U (n: ?U)\nmethod Foo() -> ()\n"),
        ("dupfieldT", "interface org.example.w\ntype T (a: int, a: int)\nmethod Foo() -> ()\n"),
        ("dupfieldAnon", "interface org.example.w\nmethod Foo(x: (a: int, a: int)) -> ()\n"),
        ("dupvariant", "interface org.example.w\ntype E (a, a)\nmethod Foo() -> ()\n"),
        ("lint+ErrStruct", "interface org.example.w\ntype S (on, off)\nmethod Foo(on: S) -> ()\nerror Struct ()\n"),
        ("lint+NoneParam", "interface org.example.w\ntype S (on, off)\nmethod Foo(on: S, None: int) -> ()\n"),
        ("lint+String", "interface org.example.w\ntype S (on, off)\ntype String (a: int)\nmethod Foo(on: S) -> ()\n"),
        ("kw+From", "interface org.example.w\ntype From (a: int)\nmethod Type() -> ()\n"),
        ("kw+ErrStruct", "interface org.example.w\nmethod Type() -> ()\nerror Struct ()\n"),
        ("unres+From", "interface org.example.w\ntype From (a: int)\nmethod Foo(x: Nope) -> ()\n"),
        ("unres+Option", "interface org.example.w\ntype Option (a: int)\nmethod Foo(x: Nope) -> ()\n"),
        ("unres+optcycle", "interface org.example.w\ntype T (n: ?T)\nmethod Foo(x: Nope) -> ()\n"),
        ("dup+From", "interface org.example.w\ntype From (a: int)\ntype Error (a: int)\nmethod Foo() -> ()\n"),
        ("Vec+Box", "interface org.example.w\ntype Vec (a: int)\ntype Box (a: int)\nmethod Foo() -> ()\n"),
        ("String+NoneParam", "interface org.example.w\ntype String (a: int)\nmethod Foo(None: int) -> ()\n"),
        ("ErrParamNone", "interface org.example.w\nmethod Foo() -> ()\nerror Bad (None: int)\n"),
        ("OutParamErr", "interface org.example.w\nmethod Foo() -> (Err: int)\n"),
    ]
}

const EXCL_IDL: &str = "interface org.example.x\nmethod F(x: float, o: ?object) -> (y: float, p: ?object)\nerror Bad (z: float)\n";

fn excluded_cases(out: &mut Vec<Case>) {
    let idl = Idl::parse(EXCL_IDL).unwrap();
    let nan = f64::NAN.to_bits();
    let inf = f64::INFINITY.to_bits();
    let rec = |x: u64, o: Val, a: &str, b: &str| Val::Rec(vec![(a.to_string(), Val::F(x)), (b.to_string(), o)]);
    let one = 1.5f64.to_bits();
    let mk = |args: Val, script: Vec<Action>, mode: &str, t: &str| Case {
        input: call_case(EXCL_IDL, &CallCase { method: "F".into(), mode: mode.into(), args, script }),
        tags: vec!["kind:call".into(), format!("excluded:{}", t), "origin:witness".into()],
    };
    let _ = &idl;
    out.push(mk(rec(nan, Val::None_, "x", "o"), vec![Action::Reply(false, rec(one, Val::None_, "y", "p"))], "call", "nan-arg"));
    out.push(mk(rec(inf, Val::None_, "x", "o"), vec![Action::Reply(false, rec(one, Val::None_, "y", "p"))], "oneway", "inf-arg"));
    out.push(mk(rec(one, Val::None_, "x", "o"), vec![Action::Reply(false, rec(nan, Val::None_, "y", "p"))], "call", "nan-reply"));
    out.push(mk(rec(one, Val::None_, "x", "o"), vec![Action::Error("Bad".into(), Val::Rec(vec![("z".into(), Val::F(nan))]))], "call", "nan-error"));
    out.push(mk(rec(one, Val::Some_(Box::new(Val::J(Value::Null))), "x", "o"), vec![Action::Reply(false, rec(one, Val::None_, "y", "p"))], "call", "opt-object-null-arg"));
    out.push(mk(rec(one, Val::None_, "x", "o"), vec![Action::Reply(false, rec(one, Val::Some_(Box::new(Val::J(Value::Null))), "y", "p"))], "more", "opt-object-null-reply"));
    // the same points at the serde level
    for e in emitted_types(&idl) {
        if e.rust == "F_Args" {
            out.push(Case { input: probe_case(EXCL_IDL, &e, &serde_json::json!({"x": null})), tags: vec!["kind:probe-near".into(), "excluded:null-float".into()] });
            out.push(Case { input: probe_case(EXCL_IDL, &e, &serde_json::json!({"x": 1, "o": null})), tags: vec!["kind:probe-near".into(), "excluded:opt-object-null".into()] });
        }
    }
}

const SESSION_A: &str = "interface org.example.net\nmethod Echo(n: int) -> (n: int)\nmethod Count(n: int) -> (i: int)\nmethod Note(text: string) -> ()\nerror Down (why: string)\n";
const SESSION_B: &str = "interface org.example.net.dns\nmethod Resolve(name: string) -> (addr: []string)\nmethod Echo(n: int) -> (n: int)\n";
const SESSION_C: &str = "interface org.example.netx\nmethod Echo(n: int) -> (m: int)\n";

/// a generated-client step with random well-typed values; `mode`: call | more | oneway | abandon
fn gen_step(rng: &mut Rng, texts: &[&str], i: usize, method: Option<&str>, mode: &str) -> Option<Step> {
    let idl = Idl::parse(texts[i]).ok()?;
    let usable: Vec<&Method> = idl
        .methods
        .iter()
        .filter(|m| inhabited(&idl, &Ty::Struct(m.input.clone()), 6) && inhabited(&idl, &Ty::Struct(m.output.clone()), 6))
        .filter(|m| method.map(|n| n == m.name).unwrap_or(true))
        .collect();
    if usable.is_empty() {
        return None;
    }
    let m = *rng.pick(&usable);
    let args = gen_val(rng, &idl, &Ty::Struct(m.input.clone()), 2);
    let (mode, script) = if mode == "abandon" {
        let mut script = gen_script(rng, &idl, m, "more");
        while script.len() < 2 {
            script.insert(0, Action::Reply(true, gen_val(rng, &idl, &Ty::Struct(m.output.clone()), 2)));
        }
        let k = rng.below(script.len());
        (format!("abandon{}", k), script)
    } else {
        (mode.to_string(), gen_script(rng, &idl, m, mode))
    };
    Some(Step::Gen(i, CallCase { method: m.name.clone(), mode, args, script }))
}

/// a hand-written request that is answered with an error and leaves the connection usable (`fatal`: ill-typed
/// parameters, after which the generated dispatch ends the connection: last step only)
fn raw_step(rng: &mut Rng, texts: &[&str], fatal: bool) -> Step {
    let idls: Vec<Idl> = texts.iter().filter_map(|t| Idl::parse(t).ok()).collect();
    let idl = rng.pick(&idls);
    let with_input: Vec<&Method> = idl.methods.iter().filter(|m| !m.input.is_empty()).collect();
    let mut o = serde_json::Map::new();
    if fatal && !with_input.is_empty() {
        o.insert("method".into(), Value::from(format!("{}.{}", idl.name, rng.pick(&with_input).name)));
        o.insert("parameters".into(), Value::from(5));
        return Step::Raw(Value::Object(o));
    }
    match rng.below(if with_input.is_empty() { 4 } else { 5 }) {
        0 => {
            o.insert("method".into(), Value::from("Nodot"));
        }
        1 => {
            o.insert("method".into(), Value::from(format!("{}x.nosuch.Method", idl.name)));
            o.insert("parameters".into(), Value::Object(serde_json::Map::new()));
        }
        2 => {
            o.insert("method".into(), Value::from(format!("{}.NoSuchMethod9", idl.name)));
            o.insert("parameters".into(), Value::Object(serde_json::Map::new()));
        }
        3 => {
            // the interface name followed by nothing: method part empty
            o.insert("method".into(), Value::from(format!("{}.", idl.name)));
        }
        _ => {
            o.insert("method".into(), Value::from(format!("{}.{}", idl.name, rng.pick(&with_input).name)));
        }
    }
    Step::Raw(Value::Object(o))
}

fn session_cases(rng: &mut Rng, ctx: &Ctx, texts_pool: &[String], cases: &mut Vec<Case>) {
    let abc = [SESSION_A, SESSION_B, SESSION_C];
    let tag = |t: &str| vec!["kind:session".to_string(), format!("session:{}", t)];
    let mut push = |cases: &mut Vec<Case>, texts: &[&str], steps: Vec<Option<Step>>, t: &str| {
        let steps: Vec<Step> = steps.into_iter().flatten().collect();
        if steps.len() >= 2 {
            cases.push(Case { input: session_case(texts, &steps), tags: tag(t) });
        }
    };
    // interfaces whose names are dotted prefixes / extensions of each other, both orders
    let s = vec![gen_step(rng, &abc, 0, Some("Echo"), "call"), gen_step(rng, &abc, 1, Some("Echo"), "call"), gen_step(rng, &abc, 2, None, "call"), gen_step(rng, &abc, 0, Some("Echo"), "call"), gen_step(rng, &abc, 1, Some("Resolve"), "call")];
    push(cases, &abc, s, "prefix-names-short-first");
    let s = vec![gen_step(rng, &abc, 1, Some("Echo"), "call"), gen_step(rng, &abc, 0, Some("Echo"), "call"), gen_step(rng, &abc, 1, Some("Resolve"), "more"), gen_step(rng, &abc, 2, None, "call")];
    push(cases, &abc, s, "prefix-names-long-first");
    let ba = [SESSION_B, SESSION_A];
    let s = vec![gen_step(rng, &ba, 1, Some("Note"), "oneway"), gen_step(rng, &ba, 0, Some("Echo"), "call"), gen_step(rng, &ba, 1, Some("Count"), "more"), gen_step(rng, &ba, 0, Some("Echo"), "call")];
    push(cases, &ba, s, "oneway-then-calls");
    // an abandoned stream, then other calls on the same connection
    let s = vec![gen_step(rng, &abc, 0, Some("Echo"), "call"), gen_step(rng, &abc, 0, Some("Count"), "abandon"), gen_step(rng, &abc, 0, Some("Echo"), "call"), gen_step(rng, &abc, 1, Some("Echo"), "call"), Some(raw_step(rng, &abc, false))];
    push(cases, &abc, s, "abandoned-stream");
    // hand-written error-provoking requests between generated calls
    let mut r2 = rng.fork();
    let s = vec![
        Some(Step::Raw(serde_json::json!({"method": "Nodot"}))),
        gen_step(rng, &abc, 0, Some("Echo"), "call"),
        Some(Step::Raw(serde_json::json!({"method": "org.example.nosuch.Echo", "parameters": {"n": 1}}))),
        gen_step(rng, &abc, 1, Some("Echo"), "call"),
        Some(Step::Raw(serde_json::json!({"method": "org.example.net.NoSuchMethod9", "parameters": {}}))),
        gen_step(rng, &abc, 2, None, "call"),
        Some(Step::Raw(serde_json::json!({"method": "org.example.net.Echo"}))),
        gen_step(rng, &abc, 0, Some("Count"), "more"),
        Some(raw_step(&mut r2, &abc, true)),
    ];
    push(cases, &abc, s, "raw-errors-between-calls");
    // a client that sends a call and disconnects before the service looks at it, then another client on a new connection
    // served by the SAME thread: the second client must get its own reply
    for k in 0..(if ctx.thorough { 10 } else { 3 }) {
        let one = [abc[k % 3]];
        let first = gen_step(rng, &one, 0, None, "abandon");
        let second = gen_step(rng, &one, 0, None, if k % 2 == 0 { "call" } else { "more" });
        if let (Some(Step::Gen(_, mut c1)), Some(s2)) = (first, second) {
            c1.mode = "abandon0".into();
            let steps = vec![Step::Gen(0, c1), s2];
            let mut sxs = session_case(&one, &steps);
            if let Sx::List(l) = &mut sxs {
                l[0] = sx::atom("sendclose");
            }
            cases.push(Case { input: sxs, tags: tag("send-then-close-then-new-connection") });
        }
    }
    // random sessions over 1-3 interfaces
    let n = if ctx.thorough { 60 } else { 8 };
    let families: [&[&str]; 4] = [&["a.b", "a.b.c", "a.bc"], &["org.example.s", "org.example.s.t.u", "org.example"], &["x.y.z", "x.y", "x.yy.z"], &["Q.r", "Q.r-1", "Q.r.0"]];
    for k in 0..n {
        let mut r = rng.fork();
        let ni = r.range(1, 3);
        // interface definitions: taken from the run's random definitions, renamed into a family of related names
        let fam = families[k % families.len()];
        let mut owned: Vec<String> = Vec::new();
        let mut guard = 0;
        while owned.len() < ni && guard < 50 {
            guard += 1;
            let base: String = if k % 3 == 0 || texts_pool.is_empty() { abc[r.below(3)].to_string() } else { r.pick(texts_pool).clone() };
            let idl = match Idl::parse(&base) {
                Ok(i) => i,
                Err(_) => continue,
            };
            if !matches!(generate_inproc(&base, false), GenStatus::Ok(_)) {
                continue;
            }
            let renamed = base.replacen(&format!("interface {}", idl.name), &format!("interface {}", fam[owned.len()]), 1);
            match Idl::parse(&renamed) {
                Ok(i2) if i2.name == fam[owned.len()] && !i2.methods.is_empty() => owned.push(renamed),
                _ => continue,
            }
        }
        if owned.is_empty() {
            continue;
        }
        let texts: Vec<&str> = owned.iter().map(|s| s.as_str()).collect();
        let len = r.range(2, 6);
        let mut steps: Vec<Option<Step>> = Vec::new();
        for j in 0..len {
            let i = r.below(texts.len());
            let last = j + 1 == len;
            steps.push(match r.below(10) {
                0..=3 => gen_step(&mut r, &texts, i, None, "call"),
                4 => gen_step(&mut r, &texts, i, None, "more"),
                5 => gen_step(&mut r, &texts, i, None, "oneway"),
                6 => gen_step(&mut r, &texts, i, None, "abandon"),
                7 if last => Some(raw_step(&mut r, &texts, true)),
                _ => Some(raw_step(&mut r, &texts, false)),
            });
        }
        push(cases, &texts, steps, "random");
    }
}

fn all_cases(ctx: &Ctx) -> Vec<Case> {
    let mut rng = Rng::new(ctx.seed);
    let mut cases: Vec<Case> = Vec::new();
    // corpus first
    let corpus = if std::env::var("VERIF_GEN_WRITE_CORPUS").is_ok() { Err(()) } else { std::fs::read_to_string(concat!(env!("CARGO_MANIFEST_DIR"), "/corpus/gen.txt")).map_err(|_| ()) };
    if let Ok(txt) = corpus {
        for l in txt.lines() {
            if l.trim_start().starts_with('(') {
                if let Some(s) = sx::parse(l) {
                    cases.push(Case { input: s, tags: vec!["origin:corpus".into()] });
                }
            }
        }
    }
    // built-in witnesses (the corpus file is written from these; they are cheap to compile)
    for (class, text) in witnesses() {
        cases.push(Case { input: compile_case(text), tags: vec!["kind:compile".into(), "origin:witness".into(), format!("class:{}", class)] });
        if class == "ok" {
            cases.push(Case { input: desc_case(text), tags: vec!["kind:desc".into()] });
        }
        let mut r2 = rng.fork();
        cases_for_program(&mut r2, text, class == "ok", &mut cases, "witness");
    }
    excluded_cases(&mut cases);
    // the repository's own definitions
    for text in repo_idls() {
        cases.push(Case { input: compile_case(&text), tags: vec!["kind:compile".into(), "origin:repo".into()] });
        let mut r2 = rng.fork();
        cases_for_program(&mut r2, &text, true, &mut cases, "repo");
    }
    // grammar-directed programs
    let (n_benign, n_hostile, n_reject) = if ctx.thorough { (115, 45, 60) } else { (9, 4, 12) };
    let mut texts: Vec<String> = Vec::new();
    for k in 0..n_benign {
        let mut r2 = rng.fork();
        let anon_err = k % 6 == 5; // anonymous types in error parameters are part of the quantifier (known finding)
        let idl = idlgen::benign(&mut r2, k, &idlgen::GenOpts { max_depth: 4, anon_in_errors: anon_err });
        let header = match k % 4 {
            0 => String::new(),
            1 => "# generated definition\n# second line \u{e4}\u{20ac}\n".to_string(),
            2 => "\n\n  # indented comment with \"quotes\" and \\ backslash\n".to_string(),
            _ => "#\n".to_string(),
        };
        let mut text = idl_text(&idl, &header);
        let mut deco: Vec<String> = Vec::new();
        if k % 3 == 1 {
            text = format!("{}{}", NASTY_COMMENTS, text);
            deco.push("deco:hostile-comments".into());
        }
        let eol = match k % 7 {
            2 => "\r\n",
            4 => "\r",
            6 => if k % 2 == 0 { "\u{2028}" } else { "\u{2029}" },
            _ => "\n",
        };
        if eol != "\n" {
            text = with_eol(&text, eol);
            deco.push(format!("deco:eol-{:?}", eol));
        }
        if Idl::parse(&text).is_err() {
            // the real parser has the last word on what is a definition (reported as an ordinary rejected text below)
            deco.push("deco:rejected".into());
        }
        let mut ctags = vec!["kind:compile".to_string(), "origin:benign".to_string()];
        ctags.extend(deco.iter().cloned());
        cases.push(Case { input: compile_case(&text), tags: ctags });
        cases.push(Case { input: desc_case(&text), tags: vec!["kind:desc".into()] });
        cases_for_program(&mut r2, &text, true, &mut cases, "benign");
        texts.push(text);
    }
    for k in 0..n_hostile {
        let mut r2 = rng.fork();
        let class = if ctx.thorough { idlgen::HOSTILE[k % idlgen::HOSTILE.len()] } else { *r2.pick(idlgen::HOSTILE) };
        let idl = idlgen::hostile(&mut r2, 1000 + k, class);
        let text = idl_text(&idl, "");
        cases.push(Case { input: compile_case(&text), tags: vec!["kind:compile".into(), "origin:hostile".into(), format!("inject:{}", class)] });
        cases_for_program(&mut r2, &text, class.starts_with("ok:"), &mut cases, "hostile");
    }
    // pairs of classes (thorough): which failing phase is reported first
    if ctx.thorough {
        for (label, text) in pair_witnesses() {
            cases.push(Case { input: compile_case(text), tags: vec!["kind:compile".into(), "origin:pair-witness".into(), format!("pair:{}", label)] });
        }
        let bad: Vec<&str> = idlgen::HOSTILE.iter().cloned().filter(|c| !c.starts_with("ok:")).collect();
        for k in 0..40 {
            let mut r2 = rng.fork();
            let a = *r2.pick(&bad);
            let b = *r2.pick(&bad);
            let idl = idlgen::hostile2(&mut r2, 2000 + k, a, b);
            let text = idl_text(&idl, "");
            if Idl::parse(&text).is_ok() {
                cases.push(Case { input: compile_case(&text), tags: vec!["kind:compile".into(), "origin:hostile-pair".into(), format!("inject:{}", a), format!("inject:{}", b)] });
            }
        }
    }
    // front-ends on accepted definitions
    let fronts = ["build", "tosource", "bin", "bin-stdin"];
    for (i, text) in texts.iter().take(if ctx.thorough { 12 } else { 3 }).enumerate() {
        cases.push(Case { input: front_case("compile", text), tags: vec!["kind:front".into(), "front:compile".into(), "parse:accepted".into()] });
        for w in ["reader-bytewise", "reader-members", "reader-chain", "reader-ragged", "bin-pipe2"] {
            if ctx.thorough || w != "bin-pipe2" || i == 0 {
                cases.push(Case { input: front_case(w, text), tags: vec!["kind:front".into(), format!("front:{}", w), "parse:accepted".into()] });
            }
        }
        for w in fronts {
            cases.push(Case { input: front_case(w, text), tags: vec!["kind:front".into(), format!("front:{}", w), "parse:accepted".into()] });
        }
        // (the macro takes the text as r#"…"#: a text containing `"#` cannot be handed to it)
        if i < 2 && !text.contains("\"#") {
            cases.push(Case { input: front_case("derive", text), tags: vec!["kind:front".into(), "front:derive".into(), "parse:accepted".into()] });
        }
    }
    for w in ["reader-bytewise", "reader-members", "reader-chain", "reader-ragged", "bin-pipe2"] {
        cases.push(Case { input: front_case(w, SESSION_A), tags: vec!["kind:front".into(), format!("front:{}", w), "parse:accepted".into()] });
        cases.push(Case { input: front_case(w, "interface org.example.w\nmethod lower() -> ()\n"), tags: vec!["kind:front".into(), format!("front:{}", w), "parse:rejected".into()] });
    }
    for w in ["build", "tosource", "bin", "derive", "compile"] {
        cases.push(Case { input: front_case(w, witnesses()[0].1), tags: vec!["kind:front".into(), format!("front:{}", w), "gen:panic".into()] });
    }
    // the build helper on SEVERAL files in one call (what a build.rs with more than one interface does), and the
    // outcome of the helper on the whole batch inside the probe package's own build script
    {
        let ok_w: Vec<&str> = witnesses().into_iter().filter(|w| w.0 == "ok").map(|w| w.1).collect();
        cases.push(Case { input: frontmany_case(&ok_w[..3.min(ok_w.len())]), tags: vec!["kind:frontmany".into(), "files:valid".into()] });
        if texts.len() >= 2 {
            let t: Vec<&str> = texts.iter().take(3).map(|s| s.as_str()).collect();
            cases.push(Case { input: frontmany_case(&t), tags: vec!["kind:frontmany".into(), "files:valid".into()] });
            cases.push(Case { input: frontmany_case(&[t[0], "interface org.example.bad\nmethod lower() -> ()\n", t[1]]), tags: vec!["kind:frontmany".into(), "files:rejected-in-the-middle".into()] });
            cases.push(Case { input: frontmany_case(&[t[1], witnesses()[0].1, t[0]]), tags: vec!["kind:frontmany".into(), "files:panic-in-the-middle".into()] });
        }
        if ctx.thorough {
            for k in 0..8 {
                let n = 2 + k % 4;
                let t: Vec<&str> = texts.iter().skip(3 + k * 4).take(n).map(|s| s.as_str()).collect();
                if t.len() >= 2 {
                    cases.push(Case { input: frontmany_case(&t), tags: vec!["kind:frontmany".into(), "files:valid".into()] });
                }
            }
        }
        cases.push(Case { input: sx::tagged("helper-batch", vec![]), tags: vec!["kind:helper-batch".into()] });
    }
    // option matrix: tosource x preamble, every output compiled
    {
        let ok_w: Vec<&str> = witnesses().into_iter().filter(|w| w.0 == "ok").map(|w| w.1).collect();
        let mut subjects: Vec<String> = vec![ok_w[ok_w.len() - 1].to_string(), ok_w[2].to_string()];
        if ctx.thorough {
            subjects.extend(texts.iter().step_by(9).take(6).cloned());
        }
        for t in &subjects {
            for tosource in [true, false] {
                for pre in ["none", "empty", "one", "several"] {
                    cases.push(Case { input: options_case(t, tosource, pre), tags: vec!["kind:options".into(), format!("tosource:{}", tosource), format!("preamble:{}", pre)] });
                }
            }
        }
        // the *_type options on a definition with every base type in method input, output, error parameters and typedefs
        let typed = "interface org.example.w\ntype T (f: float, l: []float, o: ?int, m: [string]bool, s: ?string)\nmethod F(b: bool, i: int, f: float, s: string, t: T) -> (b: bool, i: int, f: float, s: string, t: ?T)\nmethod G() -> (x: []float)\nerror E (b: bool, i: int, f: float, s: string)\nerror F2 (f: ?float, l: []int)\n";
        for pre in ["float-f32", "int-i32", "int-i128", "string-path", "bool-path", "all-types"] {
            for tosource in [false, true] {
                if ctx.thorough || !tosource || pre == "all-types" {
                    cases.push(Case { input: options_case(typed, tosource, pre), tags: vec!["kind:options".into(), format!("types:{}", pre)] });
                }
            }
        }
        cases.push(Case { input: options_case(witnesses()[0].1, true, "one"), tags: vec!["kind:options".into(), "gen:panic".into()] });
        cases.push(Case { input: options_case("interface org.example.w\n", true, "one"), tags: vec!["kind:options".into(), "parse:rejected".into()] });
    }
    // the cargo_build* entry points on input paths whose directory components contain dots / start with ./ or ../
    {
        let subject = witnesses().into_iter().filter(|w| w.0 == "ok").map(|w| w.1).next().unwrap();
        let rels = ["org.example.plain.varlink", "./org.example.dot.varlink", "./src/org.example.x.varlink", "ifaces-1.0/org.example.x.varlink",
                    "../sibling.d/org.example.x.varlink", "a.b/c.d/e.f.varlink", "./v1.2.3/x.varlink", "nodots/x.varlink"];
        for (k, rel) in rels.iter().enumerate() {
            for which in ["tosource", "one", "many"] {
                if ctx.thorough || which == "tosource" || k % 3 == 0 {
                    cases.push(Case { input: frontpath_case(which, rel, subject), tags: vec!["kind:frontpath".into(), format!("front:{}", which), format!("path:{}", rel)] });
                }
            }
        }
        cases.push(Case { input: frontpath_case("tosource", "./src.d/org.example.bad.varlink", "interface org.example.w\n"), tags: vec!["kind:frontpath".into(), "parse:rejected".into()] });
        // two helper calls in one process, relative paths, rustfmt on
        for (r1, r2) in [("src/org.example.one.varlink", "src/org.example.two.varlink"), ("a/org.example.one.varlink", "b/c/org.example.two.varlink"), ("org.example.one.varlink", "./sub/org.example.two.varlink")] {
            cases.push(Case { input: tosource2_case(r1, r2, subject, SESSION_B), tags: vec!["kind:tosource2".into()] });
        }
    }
    // generating twice into the same place: long then short (a stale tail must not survive), short then long, same twice
    {
        let ok_w: Vec<&str> = witnesses().into_iter().filter(|w| w.0 == "ok").map(|w| w.1).collect();
        let short = "interface org.example.w\nmethod Foo() -> ()\n";
        let long = ok_w.iter().cloned().max_by_key(|t| t.len()).unwrap();
        for which in ["one", "many", "tosource"] {
            for (a, b, tag) in [(long, short, "long-then-short"), (short, long, "short-then-long"), (long, long, "same-twice")] {
                cases.push(Case { input: regen_case(which, a, b), tags: vec!["kind:regen".into(), format!("front:{}", which), format!("regen:{}", tag)] });
            }
        }
        // another revision of the definition whose time stamp is older than the output of the first run (a checkout of an
        // older revision, an unpacked archive): the bindings must follow the definition, not the clock
        for which in ["one-older", "many-older", "tosource-older"] {
            for (a, b, tag) in [(long, short, "long-then-short"), (short, long, "short-then-long")] {
                cases.push(Case { input: regen_case(which, a, b), tags: vec!["kind:regen".into(), format!("front:{}", which), format!("regen:{}-older-timestamp", tag)] });
            }
        }
        // a rejected definition must be refused with a diagnostic EVERY time (the failed first run must not make the second
        // run believe there is nothing to do), also right after / before an accepted one
        let bad = "interface org.example.w\nmethod lower() -> ()\n";
        let bad2 = "interface org.example.w\nmethod Foo(a: int,\n";
        for which in ["one", "many", "tosource"] {
            for (a, b, tag) in [(bad, bad, "rejected-twice"), (short, bad, "accepted-then-rejected"), (bad, short, "rejected-then-accepted"), (bad2, bad, "rejected-then-other-rejected")] {
                cases.push(Case { input: regen_case(which, a, b), tags: vec!["kind:regen".into(), format!("front:{}", which), format!("regen:{}", tag)] });
            }
        }
        if ctx.thorough && texts.len() > 8 {
            for k in 0..6 {
                let (a, b) = (&texts[k], &texts[k + 2]);
                cases.push(Case { input: regen_case(["one", "many", "tosource"][k % 3], a, b), tags: vec!["kind:regen".into(), "regen:random-pair".into()] });
            }
        }
    }
    // a definition the generator handles but rustc rejects: the proc macro must fail in rustc, the other
    // front-ends still emit the text
    for w in ["derive", "build", "bin"] {
        cases.push(Case { input: front_case(w, witnesses()[4].1), tags: vec!["kind:front".into(), format!("front:{}", w), "gen:rustc-fail".into()] });
    }
    for (class, text) in witnesses() {
        if class == "rejected" {
            for w in ["build", "tosource", "bin", "bin-stdin", "compile"] {
                cases.push(Case { input: front_case(w, text), tags: vec!["kind:front".into(), format!("front:{}", w), "parse:rejected-witness".into()] });
            }
            if text.starts_with('\u{b}') || (ctx.thorough && !text.contains("\"#")) {
                cases.push(Case { input: front_case("derive", text), tags: vec!["kind:front".into(), "front:derive".into(), "parse:rejected-witness".into()] });
            }
        }
    }
    // rejected texts
    let base: Vec<String> = if texts.is_empty() { repo_idls() } else { texts.clone() };
    let mut nrej = 0;
    let mut guard = 0;
    while nrej < n_reject && guard < 2000 {
        guard += 1;
        let t = rng.pick(&base).clone();
        let (mt, tag) = idlgen::mutate_text(&mut rng, &t);
        let w = if nrej % 7 == 6 { "derive" } else if nrej % 5 == 4 { "compile" } else { fronts[nrej % 4] };
        if mt.contains("\"#") {
            continue;
        }
        match Idl::parse(&mt) {
            Err(k) => {
                nrej += 1;
                cases.push(Case { input: front_case(w, &mt), tags: vec!["kind:front".into(), format!("front:{}", w), format!("parse:rejected-{}", k), format!("mutation:{}", tag)] });
            }
            Ok(_) => {
                // still accepted: an ordinary program
                cases.push(Case { input: compile_case(&mt), tags: vec!["kind:compile".into(), "origin:mutant-accepted".into()] });
            }
        }
    }
    // ad-hoc definitions for experiments: VERIF_GEN_EXTRA=<file of `label<TAB>text with \n escapes`>
    if let Ok(p) = std::env::var("VERIF_GEN_EXTRA") {
        if let Ok(txt) = std::fs::read_to_string(p) {
            for l in txt.lines() {
                if let Some((label, t)) = l.split_once('\t') {
                    let text = t.replace("\\n", "\n");
                    cases.push(Case { input: compile_case(&text), tags: vec!["kind:compile".into(), format!("extra:{}", label)] });
                }
            }
        }
    }
    // sessions: several calls over ONE connection, on a service with 1-3 generated interfaces
    {
        let mut r2 = rng.fork();
        session_cases(&mut r2, ctx, &texts, &mut cases);
    }
    // a case line occurs once (corpus lines and built-in witnesses overlap)
    let mut seen = std::collections::HashSet::new();
    cases.retain(|c| seen.insert(c.input.render()));
    cases
}

// ------------------------------------------------------------------ running a batch

static PREPARED: Mutex<Option<HashMap<String, String>>> = Mutex::new(None);
static PLANNED: Mutex<Vec<String>> = Mutex::new(Vec::new());

struct Prog {
    text: String,
    status: GenStatus,
    idl: Option<Idl>,
    stem: String,
    calls: Vec<(usize, CallCase)>,
}

fn category(errors: &[(String, String, bool, bool)]) -> Sx {
    let any_gen = errors.iter().any(|e| e.2);
    if !any_gen {
        return sx::atom("harness-error");
    }
    let has = |codes: &[&str]| errors.iter().any(|e| codes.contains(&e.0.as_str()));
    let cat = if errors.iter().any(|e| e.0.is_empty() && e.1.starts_with("expected identifier, found")) {
        "syntax".to_string()
    } else if has(&["E0428", "E0255", "E0124", "E0415"]) {
        "dup".into()
    } else if has(&["E0412", "E0425", "E0433"]) {
        "unresolved".into()
    } else if has(&["E0107", "E0404", "E0308", "E0053", "E0530"]) {
        // before `infinite`/`ambiguous`: a shadowed `Option`/`From` hides those (nothing hides these)
        "shadow".into()
    } else if has(&["E0072"]) {
        "infinite".into()
    } else if has(&["E0034"]) {
        "ambiguous".into()
    } else if has(&["E0170"]) {
        "lint".into()
    } else {
        let mut c: Vec<String> = errors.iter().map(|e| if e.0.is_empty() { "nocode".to_string() } else { e.0.clone() }).collect();
        c.sort();
        c.dedup();
        format!("other-{}", c.join("-"))
    };
    sx::tagged("fail", vec![sx::atom(cat)])
}

fn items_sx(output: &str) -> (Sx, Sx) {
    let (mut items, mut traits) = build::scan_items(output);
    items.sort_by(|a, b| (a.1.as_bytes(), a.0.as_bytes()).cmp(&(b.1.as_bytes(), b.0.as_bytes())));
    traits.sort_by(|a, b| a.0.as_bytes().cmp(b.0.as_bytes()));
    let i = sx::tagged("items", items.iter().map(|(k, n)| sx::list(vec![sx::atom(k.clone()), sx::xs(n)])).collect());
    let f = sx::tagged(
        "fns",
        traits
            .iter()
            .map(|(t, fs)| {
                let mut fs = fs.clone();
                fs.sort();
                let mut l = vec![sx::xs(t)];
                l.extend(fs.iter().map(|f| sx::xs(f)));
                sx::list(l)
            })
            .collect(),
    );
    (i, f)
}

fn run_tool(cmd: &mut std::process::Command) -> (Option<i32>, Vec<u8>, String) {
    match cmd.output() {
        Ok(o) => (o.status.code(), o.stdout, String::from_utf8_lossy(&o.stderr).to_string()),
        Err(e) => (None, Vec::new(), format!("spawn failed: {}", e)),
    }
}

fn status_of(code: Option<i32>, stderr: &str) -> &'static str {
    if code == Some(0) {
        "ok"
    } else if stderr.contains("panicked at") {
        "panic"
    } else {
        "err"
    }
}

/// a reader that returns one piece per `read` call (short reads), then EOF
struct PieceReader {
    pieces: Vec<Vec<u8>>,
    at: usize,
    off: usize,
}
impl std::io::Read for PieceReader {
    fn read(&mut self, buf: &mut [u8]) -> std::io::Result<usize> {
        while self.at < self.pieces.len() && self.off >= self.pieces[self.at].len() {
            self.at += 1;
            self.off = 0;
        }
        if self.at >= self.pieces.len() || buf.is_empty() {
            return Ok(0);
        }
        let p = &self.pieces[self.at];
        let n = (p.len() - self.off).min(buf.len());
        buf[..n].copy_from_slice(&p[self.off..self.off + n]);
        self.off += n;
        Ok(n)
    }
}

/// how a definition text is cut into pieces for the short-read front-ends
fn split_pieces(which: &str, text: &str) -> Vec<Vec<u8>> {
    let b = text.as_bytes();
    match which {
        "reader-bytewise" => b.iter().map(|x| vec![*x]).collect(),
        "reader-members" => {
            // a new piece at every line that starts a member (or a comment)
            let mut out: Vec<Vec<u8>> = vec![Vec::new()];
            for line in text.split_inclusive(|c| c == '\n' || c == '\r' || c == '\u{2028}' || c == '\u{2029}') {
                let t = line.trim_start();
                if (t.starts_with("method ") || t.starts_with("type ") || t.starts_with("error ") || t.starts_with('#')) && !out.last().unwrap().is_empty() {
                    out.push(Vec::new());
                }
                out.last_mut().unwrap().extend_from_slice(line.as_bytes());
            }
            out
        }
        "reader-ragged" => {
            // pieces of 1, 2, 3, … bytes
            let mut out = Vec::new();
            let (mut i, mut n) = (0usize, 1usize);
            while i < b.len() {
                let e = (i + n).min(b.len());
                out.push(b[i..e].to_vec());
                i = e;
                n += 1;
            }
            out
        }
        _ => {
            // two pieces, cut right after the first member (Cursor::chain of two buffers; a pipe written twice)
            let cut = text.find("\n\n").map(|p| p + 1).or_else(|| text.find('\n').map(|p| p + 1)).unwrap_or(b.len() / 2).min(b.len());
            let cut = if cut == 0 || cut >= b.len() { b.len() / 2 } else { cut };
            vec![b[..cut].to_vec(), b[cut..].to_vec()]
        }
    }
}

fn front_obs(which: &str, text: &str, derive_res: &BTreeMap<String, build::BinResult>) -> Sx {
    let accepted = match Idl::parse(text) {
        Ok(_) => sx::atom("ok"),
        Err(k) => sx::tagged("rej", vec![sx::atom(k)]),
    };
    let dir = build::work_dir().join("front").join(format!("{:016x}-{}", build::fnv(text.as_bytes()), which));
    let _ = std::fs::remove_dir_all(&dir);
    let _ = std::fs::create_dir_all(dir.join("out"));
    let input = dir.join("org.example.input.varlink");
    std::fs::write(&input, text).expect("front input");
    let reference = |tosource: bool| match generate_inproc(text, tosource) {
        GenStatus::Ok(s) => Some(s),
        _ => None,
    };
    let (status, emitted, same): (&str, bool, Option<bool>) = match which {
        "build" => {
            let mut c = std::process::Command::new(build::bin_path("fe_build"));
            c.arg("many").arg(dir.join("out")).arg(&input);
            let (code, _, err) = run_tool(&mut c);
            let produced = std::fs::read_to_string(dir.join("out").join("org.example.input.rs")).unwrap_or_default();
            (status_of(code, &err), !produced.is_empty(), reference(false).map(|r| r == produced))
        }
        "tosource" => {
            let mut c = std::process::Command::new(build::bin_path("fe_build"));
            c.arg("tosource").arg(dir.join("out")).arg(&input);
            let (code, _, err) = run_tool(&mut c);
            let produced = std::fs::read_to_string(dir.join("org_example_input.rs")).unwrap_or_default();
            (status_of(code, &err), !produced.is_empty(), reference(true).map(|r| r == produced))
        }
        "compile" => {
            // varlink_generator::compile(): the entry point of the varlink!/varlink_file! macros
            let owned = text.to_string();
            let r = std::panic::catch_unwind(move || varlink_generator::compile(owned).map(|ts| ts.to_string()));
            match r {
                Ok(Ok(produced)) => ("ok", !produced.is_empty(), reference(true).map(|r| r == produced)),
                Ok(Err(_)) => ("err", false, reference(true).map(|_| false)),
                Err(_) => ("panic", false, reference(true).map(|_| false)),
            }
        }
        "reader-bytewise" | "reader-members" | "reader-chain" | "reader-ragged" => {
            // generate() on a reader that hands the definition over in several pieces (short reads) before EOF
            let pieces: Vec<Vec<u8>> = split_pieces(which, text);
            let mut w: Vec<u8> = Vec::new();
            let r = std::panic::catch_unwind(std::panic::AssertUnwindSafe(|| {
                let mut rd = PieceReader { pieces, at: 0, off: 0 };
                varlink_generator::generate(&mut rd, &mut w, false)
            }));
            let produced = String::from_utf8_lossy(&w).to_string();
            let st = match r {
                Ok(Ok(())) => "ok",
                Ok(Err(_)) => "err",
                Err(_) => "panic",
            };
            (st, !produced.is_empty(), reference(false).map(|r| r == produced))
        }
        "bin-pipe2" => {
            // the CLI reading stdin from a pipe that is written in two pieces with a pause in between
            use std::io::Write;
            let mut c = std::process::Command::new(build::target_dir().join("debug").join("varlink-rust-generator"));
            c.arg("--nosource").arg("-").stdin(std::process::Stdio::piped()).stdout(std::process::Stdio::piped()).stderr(std::process::Stdio::piped());
            match c.spawn() {
                Err(_) => ("spawn-failed", false, None),
                Ok(mut child) => {
                    let bytes = text.as_bytes().to_vec();
                    let cut = split_pieces("reader-chain", text).first().map(|p| p.len()).unwrap_or(bytes.len() / 2);
                    if let Some(mut stdin) = child.stdin.take() {
                        let _ = stdin.write_all(&bytes[..cut]);
                        let _ = stdin.flush();
                        std::thread::sleep(std::time::Duration::from_millis(120));
                        let _ = stdin.write_all(&bytes[cut..]);
                        let _ = stdin.flush();
                    }
                    match child.wait_with_output() {
                        Ok(o) => {
                            let produced = String::from_utf8_lossy(&o.stdout).to_string();
                            let err = String::from_utf8_lossy(&o.stderr).to_string();
                            (status_of(o.status.code(), &err), !produced.is_empty(), reference(false).map(|r| r == produced))
                        }
                        Err(_) => ("wait-failed", false, None),
                    }
                }
            }
        }
        "bin" | "bin-stdin" => {
            let mut c = std::process::Command::new(build::target_dir().join("debug").join("varlink-rust-generator"));
            c.arg("--nosource");
            if which == "bin" {
                c.arg(&input);
            } else {
                c.arg("-").stdin(std::fs::File::open(&input).expect("front input"));
            }
            let (code, out, err) = run_tool(&mut c);
            let produced = String::from_utf8_lossy(&out).to_string();
            (status_of(code, &err), !produced.is_empty(), reference(false).map(|r| r == produced))
        }
        _ => {
            // derive: the bin d<hash> of this batch
            let stem = format!("d{:016x}", build::fnv(text.as_bytes()));
            match derive_res.get(&stem) {
                Some(r) if r.built => ("ok", true, None),
                Some(r) => {
                    let msg: String = r.errors.iter().map(|e| e.1.clone()).collect::<Vec<_>>().join("\n");
                    if msg.contains("proc macro panicked") || msg.contains("proc-macro") && msg.contains("panicked") {
                        if msg.contains("Parse(") || msg.contains("Idl(") || msg.contains("Parse {") {
                            ("err", false, None)
                        } else {
                            ("panic", false, None)
                        }
                    } else {
                        ("rustc-fail", true, None)
                    }
                }
                None => ("not-built", false, None),
            }
        }
    };
    sx::tagged(
        "front",
        vec![accepted, sx::atom(status), sx::boolean(emitted), match same {
            None => sx::atom("-"),
            Some(b) => sx::boolean(b),
        }],
    )
}

/// one cargo_build* entry point on an input path given RELATIVE to the working directory of the child process
fn frontpath_obs(which: &str, rel: &str, text: &str) -> Sx {
    let accepted = match Idl::parse(text) {
        Ok(_) => sx::atom("ok"),
        Err(k) => sx::tagged("rej", vec![sx::atom(k)]),
    };
    let base = build::work_dir().join("front").join(format!("{:016x}-path", build::fnv(format!("{}\u{0}{}\u{0}{}", which, rel, text).as_bytes())));
    let _ = std::fs::remove_dir_all(&base);
    let cwd = base.join("level1").join("cwd");
    let out = base.join("out");
    let _ = std::fs::create_dir_all(&cwd);
    let _ = std::fs::create_dir_all(&out);
    let input = cwd.join(rel);
    if let Some(d) = input.parent() {
        let _ = std::fs::create_dir_all(d);
    }
    std::fs::write(&input, text).expect("front input");
    let mut c = std::process::Command::new(build::bin_path("fe_build"));
    c.current_dir(&cwd).arg(which).arg(&out).arg(rel);
    let (code, _, err) = run_tool(&mut c);
    // where the documentation says the output goes
    let rel_path = std::path::Path::new(rel);
    let fname = rel_path.file_name().unwrap().to_string_lossy().to_string();
    let expected = if which == "tosource" {
        let stem = fname.strip_suffix(".varlink").unwrap_or(&fname).replace('.', "_");
        input.parent().unwrap().join(format!("{}.rs", stem))
    } else {
        out.join(std::path::Path::new(&fname).with_extension("rs"))
    };
    let produced = std::fs::read_to_string(&expected).unwrap_or_default();
    let same = match generate_inproc(text, which == "tosource") {
        GenStatus::Ok(r) => sx::boolean(r == produced),
        _ => sx::atom("-"),
    };
    sx::tagged("frontpath", vec![accepted, sx::atom(status_of(code, &err)), sx::boolean(!produced.is_empty()), same])
}

/// one step of a session
#[derive(Clone, Debug)]
pub enum Step {
    /// generated client call on interface `iface` (index into the session's interface list)
    Gen(usize, CallCase),
    /// a request written by hand on the shared connection (one reply is read back)
    Raw(Value),
}

fn step_sx(s: &Step) -> Sx {
    match s {
        Step::Gen(i, c) => sx::tagged("g", vec![sx::nat(*i), sx::xs(&c.method), sx::atom(c.mode.clone()), val_sx(&c.args), sx::tagged("script", c.script.iter().map(action_sx).collect())]),
        Step::Raw(v) => sx::tagged("r", vec![sx::json(v)]),
    }
}

fn session_case(texts: &[&str], steps: &[Step]) -> Sx {
    sx::tagged("session", vec![sx::tagged("ifaces", texts.iter().map(|t| src_sx(t)).collect()), sx::tagged("steps", steps.iter().map(step_sx).collect())])
}

struct SessionBin {
    stem: String,
    idls: Vec<(String, String)>,
    source: String,
}
struct SessionPlan {
    bin: Option<SessionBin>,
    command: String,
    bad: bool,
}

/// the binary a session case needs and the command that runs it (None: not a session case)
fn plan_session(c: &Sx) -> Option<SessionPlan> {
    let l = c.as_list()?;
    let kind = l.first()?.as_atom()?.to_string();
    if kind != "session" && kind != "sendclose" {
        return None;
    }
    let bad = SessionPlan { bin: None, command: String::new(), bad: true };
    let srcs = match l.get(1).and_then(|x| x.as_list()) {
        Some(s) if s.len() > 1 => &s[1..],
        _ => return Some(bad),
    };
    let texts: Vec<String> = srcs.iter().filter_map(src_text).collect();
    if texts.len() != srcs.len() || srcs.iter().zip(texts.iter()).any(|(s, t)| s.render() != src_sx(t).render()) {
        return Some(bad);
    }
    let steps = match l.get(2).and_then(|x| x.as_list()) {
        Some(s) if !s.is_empty() => &s[1..],
        _ => return Some(bad),
    };
    let idls: Vec<Option<Idl>> = texts.iter().map(|t| if matches!(generate_inproc(t, false), GenStatus::Ok(_)) { Idl::parse(t).ok() } else { None }).collect();
    // call cases per interface, in step order; the command refers to them by index
    let mut per_iface: Vec<Vec<(usize, CallCase)>> = vec![Vec::new(); texts.len()];
    let mut cmd = vec![sx::atom("session")];
    let _ = &kind;
    for st in steps {
        let sl = match st.as_list() {
            Some(sl) if !sl.is_empty() => sl,
            _ => return Some(bad),
        };
        match sl[0].as_atom().unwrap_or("") {
            "g" => {
                let i = sl.get(1).and_then(|x| x.as_usize()).unwrap_or(usize::MAX);
                if i >= texts.len() {
                    return Some(bad);
                }
                let cc = match (sl.get(2).and_then(|x| x.as_str()), sl.get(3).and_then(|x| x.as_atom()), sl.get(4).and_then(sx_val), sl.get(5).and_then(|x| x.as_list())) {
                    (Some(method), Some(mode), Some(args), Some(sc)) => {
                        let script: Option<Vec<Action>> = sc[1..].iter().map(sx_action).collect();
                        match script {
                            Some(script) => CallCase { method, mode: mode.to_string(), args, script },
                            None => return Some(bad),
                        }
                    }
                    _ => return Some(bad),
                };
                let k = per_iface[i].len();
                // the server handles a oneway request (and a stream nobody reads) in its own time: the binary waits until the
                // implementation has logged the call before it goes on
                cmd.push(sx::tagged("g", vec![sx::nat(i), sx::nat(k), sx::boolean(cc.mode == "oneway" || cc.mode == "abandon0")]));
                per_iface[i].push((k, cc));
            }
            "r" => {
                let req = match sl.get(1).and_then(|x| x.to_json()) {
                    Some(r) => r,
                    None => return Some(bad),
                };
                let mut b = serde_json::to_vec(&req).unwrap();
                b.push(0);
                cmd.push(sx::tagged("r", vec![sx::bs(&b)]));
            }
            _ => return Some(bad),
        }
    }
    if idls.iter().any(|i| i.is_none()) {
        return Some(SessionPlan { bin: None, command: String::new(), bad: false });
    }
    let mut parts = Vec::new();
    let mut key = String::new();
    for (k, (t, idl)) in texts.iter().zip(idls.into_iter()).enumerate() {
        let mut ikey = t.clone();
        for (_, c) in &per_iface[k] {
            ikey.push_str(&call_case("", c).render());
        }
        let stem = format!("q{:016x}", build::fnv(ikey.as_bytes()));
        key.push_str(&ikey);
        key.push('\u{0}');
        parts.push((idl.unwrap(), stem, per_iface[k].clone()));
    }
    let stem = format!("s{:016x}", build::fnv(key.as_bytes()));
    let idl_files: Vec<(String, String)> = parts.iter().zip(texts.iter()).map(|(p, t)| (p.1.clone(), t.clone())).collect();
    let source = session_source(&parts);
    if kind == "sendclose" {
        // exactly two generated steps on interface 0: call cases 0 and 1
        if texts.len() != 1 || per_iface[0].len() != 2 || cmd.len() != 3 {
            return Some(SessionPlan { bin: None, command: String::new(), bad: true });
        }
        cmd = vec![sx::atom("sendclose"), sx::nat(0), sx::nat(0), sx::nat(1)];
    }
    Some(SessionPlan { bin: Some(SessionBin { stem, idls: idl_files, source }), command: sx::list(cmd).render(), bad: false })
}

/// generate twice into the same place (same input file name, the text edited in between): the output must be that of
/// a fresh generation of the second text
fn regen_obs(which: &str, first: &str, second: &str) -> Sx {
    let accepted = match Idl::parse(second) {
        Ok(_) => sx::atom("ok"),
        Err(k) => sx::tagged("rej", vec![sx::atom(k)]),
    };
    let base = build::work_dir().join("front").join(format!("{:016x}-regen", build::fnv(format!("{}\u{0}{}\u{0}{}", which, first, second).as_bytes())));
    let _ = std::fs::remove_dir_all(&base);
    let out = base.join("out");
    let _ = std::fs::create_dir_all(&out);
    let input = base.join("org.example.regen.varlink");
    let mut last = (None, String::new());
    // `<entry>-older`: the second revision of the definition carries a time stamp OLDER than the first output
    let older = which.ends_with("-older");
    let which = which.trim_end_matches("-older");
    for (round, text) in [first, second].into_iter().enumerate() {
        // an unchanged definition is left untouched (its mtime stays older than the output of the first run)
        if std::fs::read_to_string(&input).ok().as_deref() != Some(text) {
            std::fs::write(&input, text).expect("front input");
        }
        if older && round == 1 {
            if let Ok(f) = std::fs::File::options().write(true).open(&input) {
                let _ = f.set_modified(std::time::SystemTime::UNIX_EPOCH + std::time::Duration::from_secs(978_307_200));
            }
        }
        // file system timestamps have a coarse grain
        std::thread::sleep(std::time::Duration::from_millis(15));
        let mut c = std::process::Command::new(build::bin_path("fe_build"));
        c.arg(which).arg(&out).arg(&input);
        let (code, _, err) = run_tool(&mut c);
        last = (code, err);
    }
    let expected = if which == "tosource" { base.join("org_example_regen.rs") } else { out.join("org.example.regen.rs") };
    let produced = std::fs::read_to_string(&expected).unwrap_or_default();
    let same = match generate_inproc(second, which == "tosource") {
        GenStatus::Ok(r) => sx::boolean(r == produced),
        _ => sx::atom("-"),
    };
    sx::tagged("regen", vec![accepted, sx::atom(status_of(last.0, &last.1)), sx::boolean(!produced.is_empty()), same])
}

/// `cargo_build_many(&[f0, f1, …])` in one process (the fe_build tool of the probe package)
fn frontmany_obs(texts: &[String]) -> Sx {
    let mut key = String::new();
    for t in texts {
        key.push_str(t);
        key.push('\u{0}');
    }
    let dir = build::work_dir().join("front").join(format!("{:016x}-many", build::fnv(key.as_bytes())));
    let _ = std::fs::remove_dir_all(&dir);
    let _ = std::fs::create_dir_all(dir.join("out"));
    let mut c = std::process::Command::new(build::bin_path("fe_build"));
    c.arg("many").arg(dir.join("out"));
    for (k, t) in texts.iter().enumerate() {
        let f = dir.join(format!("org.example.f{}.varlink", k));
        std::fs::write(&f, t).expect("front input");
        c.arg(&f);
    }
    let (code, _, err) = run_tool(&mut c);
    let mut l = vec![sx::atom(status_of(code, &err))];
    for (k, t) in texts.iter().enumerate() {
        let produced = std::fs::read_to_string(dir.join("out").join(format!("org.example.f{}.rs", k))).unwrap_or_default();
        let same = match generate_inproc(t, false) {
            GenStatus::Ok(r) => sx::boolean(r == produced),
            _ => sx::atom("-"),
        };
        l.push(sx::list(vec![sx::boolean(!produced.is_empty()), same]));
    }
    sx::tagged("frontmany", l)
}

fn prepare(cases: &[Sx]) -> HashMap<String, String> {
    // result cache: the same batch (C08 then C09, same seed and tier) is executed once
    let lines: Vec<String> = cases.iter().map(|c| c.render()).collect();
    let mut h = build::fnv(include_str!("gen_rt_lib.rs").as_bytes());
    for l in &lines {
        h = h.wrapping_mul(31).wrapping_add(build::fnv(l.as_bytes()));
    }
    // every source file of the crates under test (a change there invalidates cached observations)
    for d in ["/repo/varlink/src", "/repo/varlink_generator/src", "/repo/varlink_generator/src/bin", "/repo/varlink_parser/src", "/repo/varlink_derive/src"] {
        let mut files: Vec<std::path::PathBuf> = std::fs::read_dir(d).map(|rd| rd.flatten().map(|e| e.path()).filter(|p| p.is_file()).collect()).unwrap_or_default();
        files.sort();
        for f in files {
            h = h.wrapping_mul(31).wrapping_add(build::fnv(&std::fs::read(&f).unwrap_or_default()));
        }
    }
    h = h.wrapping_mul(31).wrapping_add(build::fnv(&std::fs::read("/repo/Cargo.lock").unwrap_or_default()));
    h = h.wrapping_mul(31).wrapping_add(build::fnv(&std::fs::read(std::env::current_exe().unwrap()).unwrap_or_default()));
    let cache = build::work_dir().join("results").join(format!("{:016x}.txt", h));
    if std::env::var("VERIF_GEN_NOCACHE").is_err() {
        if let Ok(txt) = std::fs::read_to_string(&cache) {
            let v: Vec<&str> = txt.lines().collect();
            if v.len() == lines.len() {
                return lines.iter().cloned().zip(v.into_iter().map(|s| s.to_string())).collect();
            }
        }
    }

    // 1. programs
    let mut progs: BTreeMap<String, Prog> = BTreeMap::new();
    let mut derive_texts: Vec<String> = Vec::new();
    let mut opt_specs: Vec<build::OptSpec> = Vec::new();
    for c in cases {
        let l = match c.as_list() {
            Some(l) => l,
            None => continue,
        };
        let kind = l.first().and_then(|x| x.as_atom()).unwrap_or("");
        if kind == "frontmany" || kind == "helper-batch" || kind == "frontpath" || kind == "regen" || kind == "session" || kind == "tosource2" || kind == "sendclose" {
            continue;
        }
        if kind == "options" {
            if let (Some(t), Some(ts), Some(pre)) = (l.get(1).and_then(src_text), l.get(2).and_then(|x| x.as_atom()), l.get(3).and_then(|x| x.as_atom())) {
                if Idl::parse(&t).is_ok() || true {
                    let stem = format!("o{:016x}", build::fnv(format!("{}\u{0}{}\u{0}{}", t, ts, pre).as_bytes()));
                    if !opt_specs.iter().any(|o: &build::OptSpec| o.stem == stem) {
                        opt_specs.push(build::OptSpec { stem, idl_text: t, tosource: ts == "t", preamble: preamble_of(pre), types: types_of(pre) });
                    }
                }
            }
            continue;
        }
        if kind == "front" {
            if l.get(1).and_then(|x| x.as_atom()) == Some("derive") {
                if let Some(t) = l.get(2).and_then(src_text) {
                    if !derive_texts.contains(&t) {
                        derive_texts.push(t);
                    }
                }
            }
            continue;
        }
        let text = match l.get(1).and_then(src_text) {
            Some(t) => t,
            None => continue,
        };
        let p = progs.entry(text.clone()).or_insert_with(|| Prog { status: generate_inproc(&text, false), idl: Idl::parse(&text).ok(), text: text.clone(), stem: String::new(), calls: Vec::new() });
        if kind == "call" {
            if let Some(cc) = parse_call(l) {
                let k = p.calls.len();
                p.calls.push((k, cc));
            }
        }
    }
    let mut bins = Vec::new();
    for p in progs.values_mut() {
        if let (GenStatus::Ok(_), Some(idl)) = (&p.status, &p.idl) {
            let mut key = p.text.clone();
            for (_, c) in &p.calls {
                key.push_str(&call_case("", c).render());
            }
            p.stem = format!("p{:016x}", build::fnv(key.as_bytes()));
            bins.push(build::BinSpec { stem: p.stem.clone(), idls: vec![(p.stem.clone(), p.text.clone())], source: bin_source(idl, &p.stem, &p.calls) });
        }
    }
    // session binaries: several generated interfaces in one service
    let mut sessions: HashMap<String, SessionPlan> = HashMap::new();
    for c in cases {
        if let Some(plan) = plan_session(c) {
            if let Some(spec) = &plan.bin {
                if !bins.iter().any(|b| b.stem == spec.stem) {
                    bins.push(build::BinSpec { stem: spec.stem.clone(), idls: spec.idls.clone(), source: spec.source.clone() });
                }
            }
            sessions.insert(c.render(), plan);
        }
    }
    let derives: Vec<build::DeriveSpec> = derive_texts.iter().map(|t| build::DeriveSpec { stem: format!("d{:016x}", build::fnv(t.as_bytes())), idl_text: t.clone() }).collect();
    build::write_package(&bins, &derives, &opt_specs);
    let mut stems: Vec<String> = bins.iter().map(|b| b.stem.clone()).collect();
    stems.extend(derives.iter().map(|d| d.stem.clone()));
    stems.extend(opt_specs.iter().map(|o| o.stem.clone()));
    let built = match build::cargo_build(&stems) {
        Ok(b) => b,
        Err(e) => {
            eprintln!("{}", e);
            std::process::exit(3);
        }
    };

    // diagnostics of this batch, for the human reader
    {
        let mut m = String::new();
        for p in progs.values() {
            m.push_str(&format!("{}\t{}\n", p.stem, p.text.replace('\n', " | ")));
        }
        let _ = std::fs::write(build::work_dir().join("stems.txt"), m);
    }
    {
        let mut d = String::new();
        for (stem, r) in &built {
            for e in &r.errors {
                d.push_str(&format!("{} [{}] gen={} harness={} {}\n", stem, e.0, e.2, e.3, e.1.replace('\n', " ")));
            }
        }
        if std::env::var("VERIF_GEN_DIAG_APPEND").is_ok() {
            use std::io::Write;
            if let Ok(mut f) = std::fs::OpenOptions::new().create(true).append(true).open(build::work_dir().join("diagnostics.log")) {
                let _ = f.write_all(d.as_bytes());
            }
        }
        let _ = std::fs::write(build::work_dir().join("last-diagnostics.txt"), d);
    }

    // 2. commands per program, in case order
    let mut cmds: BTreeMap<String, Vec<(usize, String)>> = BTreeMap::new(); // stem -> (case index, command)
    let mut call_counter: BTreeMap<String, usize> = BTreeMap::new();
    let mut obs: Vec<Option<String>> = vec![None; cases.len()];
    for (ci, c) in cases.iter().enumerate() {
        let l = match c.as_list() {
            Some(l) => l,
            None => {
                obs[ci] = Some("(bad-case)".into());
                continue;
            }
        };
        let kind = l.first().and_then(|x| x.as_atom()).unwrap_or("");
        if kind == "helper-batch" {
            let st = build::helper_status();
            obs[ci] = Some(sx::tagged("helper-batch", vec![sx::atom(if st == "ok" { "ok" } else { "failed" })]).render());
            continue;
        }
        if kind == "session" || kind == "sendclose" {
            match sessions.get(&c.render()) {
                Some(SessionPlan { bin: Some(spec), command, .. }) if built.get(&spec.stem).map(|r| r.built).unwrap_or(false) => {
                    cmds.entry(spec.stem.clone()).or_default().push((ci, command.clone()));
                }
                Some(SessionPlan { bad: true, .. }) | None => obs[ci] = Some("(bad-case)".into()),
                _ => obs[ci] = Some(format!("({} nobuild)", kind)),
            }
            continue;
        }
        if kind == "tosource2" {
            let r1 = l.get(1).and_then(|x| x.as_str()).unwrap_or_default();
            let r2 = l.get(2).and_then(|x| x.as_str()).unwrap_or_default();
            let t1 = l.get(3).and_then(src_text).unwrap_or_default();
            let t2 = l.get(4).and_then(src_text).unwrap_or_default();
            if r1.is_empty() || r2.is_empty() || l.get(3).map(|s| s.render()) != Some(src_sx(&t1).render()) || l.get(4).map(|s| s.render()) != Some(src_sx(&t2).render()) {
                obs[ci] = Some("(bad-case)".into());
                continue;
            }
            obs[ci] = Some(tosource2_obs(&r1, &r2, &t1, &t2).render());
            continue;
        }
        if kind == "regen" {
            let which = l.get(1).and_then(|x| x.as_atom()).unwrap_or("");
            let t1 = l.get(2).and_then(src_text).unwrap_or_default();
            let t2 = l.get(3).and_then(src_text).unwrap_or_default();
            if l.get(2).map(|s| s.render()) != Some(src_sx(&t1).render()) || l.get(3).map(|s| s.render()) != Some(src_sx(&t2).render()) {
                obs[ci] = Some("(bad-case)".into());
                continue;
            }
            obs[ci] = Some(regen_obs(which, &t1, &t2).render());
            continue;
        }
        if kind == "frontpath" {
            let which = l.get(1).and_then(|x| x.as_atom()).unwrap_or("");
            let rel = l.get(2).and_then(|x| x.as_str()).unwrap_or_default();
            let text = l.get(3).and_then(src_text).unwrap_or_default();
            if l.get(3).map(|s| s.render()) != Some(src_sx(&text).render()) || rel.is_empty() {
                obs[ci] = Some("(bad-case)".into());
                continue;
            }
            obs[ci] = Some(frontpath_obs(which, &rel, &text).render());
            continue;
        }
        if kind == "options" {
            let text = l.get(1).and_then(src_text).unwrap_or_default();
            let ts = l.get(2).and_then(|x| x.as_atom()).unwrap_or("");
            let pre = l.get(3).and_then(|x| x.as_atom()).unwrap_or("");
            if l.get(1).map(|s| s.render()) != Some(src_sx(&text).render()) {
                obs[ci] = Some("(bad-case)".into());
                continue;
            }
            let stem = format!("o{:016x}", build::fnv(format!("{}\u{0}{}\u{0}{}", text, ts, pre).as_bytes()));
            let st = build::opt_status(&stem);
            let o = match st.as_str() {
                "ok" => {
                    let r = built.get(&stem).cloned().unwrap_or_default();
                    let rustc = if r.built { sx::atom("ok") } else { category(&r.errors) };
                    sx::tagged("options", vec![sx::atom("ok"), sx::tagged("rustc", vec![rustc])])
                }
                "err" => sx::tagged("options", vec![sx::tagged("rej", vec![sx::atom(match Idl::parse(&text) { Err(k) => k, Ok(_) => "accepted" })])]),
                "panic" => sx::tagged("options", vec![sx::atom("panic")]),
                other => sx::tagged("options", vec![sx::atom(format!("status-{}", other))]),
            };
            obs[ci] = Some(o.render());
            continue;
        }
        if kind == "frontmany" {
            let texts: Vec<String> = l[1..].iter().filter_map(src_text).collect();
            if texts.len() != l.len() - 1 || l[1..].iter().zip(texts.iter()).any(|(s, t)| s.render() != src_sx(t).render()) {
                obs[ci] = Some("(bad-case)".into());
                continue;
            }
            obs[ci] = Some(frontmany_obs(&texts).render());
            continue;
        }
        if kind == "front" {
            let which = l.get(1).and_then(|x| x.as_atom()).unwrap_or("");
            let text = l.get(2).and_then(src_text).unwrap_or_default();
            // the case line must carry the real parser's verdict
            if l.get(2).map(|s| s.render()) != Some(src_sx(&text).render()) {
                obs[ci] = Some("(bad-case)".into());
                continue;
            }
            obs[ci] = Some(front_obs(which, &text, &built).render());
            continue;
        }
        let text = match l.get(1).and_then(src_text) {
            Some(t) => t,
            None => {
                obs[ci] = Some("(bad-case)".into());
                continue;
            }
        };
        if l.get(1).map(|s| s.render()) != Some(src_sx(&text).render()) {
            obs[ci] = Some("(bad-case)".into());
            continue;
        }
        let p = &progs[&text];
        let bin_ok = !p.stem.is_empty() && built.get(&p.stem).map(|r| r.built).unwrap_or(false);
        match kind {
            "compile" => {
                let o = match &p.status {
                    GenStatus::Rejected(k) => sx::tagged("compile", vec![sx::tagged("rej", vec![sx::atom(*k)])]),
                    GenStatus::Panic(_) => sx::tagged("compile", vec![sx::atom("panic")]),
                    GenStatus::Ok(out) => {
                        let r = built.get(&p.stem).cloned().unwrap_or_default();
                        let rustc = if r.built { sx::atom("ok") } else { category(&r.errors) };
                        let (i, f) = items_sx(out);
                        sx::tagged("compile", vec![sx::atom("ok"), sx::tagged("rustc", vec![rustc]), i, f])
                    }
                };
                obs[ci] = Some(o.render());
            }
            "probe" | "call" | "raw" | "desc" => {
                if !bin_ok {
                    obs[ci] = Some(format!("({} nobuild)", kind));
                    if kind == "call" {
                        *call_counter.entry(p.stem.clone()).or_insert(0) += 1;
                    }
                    continue;
                }
                let idl = p.idl.as_ref().unwrap();
                let cmd = match kind {
                    "probe" => {
                        let root = l.get(2).map(|x| x.render()).unwrap_or_default();
                        let path: Vec<String> = l.get(3).and_then(|x| x.as_list()).map(|pl| pl[1..].iter().filter_map(|x| x.as_str()).collect()).unwrap_or_default();
                        match emitted_types(idl).into_iter().find(|e| e.root.render() == root && e.path == path) {
                            Some(e) => sx::tagged("probe", vec![sx::xs(&e.rust), l.get(4).cloned().unwrap_or(sx::atom("n"))]).render(),
                            None => {
                                obs[ci] = Some("(probe no-such-type)".into());
                                continue;
                            }
                        }
                    }
                    "desc" => format!("(desc {})", sx::xs(&p.text).render()),
                    "call" => {
                        let k = call_counter.entry(p.stem.clone()).or_insert(0);
                        let c = format!("(call {})", *k);
                        *k += 1;
                        c
                    }
                    _ => {
                        let req = l.get(2).and_then(|x| x.to_json()).unwrap_or(Value::Null);
                        let mut b = serde_json::to_vec(&req).unwrap();
                        b.push(0);
                        sx::tagged("raw", vec![sx::bs(&b)]).render()
                    }
                };
                cmds.entry(p.stem.clone()).or_default().push((ci, cmd));
            }
            _ => obs[ci] = Some("(bad-case)".into()),
        }
    }
    // 3. run the binaries (in parallel)
    let jobs: Vec<(String, Vec<(usize, String)>)> = cmds.into_iter().collect();
    let results: Mutex<Vec<(usize, String)>> = Mutex::new(Vec::new());
    let next = std::sync::atomic::AtomicUsize::new(0);
    std::thread::scope(|s| {
        for _ in 0..8 {
            s.spawn(|| loop {
                let i = next.fetch_add(1, std::sync::atomic::Ordering::SeqCst);
                if i >= jobs.len() {
                    break;
                }
                let (stem, list) = &jobs[i];
                let lines = build::run_bin(stem, &list.iter().map(|x| x.1.clone()).collect::<Vec<_>>());
                let mut r = results.lock().unwrap();
                for (j, (ci, _)) in list.iter().enumerate() {
                    r.push((*ci, lines.get(j).cloned().unwrap_or_else(|| "(probe-binary-died)".into())));
                }
            });
        }
    });
    for (ci, o) in results.into_inner().unwrap() {
        obs[ci] = Some(o);
    }
    let obs: Vec<String> = obs.into_iter().map(|o| o.unwrap_or_else(|| "(missing)".into())).collect();
    let _ = std::fs::create_dir_all(cache.parent().unwrap());
    let _ = std::fs::write(&cache, obs.join("\n") + "\n");
    lines.into_iter().zip(obs).collect()
}

impl Suite for GenSuite {
    fn generate(&self, ctx: &Ctx) -> Vec<Case> {
        let cases = all_cases(ctx);
        if let Ok(p) = std::env::var("VERIF_GEN_WRITE_CORPUS") {
            let mut s = String::new();
            for c in cases.iter().filter(|c| c.tags.iter().any(|t| t == "origin:witness") && c.tags.iter().any(|t| t == "kind:compile" || t.starts_with("excluded:"))) {
                s.push_str(&c.input.render());
                s.push('\n');
            }
            let _ = std::fs::write(p, s);
        }
        *PLANNED.lock().unwrap() = cases.iter().map(|c| c.input.render()).collect();
        cases
    }

    fn setup(&self, _ctx: &Ctx) {
        let planned: Vec<String> = PLANNED.lock().unwrap().clone();
        if planned.is_empty() {
            return;
        }
        let parsed: Vec<Sx> = planned.iter().filter_map(|l| sx::parse(l)).collect();
        let m = prepare(&parsed);
        *PREPARED.lock().unwrap() = Some(m);
    }

    fn run(&self, _ctx: &Ctx, input: &Sx) -> Sx {
        let key = input.render();
        let hit = PREPARED.lock().unwrap().as_ref().and_then(|m| m.get(&key).cloned());
        let line = match hit {
            Some(l) => l,
            None => {
                // replay: a batch of one
                let m = prepare(std::slice::from_ref(input));
                m.get(&key).cloned().unwrap_or_else(|| "(missing)".into())
            }
        };
        sx::parse(&line).unwrap_or_else(|| sx::atom("unparsable-observation"))
    }
}
