//! Shared fixtures of the suites `addr` (C16) and `proxy` (C18) and of the helper binary
//! `vhelper` (src/bin/vhelper.rs).  Declared as `crate::suites::addr::world` from suites/addr.rs
//! (`#[path]`), so that no shared file has to register a module.
//!
//! * `WorldSpec`: a scripted wire service (suites/wire.rs `svc` S-expression) plus optional
//!   extra interfaces: an `org.varlink.resolver` with a (possibly time-varying) table and (flag
//!   `up`) an upgrade echo interface `org.example.up` plus a connection-dropping `org.example.abort`.
//! * `spawn_service`: `varlink::listen` in a thread of this process, stoppable.
//! * process helpers with watchdogs: every child is killed by its guard.

use crate::suites::wire;
use crate::sx::{self, Sx};
use serde_json::{json, Value};
use std::io::Write as _;
use std::sync::{Arc, Mutex};
use varlink::{Call, CallTrait, Reply, VarlinkService};
use varlink::ConnectionHandler as _;
use std::sync::atomic::{AtomicBool, AtomicUsize, Ordering};
use std::time::{Duration, Instant};

/// what `vhelper serve --banner` prints on its stdout before it listens
pub const BANNER: &str = "vhelper-start-up-banner";
pub const UP_NAME: &str = "org.example.up";
pub const UP_DESC: &str = "interface org.example.up\nmethod Start() -> (ok: bool)\n";
pub const RESOLVER_NAME: &str = "org.varlink.resolver";
pub const RESOLVER_DESC: &str = "interface org.varlink.resolver\nmethod GetInfo() -> (vendor: string, product: string, version: string, url: string, interfaces: []string)\nmethod Resolve(interface: string) -> (address: string)\nerror InterfaceNotFound (interface: string)\n";

/// the byte transformation of the upgraded echo service
pub fn up_transform(b: u8) -> u8 {
    b.wrapping_add(1)
}

pub struct UpIface {
    pub seen: Arc<Mutex<Vec<u8>>>,
    /// set by `Start(greeting, lf_back)`: what the upgraded handler writes before it reads anything
    pub greeting: Mutex<Option<(usize, usize)>>,
}

/// the greeting of the upgraded echo service: `n` bytes `g`, with a line feed `lf_back` bytes before
/// the end (when 0 < lf_back <= n), written in one go
pub fn up_greeting(n: usize, lf_back: usize) -> Vec<u8> {
    let mut v = vec![b'g'; n];
    if lf_back > 0 && lf_back <= n {
        v[n - lf_back] = b'\n';
    }
    v
}

impl varlink::Interface for UpIface {
    fn get_description(&self) -> &'static str {
        UP_DESC
    }
    fn get_name(&self) -> &'static str {
        UP_NAME
    }
    fn call_upgraded(&self, call: &mut Call, bufreader: &mut dyn std::io::BufRead) -> varlink::Result<Vec<u8>> {
        loop {
            let n = {
                let buf = match bufreader.fill_buf() {
                    Ok(b) => b,
                    Err(_) => break,
                };
                if buf.is_empty() {
                    break;
                }
                self.seen.lock().unwrap().extend_from_slice(buf);
                let out: Vec<u8> = buf.iter().map(|b| up_transform(*b)).collect();
                if call.writer.write_all(&out).is_err() || call.writer.flush().is_err() {
                    break;
                }
                buf.len()
            };
            bufreader.consume(n);
        }
        Ok(Vec::new())
    }
    fn call(&self, call: &mut Call) -> varlink::Result<()> {
        let req = call.request.unwrap();
        if req.method == "org.example.up.Start" {
            let p = req.parameters.clone().unwrap_or(Value::Null);
            call.to_upgraded();
            match p.get("greeting").and_then(|g| g.as_u64()) {
                Some(n) if !call.is_oneway() => {
                    // the service speaks first: its reply and, right behind it, a greeting, in ONE write
                    // (the listen loop of the library calls the upgraded handler only once the client has
                    // sent something, so the greeting cannot come from there)
                    let lf = p.get("lf_back").and_then(|g| g.as_u64()).unwrap_or(0);
                    let mut b = serde_json::to_vec(&Reply::parameters(Some(json!({"ok": true})))).unwrap();
                    b.push(0);
                    b.extend_from_slice(&up_greeting(n as usize, lf as usize));
                    call.writer.write_all(&b).map_err(|_| varlink::Error::from(varlink::ErrorKind::Generic))?;
                    call.writer.flush().map_err(|_| varlink::Error::from(varlink::ErrorKind::Generic))?;
                }
                _ => call.reply_struct(Reply::parameters(Some(json!({"ok": true}))))?,
            }
            Ok(())
        } else {
            let m = req.method.to_string();
            call.reply_method_not_found(m)
        }
    }
}

pub const ABORT_NAME: &str = "org.example.abort";
pub const ABORT_DESC: &str = "interface org.example.abort\nmethod Silent() -> ()\nmethod ReplyThenAbort(delay_ms: int, token: string) -> (aborting: string)\nmethod SlowReply(delay_ms: int, token: string) -> (slow: string)\nmethod SlowStream(delay_ms: int, token: string) -> (i: int, token: string)\n";

/// a service that drops the connection: `Silent` returns an error without replying,
/// `ReplyThenAbort` replies, waits `delay_ms` and then returns an error; and a slow one:
/// `SlowReply` waits `delay_ms` before its reply, `SlowStream` (with `more`) between its two replies
pub struct AbortIface;

impl varlink::Interface for AbortIface {
    fn get_description(&self) -> &'static str {
        ABORT_DESC
    }
    fn get_name(&self) -> &'static str {
        ABORT_NAME
    }
    fn call_upgraded(&self, _call: &mut Call, _b: &mut dyn std::io::BufRead) -> varlink::Result<Vec<u8>> {
        Ok(Vec::new())
    }
    fn call(&self, call: &mut Call) -> varlink::Result<()> {
        let req = call.request.unwrap();
        match req.method.as_ref() {
            "org.example.abort.Silent" => Err(varlink::ErrorKind::Generic.into()),
            "org.example.abort.ReplyThenAbort" => {
                let p = req.parameters.clone().unwrap_or(Value::Null);
                let delay = p.get("delay_ms").and_then(|d| d.as_u64()).unwrap_or(0);
                let token = p.get("token").and_then(|d| d.as_str()).unwrap_or("").to_string();
                // `pad_bytes`: a reply larger than pipe and socket buffers, so that it is still in flight
                // when the connection is dropped
                let reply = match p.get("pad_bytes").and_then(|d| d.as_u64()) {
                    Some(n) => json!({ "aborting": token, "pad": "p".repeat(n as usize) }),
                    None => json!({ "aborting": token }),
                };
                call.reply_struct(Reply::parameters(Some(reply)))?;
                if delay > 0 {
                    std::thread::sleep(Duration::from_millis(delay));
                }
                Err(varlink::ErrorKind::Generic.into())
            }
            "org.example.abort.SlowReply" => {
                let p = req.parameters.clone().unwrap_or(Value::Null);
                let delay = p.get("delay_ms").and_then(|d| d.as_u64()).unwrap_or(0);
                let token = p.get("token").and_then(|d| d.as_str()).unwrap_or("").to_string();
                std::thread::sleep(Duration::from_millis(delay));
                call.reply_struct(Reply::parameters(Some(json!({ "slow": token }))))
            }
            "org.example.abort.SlowStream" => {
                let p = req.parameters.clone().unwrap_or(Value::Null);
                let delay = p.get("delay_ms").and_then(|d| d.as_u64()).unwrap_or(0);
                let token = p.get("token").and_then(|d| d.as_str()).unwrap_or("").to_string();
                if call.wants_more() {
                    call.set_continues(true);
                    call.reply_struct(Reply::parameters(Some(json!({ "i": 0, "token": token }))))?;
                    std::thread::sleep(Duration::from_millis(delay));
                    call.set_continues(false);
                }
                call.reply_struct(Reply::parameters(Some(json!({ "i": 1, "token": token }))))
            }
            _ => {
                let m = req.method.to_string();
                call.reply_method_not_found(m)
            }
        }
    }
}

/// `org.varlink.resolver`: entry = (interface, addresses); the k-th `Resolve` call (counted
/// over all interfaces, from 0) answers `addresses[min(k, len-1)]`, an empty address list or a
/// missing entry answers InterfaceNotFound.
pub struct ResolverIface {
    pub table: Vec<(String, Vec<String>)>,
    pub count: AtomicUsize,
}

impl varlink::Interface for ResolverIface {
    fn get_description(&self) -> &'static str {
        RESOLVER_DESC
    }
    fn get_name(&self) -> &'static str {
        RESOLVER_NAME
    }
    fn call_upgraded(&self, _call: &mut Call, _b: &mut dyn std::io::BufRead) -> varlink::Result<Vec<u8>> {
        Ok(Vec::new())
    }
    fn call(&self, call: &mut Call) -> varlink::Result<()> {
        let req = call.request.unwrap();
        match req.method.as_ref() {
            "org.varlink.resolver.GetInfo" => {
                let mut names: Vec<String> = self.table.iter().map(|e| e.0.clone()).collect();
                names.sort();
                names.dedup();
                call.reply_struct(Reply::parameters(Some(json!({
                    "vendor": "resolver-vendor", "product": "resolver-product", "version": "7",
                    "url": "http://resolver.example/", "interfaces": names }))))
            }
            "org.varlink.resolver.Resolve" => {
                let iface = req
                    .parameters
                    .as_ref()
                    .and_then(|p| p.get("interface"))
                    .and_then(|i| i.as_str())
                    .map(|s| s.to_string());
                let iface = match iface {
                    Some(i) => i,
                    None => return call.reply_invalid_parameter("interface".into()),
                };
                let k = self.count.fetch_add(1, Ordering::SeqCst);
                match self.table.iter().find(|e| e.0 == iface) {
                    Some(e) if !e.1.is_empty() => {
                        let a = &e.1[std::cmp::min(k, e.1.len() - 1)];
                        call.reply_struct(Reply::parameters(Some(json!({ "address": a }))))
                    }
                    _ => call.reply_struct(Reply::error(
                        "org.varlink.resolver.InterfaceNotFound",
                        Some(json!({ "interface": iface })),
                    )),
                }
            }
            _ => {
                let m = req.method.to_string();
                call.reply_method_not_found(m)
            }
        }
    }
}

#[derive(Clone)]
pub struct WorldSpec {
    pub svc: Sx,
    pub resolver: Option<Vec<(String, Vec<String>)>>,
    pub up: bool,
    /// served by a sequential accept loop: one connection at a time, the next one is accepted when the
    /// current one has been served to its end
    pub seq: bool,
}

impl WorldSpec {
    pub fn plain(svc: Sx) -> WorldSpec {
        WorldSpec { svc, resolver: None, up: false, seq: false }
    }
    /// `(world <svc> <resolver|-> <t|f>)`, resolver = `(resolver (x<iface> x<addr>*)*)`
    pub fn to_sx(&self) -> Sx {
        let r = match &self.resolver {
            None => sx::atom("-"),
            Some(t) => {
                let mut l = vec![sx::atom("resolver")];
                for (i, a) in t {
                    let mut e = vec![sx::xs(i)];
                    e.extend(a.iter().map(|x| sx::xs(x)));
                    l.push(sx::list(e));
                }
                sx::list(l)
            }
        };
        let mut v = vec![self.svc.clone(), r, sx::boolean(self.up)];
        if self.seq {
            v.push(sx::atom("seq"));
        }
        sx::tagged("world", v)
    }
    pub fn from_sx(s: &Sx) -> Option<WorldSpec> {
        let l = s.as_list()?;
        if (l.len() != 4 && l.len() != 5) || l[0].as_atom()? != "world" {
            return None;
        }
        let resolver = match &l[2] {
            Sx::Atom(a) if a == "-" => None,
            Sx::List(r) => {
                let mut t = Vec::new();
                for e in &r[1..] {
                    let e = e.as_list()?;
                    let i = e.first()?.as_str()?;
                    let a: Option<Vec<String>> = e[1..].iter().map(|x| x.as_str()).collect();
                    t.push((i, a?));
                }
                Some(t)
            }
            _ => return None,
        };
        Some(WorldSpec { svc: l[1].clone(), resolver, up: l[3].as_atom()? == "t", seq: l.len() == 5 })
    }
}

pub struct BuiltWorld {
    pub service: VarlinkService,
    pub seen: Arc<Mutex<Vec<u8>>>,
    pub up_seen: Arc<Mutex<Vec<u8>>>,
    pub calls: Arc<Mutex<Vec<Sx>>>,
}

pub fn build_world(w: &WorldSpec) -> BuiltWorld {
    let l = w.svc.as_list().expect("svc");
    let vendor = l[1].as_str().unwrap();
    let product = l[2].as_str().unwrap();
    let version = l[3].as_str().unwrap();
    let url = l[4].as_str().unwrap();
    let seen = Arc::new(Mutex::new(Vec::new()));
    let up_seen = Arc::new(Mutex::new(Vec::new()));
    let calls = Arc::new(Mutex::new(Vec::new()));
    let mut ifaces: Vec<Box<dyn varlink::Interface + Send + Sync>> = Vec::new();
    for i in &l[5].as_list().unwrap()[1..] {
        let il = i.as_list().unwrap();
        match il[0].as_atom().unwrap() {
            "script" | "script-avail" => ifaces.push(Box::new(wire::ScriptIface {
                name: wire::leak(&il[1].as_str().unwrap()),
                desc: wire::leak(&il[2].as_str().unwrap()),
                seen: seen.clone(),
                calls: calls.clone(),
                echo_up: false,
            })),
            // (gen) in old case lines, (gen x<name> x<idl>) in current ones
            "gen" => match il.get(1).and_then(|n| n.as_str()).unwrap_or_else(|| "org.example.vtest".to_string()).as_str() {
                "org.example.vtest" => ifaces.push(Box::new(wire::vtest::new(Box::new(wire::VTestImpl)))),
                "org.example.crlf" => ifaces.push(Box::new(wire::crlf::new(Box::new(wire::CrlfImpl)))),
                other => panic!("generated interface {}", other),
            },
            other => panic!("iface kind {}", other),
        }
    }
    if let Some(t) = &w.resolver {
        ifaces.push(Box::new(ResolverIface { table: t.clone(), count: AtomicUsize::new(0) }));
    }
    if w.up {
        ifaces.push(Box::new(UpIface { seen: up_seen.clone(), greeting: Mutex::new(None) }));
        ifaces.push(Box::new(AbortIface));
    }
    BuiltWorld { service: VarlinkService::new(vendor, product, version, url, ifaces), seen, up_seen, calls }
}

// ---------------------------------------------------------------------------
// a service running in a thread of this process

pub struct ServiceHandle {
    pub address: String,
    pub stop: Arc<AtomicBool>,
    pub seen: Arc<Mutex<Vec<u8>>>,
    pub up_seen: Arc<Mutex<Vec<u8>>>,
    pub calls: Arc<Mutex<Vec<Sx>>>,
    pub failed: Arc<Mutex<Option<String>>>,
}

impl Drop for ServiceHandle {
    fn drop(&mut self) {
        self.stop.store(true, Ordering::SeqCst);
    }
}

/// connect, retrying until the deadline (a service needs a moment to bind)
pub fn connect_retry(address: &str, deadline: Duration) -> Option<Box<dyn varlink::Stream>> {
    let t0 = Instant::now();
    loop {
        match varlink::varlink_connect(address) {
            Ok((s, _)) => return Some(s),
            Err(_) => {
                if t0.elapsed() > deadline {
                    return None;
                }
                std::thread::sleep(Duration::from_millis(2));
            }
        }
    }
}

pub fn spawn_service(w: &WorldSpec, address: &str) -> ServiceHandle {
    let built = build_world(w);
    let stop = Arc::new(AtomicBool::new(false));
    let failed = Arc::new(Mutex::new(None));
    let h = ServiceHandle {
        address: address.to_string(),
        stop: stop.clone(),
        seen: built.seen.clone(),
        up_seen: built.up_seen.clone(),
        calls: built.calls.clone(),
        failed: failed.clone(),
    };
    let addr = address.to_string();
    let service = built.service;
    if w.seq {
        // a single-threaded server: accept, serve that connection to its end, accept the next
        std::thread::spawn(move || {
            let listener = match varlink::Listener::new(&addr) {
                Ok(l) => l,
                Err(e) => {
                    *failed.lock().unwrap() = Some(format!("{:?}", e.kind()));
                    return;
                }
            };
            loop {
                if stop.load(Ordering::SeqCst) {
                    return;
                }
                match listener.accept(100) {
                    Ok(mut stream) => {
                        if let Ok((r, mut w)) = stream.split() {
                            let mut br = std::io::BufReader::new(r);
                            serve_stream(&service, &mut br, &mut w);
                        }
                        let _ = stream.shutdown();
                    }
                    Err(e) => {
                        if *e.kind() != varlink::ErrorKind::Timeout {
                            return;
                        }
                    }
                }
            }
        });
    } else {
        std::thread::spawn(move || {
            let cfg = varlink::ListenConfig { stop_listening: Some(stop), ..Default::default() };
            if let Err(e) = varlink::listen(service, &addr, &cfg) {
                *failed.lock().unwrap() = Some(format!("{:?}", e.kind()));
            }
        });
    }
    // wait until it accepts (the probe connection is closed at once)
    let _ = connect_retry(address, Duration::from_secs(3));
    h
}

// ---------------------------------------------------------------------------
// children with a guard

pub struct ChildGuard {
    pub child: Option<std::process::Child>,
    pub extra_pids: Vec<i32>,
}

impl ChildGuard {
    pub fn new(c: std::process::Child) -> ChildGuard {
        ChildGuard { child: Some(c), extra_pids: Vec::new() }
    }
    /// wait for the exit status at most `d`; None = still running
    pub fn wait_timeout(&mut self, d: Duration) -> Option<std::process::ExitStatus> {
        let t0 = Instant::now();
        let c = self.child.as_mut()?;
        loop {
            match c.try_wait() {
                Ok(Some(st)) => return Some(st),
                Ok(None) => {
                    if t0.elapsed() > d {
                        return None;
                    }
                    std::thread::sleep(Duration::from_millis(2));
                }
                Err(_) => return None,
            }
        }
    }
}

impl Drop for ChildGuard {
    fn drop(&mut self) {
        if let Some(mut c) = self.child.take() {
            let _ = c.kill();
            let _ = c.wait();
        }
        for p in &self.extra_pids {
            if *p > 1 {
                unsafe {
                    libc::kill(*p, libc::SIGKILL);
                }
            }
        }
    }
}

pub fn exe_dir() -> std::path::PathBuf {
    std::env::current_exe().unwrap().parent().unwrap().to_path_buf()
}
pub fn helper_path() -> String {
    exe_dir().join("vhelper").to_string_lossy().to_string()
}
/// the built CLI (`spec.repo_bins`); VERIF_VARLINK_CLI points at another build, e.g. one with a
/// proposed patch applied (used to test work/proposed/*.diff, never by ./check)
pub fn varlink_cli_path() -> String {
    if let Ok(p) = std::env::var("VERIF_VARLINK_CLI") {
        return p;
    }
    exe_dir().join("varlink").to_string_lossy().to_string()
}

/// read a pid file written by the helper (`--dump`), waiting a little for it
pub fn read_dump(path: &str, deadline: Duration) -> Option<Value> {
    let t0 = Instant::now();
    loop {
        if let Ok(txt) = std::fs::read_to_string(path) {
            if let Ok(v) = serde_json::from_str::<Value>(&txt) {
                return Some(v);
            }
        }
        if t0.elapsed() > deadline {
            return None;
        }
        std::thread::sleep(Duration::from_millis(2));
    }
}

/// run `f` in a thread; None if it has not finished within `d` (the thread is left behind)
pub fn with_watchdog<T: Send + 'static, F: FnOnce() -> T + Send + 'static>(d: Duration, f: F) -> Option<T> {
    let (tx, rx) = std::sync::mpsc::channel();
    std::thread::spawn(move || {
        let _ = tx.send(f());
    });
    rx.recv_timeout(d).ok()
}

/// SO_RCVTIMEO / SO_SNDTIMEO of a socket are both zero (no transport may leave a timeout behind)
pub fn no_socket_timeouts(fd: i32) -> bool {
    for opt in [libc::SO_RCVTIMEO, libc::SO_SNDTIMEO] {
        let mut tv: libc::timeval = unsafe { std::mem::zeroed() };
        let mut len = std::mem::size_of::<libc::timeval>() as libc::socklen_t;
        let r = unsafe { libc::getsockopt(fd, libc::SOL_SOCKET, opt, &mut tv as *mut _ as *mut libc::c_void, &mut len) };
        if r != 0 || tv.tv_sec != 0 || tv.tv_usec != 0 {
            return false;
        }
    }
    true
}

/// a free TCP port on the loopback interface (bound and released)
pub fn free_port() -> u16 {
    let l = std::net::TcpListener::bind("127.0.0.1:0").expect("bind");
    l.local_addr().unwrap().port()
}

/// dump of the calling process: pid, the activation variables, the descriptor table
pub fn self_dump() -> Value {
    use std::os::unix::ffi::OsStrExt;
    let pid = std::process::id();
    let mut env = serde_json::Map::new();
    if let Ok(raw) = std::fs::read("/proc/self/environ") {
        for kv in raw.split(|b| *b == 0) {
            if let Some(p) = kv.iter().position(|b| *b == b'=') {
                let k = String::from_utf8_lossy(&kv[..p]).to_string();
                if ["LISTEN_FDS", "LISTEN_PID", "LISTEN_FDNAMES", "VARLINK_ADDRESS"].contains(&k.as_str()) {
                    env.insert(k, Value::String(String::from_utf8_lossy(&kv[p + 1..]).to_string()));
                }
            }
        }
    }
    let mut fds = serde_json::Map::new();
    if let Ok(rd) = std::fs::read_dir("/proc/self/fd") {
        let mut names: Vec<i32> = rd
            .filter_map(|e| e.ok())
            .filter_map(|e| std::str::from_utf8(e.file_name().as_bytes()).ok().and_then(|s| s.parse().ok()))
            .collect();
        names.sort();
        for fd in names {
            let link = std::fs::read_link(format!("/proc/self/fd/{}", fd))
                .map(|p| p.to_string_lossy().to_string())
                .unwrap_or_default();
            if link.contains("/proc/") && link.ends_with("/fd") {
                continue; // the directory handle of this very listing
            }
            let mut o = serde_json::Map::new();
            let kind = if link.starts_with("socket:") {
                "socket"
            } else if link.starts_with("pipe:") {
                "pipe"
            } else {
                "file"
            };
            o.insert("kind".into(), json!(kind));
            if kind == "socket" {
                let mut v: libc::c_int = 0;
                let mut len = std::mem::size_of::<libc::c_int>() as libc::socklen_t;
                let r = unsafe {
                    libc::getsockopt(fd, libc::SOL_SOCKET, libc::SO_ACCEPTCONN, &mut v as *mut _ as *mut libc::c_void, &mut len)
                };
                o.insert("listening".into(), json!(r == 0 && v != 0));
                let mut ss: libc::sockaddr_storage = unsafe { std::mem::zeroed() };
                let mut sl = std::mem::size_of::<libc::sockaddr_storage>() as libc::socklen_t;
                let r = unsafe { libc::getsockname(fd, &mut ss as *mut _ as *mut libc::sockaddr, &mut sl) };
                let fam = if r != 0 {
                    "?"
                } else if ss.ss_family as i32 == libc::AF_UNIX {
                    "unix"
                } else if ss.ss_family as i32 == libc::AF_INET || ss.ss_family as i32 == libc::AF_INET6 {
                    "inet"
                } else {
                    "other"
                };
                o.insert("family".into(), json!(fam));
                if fam == "unix" {
                    let su: &libc::sockaddr_un = unsafe { &*(&ss as *const _ as *const libc::sockaddr_un) };
                    let off = 2usize;
                    let n = (sl as usize).saturating_sub(off);
                    let bytes: Vec<u8> = su.sun_path[..n.min(su.sun_path.len())].iter().map(|c| *c as u8).collect();
                    let name = if !bytes.is_empty() && bytes[0] == 0 {
                        format!("@{}", String::from_utf8_lossy(&bytes[1..]))
                    } else {
                        String::from_utf8_lossy(bytes.split(|b| *b == 0).next().unwrap_or(&[])).to_string()
                    };
                    o.insert("name".into(), json!(name));
                }
            }
            let fl = unsafe { libc::fcntl(fd, libc::F_GETFD) };
            o.insert("cloexec".into(), json!(fl >= 0 && (fl & libc::FD_CLOEXEC) != 0));
            fds.insert(format!("{}", fd), Value::Object(o));
        }
    }
    json!({ "pid": pid, "env": env, "fds": fds })
}

/// the per-connection loop of `varlink::listen` (server.rs) over arbitrary reader/writer
pub fn serve_stream(service: &VarlinkService, r: &mut dyn std::io::BufRead, w: &mut dyn std::io::Write) {
    let mut iface: Option<String> = None;
    loop {
        match service.handle(r, w, iface.clone()) {
            Ok((_, i)) => {
                iface = i;
                match r.fill_buf() {
                    Err(_) => break,
                    Ok([]) => break,
                    _ => {}
                }
            }
            Err(_) => break,
        }
    }
}

/// `Listener::new(address)` in the environment of the calling process.
/// Report: `(ok <tcp|unix> <activated t|f> <raw fd when activated, else -> x<local name>)`,
/// `(invalid)` or `(io)`; the listener is leaked so that nothing is closed or unlinked.
pub fn listener_report(address: &str) -> String {
    use std::os::unix::io::AsRawFd;
    let r = varlink::Listener::new(address);
    let s = match r {
        Err(e) => match e.kind() {
            varlink::ErrorKind::InvalidAddress => sx::tagged("invalid", vec![]),
            _ => sx::tagged("io", vec![]),
        },
        Ok(l) => {
            let (kind, act, fd, name) = match &l {
                varlink::Listener::TCP(Some(t), a) => (
                    "tcp",
                    *a,
                    t.as_raw_fd(),
                    t.local_addr().map(|a| a.to_string()).unwrap_or_else(|_| "?".into()),
                ),
                varlink::Listener::UNIX(Some(u), a) => ("unix", *a, u.as_raw_fd(), unix_name(u.as_raw_fd())),
                _ => ("none", false, -1, String::new()),
            };
            let out = sx::tagged(
                "ok",
                vec![
                    sx::atom(kind),
                    sx::boolean(act),
                    if act { sx::int(fd as i64) } else { sx::atom("-") },
                    sx::xs(&name),
                ],
            );
            std::mem::forget(l);
            out
        }
    };
    s.render()
}

/// local name of a unix socket: the path, or `@name` for the abstract namespace, `` if unnamed
pub fn unix_name(fd: i32) -> String {
    let mut ss: libc::sockaddr_storage = unsafe { std::mem::zeroed() };
    let mut sl = std::mem::size_of::<libc::sockaddr_storage>() as libc::socklen_t;
    let r = unsafe { libc::getsockname(fd, &mut ss as *mut _ as *mut libc::sockaddr, &mut sl) };
    if r != 0 || ss.ss_family as i32 != libc::AF_UNIX {
        return "?".into();
    }
    let su: &libc::sockaddr_un = unsafe { &*(&ss as *const _ as *const libc::sockaddr_un) };
    let n = (sl as usize).saturating_sub(2);
    let bytes: Vec<u8> = su.sun_path[..n.min(su.sun_path.len())].iter().map(|c| *c as u8).collect();
    if !bytes.is_empty() && bytes[0] == 0 {
        format!("@{}", String::from_utf8_lossy(&bytes[1..]))
    } else {
        String::from_utf8_lossy(bytes.split(|b| *b == 0).next().unwrap_or(&[])).to_string()
    }
}
