//! Suite `idl`: the interface-definition parser `IDL::try_from` (C11, C12).
//!
//! Case input:   (idl x<text>)
//!               (idl-deep <nesting depth> x<text>)   deterministic deep-nesting family (C12)
//!               (idl-rep <n> x<text>)                the same text parsed <n> times (hash-seed dependent paths):
//!                                                    every call must give the same observation
//!               (idl-lim x<text>)                    parsed on the calling thread while the process's
//!                                                    address-space limit (soft RLIMIT_AS) is its current size
//!                                                    + 48 MiB: parsing a small text needs a few KiB and must
//!                                                    not depend on large new mappings / new threads
//!
//! Every parse runs on a worker thread under a per-case deadline (DEADLINE_MS); a parse that does
//! not come back is observed as `(timeout <ms>)` (C12: parsing terminates in time proportional to the
//! input).  After MAX_DEEP_TIMEOUTS timeouts in the deep-nesting family (sorted by depth, so the
//! smallest offending depth is found first) the rest of that family is `(skipped)`.
//!
//! Observation (of the REAL parser, under catch_unwind):
//!   (ok x<name> x<doc> <description==input> (tk x<key>*) (mk x<key>*) (ek x<key>*)
//!       (t (x<name> x<doc> <struct|enum>)*)        typedefs in typedef_keys order
//!       (m (x<name> x<doc> <struct> <struct>)*)    methods in method_keys order
//!       (e (x<name> x<doc> <struct>)*))            errors in error_keys order
//!   (parse-error <column> x<line text> x<to_string()>)
//!   (idl-error x<message> x<to_string()>)
//!   (panic x<msg>)
//!   (timeout <deadline ms>) | (skipped)
//!   (unstable x<first> x<other>)                    idl-rep: two calls on the same text differed
//!   (display-panic parse|idl <column> x<msg>)       to_string() of the error value panicked
//!   type   = bool | int | float | string | object | (n x<typename>) | <struct> | <enum>
//!          | (a type) | (d type) | (o type)
//!   struct = (s (x<field> type)*)        enum = (e x<field>*)
use crate::rng::Rng;
use crate::sx::{self, Sx};
use crate::{Case, Ctx, Suite};
use std::convert::TryFrom;
use varlink_parser::{Error, VEnum, VStruct, VStructOrEnum, VType, VTypeExt, IDL};

pub struct IdlSuite;

// ---------------------------------------------------------------------------
// canonical dump of the public structure

pub fn dump_type(t: &VTypeExt) -> Sx {
    match t {
        VTypeExt::Plain(VType::Bool) => sx::atom("bool"),
        VTypeExt::Plain(VType::Int) => sx::atom("int"),
        VTypeExt::Plain(VType::Float) => sx::atom("float"),
        VTypeExt::Plain(VType::String) => sx::atom("string"),
        VTypeExt::Plain(VType::Object) => sx::atom("object"),
        VTypeExt::Plain(VType::Typename(n)) => sx::tagged("n", vec![sx::xs(n)]),
        VTypeExt::Plain(VType::Struct(s)) => dump_struct(s),
        VTypeExt::Plain(VType::Enum(e)) => dump_enum(e),
        VTypeExt::Array(t) => sx::tagged("a", vec![dump_type(t)]),
        VTypeExt::Dict(t) => sx::tagged("d", vec![dump_type(t)]),
        VTypeExt::Option(t) => sx::tagged("o", vec![dump_type(t)]),
    }
}

pub fn dump_struct(s: &VStruct) -> Sx {
    sx::tagged("s", s.elts.iter().map(|a| sx::list(vec![sx::xs(a.name), dump_type(&a.vtype)])).collect())
}

pub fn dump_enum(e: &VEnum) -> Sx {
    sx::tagged("e", e.elts.iter().map(|n| sx::xs(n)).collect())
}

pub fn dump_idl(idl: &IDL, input: &str) -> Sx {
    let keys = |tag: &str, v: &Vec<&str>| sx::tagged(tag, v.iter().map(|k| sx::xs(k)).collect());
    let types: Vec<Sx> = idl
        .typedef_keys
        .iter()
        .map(|k| {
            let t = &idl.typedefs[k];
            let elt = match &t.elt {
                VStructOrEnum::VStruct(s) => dump_struct(s),
                VStructOrEnum::VEnum(e) => dump_enum(e),
            };
            sx::list(vec![sx::xs(t.name), sx::xs(t.doc), elt])
        })
        .collect();
    let methods: Vec<Sx> = idl
        .method_keys
        .iter()
        .map(|k| {
            let m = &idl.methods[k];
            sx::list(vec![sx::xs(m.name), sx::xs(m.doc), dump_struct(&m.input), dump_struct(&m.output)])
        })
        .collect();
    let errors: Vec<Sx> = idl
        .error_keys
        .iter()
        .map(|k| {
            let e = &idl.errors[k];
            sx::list(vec![sx::xs(e.name), sx::xs(e.doc), dump_struct(&e.parm)])
        })
        .collect();
    sx::tagged(
        "ok",
        vec![
            sx::xs(idl.name),
            sx::xs(idl.doc),
            sx::boolean(idl.description == input),
            keys("tk", &idl.typedef_keys),
            keys("mk", &idl.method_keys),
            keys("ek", &idl.error_keys),
            sx::tagged("t", types),
            sx::tagged("m", methods),
            sx::tagged("e", errors),
        ],
    )
}

pub fn observe(text: &str) -> Sx {
    match IDL::try_from(text) {
        Ok(idl) => dump_idl(&idl, text),
        Err(e) => {
            // rendering the error is part of the observation (C12: every error can be displayed)
            let shown = match std::panic::catch_unwind(std::panic::AssertUnwindSafe(|| e.to_string())) {
                Ok(s) => s,
                Err(p) => {
                    let msg = p.downcast_ref::<String>().cloned().or_else(|| p.downcast_ref::<&str>().map(|s| s.to_string())).unwrap_or_default();
                    let (kind, col) = match &e {
                        Error::Parse { column, .. } => ("parse", *column),
                        Error::Idl(_) => ("idl", 0),
                    };
                    return sx::tagged("display-panic", vec![sx::atom(kind), sx::nat(col), sx::xs(&msg)]);
                }
            };
            match e {
                Error::Parse { line, column } => {
                    sx::tagged("parse-error", vec![sx::nat(column), sx::xs(&line), sx::xs(&shown)])
                }
                Error::Idl(msg) => sx::tagged("idl-error", vec![sx::xs(&msg), sx::xs(&shown)]),
            }
        }
    }
}

// ---------------------------------------------------------------------------
// grammar-directed generator

#[derive(Clone, Debug)]
pub enum GTy {
    Bool,
    Int,
    Float,
    Str,
    Object,
    Name(String),
    Struct(Vec<(String, GTy)>),
    Enum(Vec<String>),
    Array(Box<GTy>),
    Dict(Box<GTy>),
    Opt(Box<GTy>),
}

#[derive(Clone, Debug)]
pub enum GBody {
    TypeStruct(Vec<(String, GTy)>),
    TypeEnum(Vec<String>),
    Method(Vec<(String, GTy)>, Vec<(String, GTy)>),
    Error(Vec<(String, GTy)>),
}

#[derive(Clone, Debug)]
pub struct GMember {
    pub name: String,
    pub body: GBody,
}

#[derive(Clone, Debug)]
pub struct GIdl {
    pub name: String,
    pub members: Vec<GMember>,
}

/// a rendered definition: tokens and trivia slots
#[derive(Clone, Debug, PartialEq)]
pub enum Piece {
    Tok(String),
    /// optional trivia (wce*)
    T,
    /// mandatory trivia (wce+)
    TPlus,
    /// `eol`: whitespace* eol_r | comment
    Eol,
    /// documentation slot in front of a member / the interface keyword (wce*)
    Doc,
}

const LOWER: &[u8] = b"abcdefghijklmnopqrstuvwxyz";
const UPPER: &[u8] = b"ABCDEFGHIJKLMNOPQRSTUVWXYZ";
const DIGIT: &[u8] = b"0123456789";

fn pick_b(rng: &mut Rng, sets: &[&[u8]]) -> char {
    let total: usize = sets.iter().map(|s| s.len()).sum();
    let mut k = rng.below(total);
    for s in sets {
        if k < s.len() {
            return s[k] as char;
        }
        k -= s.len();
    }
    unreachable!()
}

pub fn gen_type_name(rng: &mut Rng) -> String {
    let mut s = String::new();
    s.push(pick_b(rng, &[UPPER]));
    for _ in 0..rng.below(7) {
        s.push(pick_b(rng, &[UPPER, LOWER, DIGIT]));
    }
    s
}

pub fn gen_field_name(rng: &mut Rng) -> String {
    if rng.chance(1, 12) {
        // keywords are legal field names
        return rng.pick(&["int", "bool", "type", "method", "error", "interface", "string", "object", "float"]).to_string();
    }
    let mut s = String::new();
    s.push(pick_b(rng, &[UPPER, LOWER]));
    for _ in 0..rng.below(7) {
        if rng.chance(1, 4) {
            s.push('_');
        }
        s.push(pick_b(rng, &[UPPER, LOWER, DIGIT]));
    }
    s
}

pub fn gen_iface_elem(rng: &mut Rng, first: bool) -> String {
    let mut s = String::new();
    if first {
        s.push(pick_b(rng, &[UPPER, LOWER]));
    } else {
        s.push(pick_b(rng, &[UPPER, LOWER, DIGIT]));
    }
    for _ in 0..rng.below(5) {
        for _ in 0..(if rng.chance(1, 4) { rng.range(1, 3) } else { 0 }) {
            s.push('-');
        }
        s.push(pick_b(rng, &[UPPER, LOWER, DIGIT]));
    }
    s
}

pub fn gen_iface_name(rng: &mut Rng) -> String {
    let n = rng.range(2, 4);
    let mut v = Vec::new();
    for i in 0..n {
        v.push(gen_iface_elem(rng, i == 0));
    }
    v.join(".")
}

pub fn gen_fields(rng: &mut Rng, depth: usize) -> Vec<(String, GTy)> {
    let n = match rng.below(8) {
        0 => 0,
        1..=3 => 1,
        4..=5 => 2,
        6 => 3,
        _ => rng.range(4, 7),
    };
    (0..n).map(|_| (gen_field_name(rng), gen_ty(rng, depth))).collect()
}

pub fn gen_enum(rng: &mut Rng) -> Vec<String> {
    let n = rng.range(1, 5);
    (0..n).map(|_| gen_field_name(rng)).collect()
}

pub fn gen_ty(rng: &mut Rng, depth: usize) -> GTy {
    let k = rng.below(if depth == 0 { 6 } else { 14 });
    match k {
        0 => GTy::Bool,
        1 => GTy::Int,
        2 => GTy::Float,
        3 => GTy::Str,
        4 => GTy::Object,
        5 => GTy::Name(gen_type_name(rng)),
        6 | 7 => GTy::Struct(gen_fields(rng, depth - 1)),
        8 => GTy::Enum(gen_enum(rng)),
        9 | 10 => GTy::Array(Box::new(gen_ty(rng, depth - 1))),
        11 => GTy::Dict(Box::new(gen_ty(rng, depth - 1))),
        _ => {
            // an option never wraps an option directly
            let mut t = gen_ty(rng, depth - 1);
            while let GTy::Opt(inner) = t {
                t = *inner;
            }
            GTy::Opt(Box::new(t))
        }
    }
}

pub fn gen_member(rng: &mut Rng, name: String, depth: usize) -> GMember {
    let body = match rng.below(7) {
        0 | 1 => GBody::TypeStruct(gen_fields(rng, depth)),
        2 => GBody::TypeEnum(gen_enum(rng)),
        3 | 4 | 5 => GBody::Method(gen_fields(rng, depth), gen_fields(rng, depth)),
        _ => GBody::Error(gen_fields(rng, depth)),
    };
    GMember { name, body }
}

pub fn gen_idl(rng: &mut Rng, max_members: usize, depth: usize) -> GIdl {
    let n = rng.range(1, max_members);
    let mut names: Vec<String> = Vec::new();
    let mut members = Vec::new();
    for _ in 0..n {
        let mut nm = gen_type_name(rng);
        while names.contains(&nm) {
            nm.push('x');
        }
        names.push(nm.clone());
        members.push(gen_member(rng, nm, depth));
    }
    GIdl { name: gen_iface_name(rng), members }
}

fn tok(p: &mut Vec<Piece>, s: &str) {
    p.push(Piece::Tok(s.to_string()));
}

pub fn render_ty(t: &GTy, p: &mut Vec<Piece>) {
    match t {
        GTy::Bool => tok(p, "bool"),
        GTy::Int => tok(p, "int"),
        GTy::Float => tok(p, "float"),
        GTy::Str => tok(p, "string"),
        GTy::Object => tok(p, "object"),
        GTy::Name(n) => tok(p, n),
        GTy::Struct(f) => render_struct(f, p),
        GTy::Enum(e) => render_enum(e, p),
        GTy::Array(t) => {
            tok(p, "[]");
            render_ty(t, p)
        }
        GTy::Dict(t) => {
            tok(p, "[string]");
            render_ty(t, p)
        }
        GTy::Opt(t) => {
            tok(p, "?");
            render_ty(t, p)
        }
    }
}

pub fn render_struct(f: &[(String, GTy)], p: &mut Vec<Piece>) {
    tok(p, "(");
    p.push(Piece::T);
    for (i, (n, t)) in f.iter().enumerate() {
        if i > 0 {
            tok(p, ",");
        }
        p.push(Piece::T);
        tok(p, n);
        p.push(Piece::T);
        tok(p, ":");
        p.push(Piece::T);
        render_ty(t, p);
    }
    p.push(Piece::T);
    tok(p, ")");
}

pub fn render_enum(e: &[String], p: &mut Vec<Piece>) {
    tok(p, "(");
    p.push(Piece::T);
    for (i, n) in e.iter().enumerate() {
        if i > 0 {
            tok(p, ",");
            p.push(Piece::T);
        }
        tok(p, n);
    }
    p.push(Piece::T);
    tok(p, ")");
}

pub fn render_idl(g: &GIdl) -> Vec<Piece> {
    let mut p = Vec::new();
    p.push(Piece::Doc);
    tok(&mut p, "interface");
    p.push(Piece::TPlus);
    tok(&mut p, &g.name);
    for m in &g.members {
        p.push(Piece::Eol);
        p.push(Piece::Doc);
        match &m.body {
            GBody::TypeStruct(f) => {
                tok(&mut p, "type");
                p.push(Piece::TPlus);
                tok(&mut p, &m.name);
                p.push(Piece::T);
                render_struct(f, &mut p);
            }
            GBody::TypeEnum(e) => {
                tok(&mut p, "type");
                p.push(Piece::TPlus);
                tok(&mut p, &m.name);
                p.push(Piece::T);
                render_enum(e, &mut p);
            }
            GBody::Method(i, o) => {
                tok(&mut p, "method");
                p.push(Piece::TPlus);
                tok(&mut p, &m.name);
                p.push(Piece::T);
                render_struct(i, &mut p);
                p.push(Piece::T);
                tok(&mut p, "->");
                p.push(Piece::T);
                render_struct(o, &mut p);
            }
            GBody::Error(f) => {
                tok(&mut p, "error");
                p.push(Piece::TPlus);
                tok(&mut p, &m.name);
                p.push(Piece::T);
                render_struct(f, &mut p);
            }
        }
    }
    p.push(Piece::T);
    p
}

pub const WS_CHARS: &[char] = &[
    ' ', ' ', ' ', '\t', '\u{00A0}', '\u{FEFF}', '\u{1680}', '\u{180E}', '\u{2000}', '\u{2001}', '\u{2005}', '\u{200A}',
    '\u{202F}', '\u{205F}', '\u{3000}',
];
pub const EOLS: &[&str] = &["\n", "\n", "\n", "\r\n", "\r", "\u{2028}", "\u{2029}"];

/// 0 = minimal ASCII layout, 1 = ASCII trivia, 2 = everything legal
pub fn gen_comment(rng: &mut Rng, style: usize) -> String {
    let mut s = String::from("#");
    let n = rng.below(12);
    for _ in 0..n {
        match rng.below(if style >= 2 { 14 } else { 8 }) {
            0 | 1 | 2 => s.push(pick_b(rng, &[LOWER])),
            3 => s.push(' '),
            4 => s.push('#'),
            5 => s.push(*rng.pick(&['(', ')', ':', ',', '-', '>', '?', '[', ']', '_', '.'])),
            6 => s.push_str(*rng.pick(&["type", "method ", "interface a.b", "error"])),
            7 => s.push('\t'),
            8 => s.push_str(*rng.pick(&["\u{1b}[0m", "\u{1b}[34m", "\u{1b}", "\u{1b}[", "\u{1b}[0", "[0m"])),
            9 => s.push(*rng.pick(&['\u{00e4}', '\u{20ac}', '\u{1F600}', '\u{0085}', '\u{000B}', '\u{000C}', '\u{0000}'])),
            10 => s.push(*rng.pick(WS_CHARS)),
            _ => s.push(char::from_u32(rng.range(0x20, 0x2FFF) as u32).filter(|c| !matches!(c, '\u{2028}' | '\u{2029}')).unwrap_or('x')),
        }
    }
    s.push_str(if style >= 2 { *rng.pick(EOLS) } else { "\n" });
    s
}

pub fn gen_trivia(rng: &mut Rng, style: usize, nonempty: bool, doc: bool) -> String {
    if style == 0 {
        return if nonempty { " ".into() } else { String::new() };
    }
    let mut s = String::new();
    let n = if nonempty {
        rng.range(1, 4)
    } else if doc {
        rng.below(5)
    } else if rng.chance(1, 2) {
        0
    } else {
        rng.range(1, 3)
    };
    for _ in 0..n {
        match rng.below(if doc { 6 } else { 10 }) {
            0 | 1 => s.push_str(&gen_comment(rng, style)),
            2 => s.push_str(if style >= 2 { *rng.pick(EOLS) } else { "\n" }),
            3 if style >= 2 => s.push(*rng.pick(WS_CHARS)),
            _ => s.push(' '),
        }
    }
    if nonempty && s.is_empty() {
        s.push(' ');
    }
    s
}

pub fn gen_eol(rng: &mut Rng, style: usize) -> String {
    if style == 0 {
        return "\n".into();
    }
    if rng.chance(1, 5) {
        return gen_comment(rng, style);
    }
    let mut s = String::new();
    for _ in 0..(if rng.chance(1, 3) { rng.range(1, 3) } else { 0 }) {
        s.push(if style >= 2 { *rng.pick(WS_CHARS) } else { ' ' });
    }
    s.push_str(if style >= 2 { *rng.pick(EOLS) } else { "\n" });
    s
}

/// fill the slots; the result is a list of text fragments (tokens and trivia)
pub fn decorate(rng: &mut Rng, pieces: &[Piece], style: usize) -> Vec<String> {
    pieces
        .iter()
        .map(|p| match p {
            Piece::Tok(s) => s.clone(),
            Piece::T => gen_trivia(rng, style, false, false),
            Piece::TPlus => gen_trivia(rng, style, true, false),
            Piece::Eol => gen_eol(rng, style),
            Piece::Doc => {
                if style == 0 {
                    String::new()
                } else {
                    gen_trivia(rng, style, false, true)
                }
            }
        })
        .collect()
}

pub fn gen_valid_text(rng: &mut Rng, max_members: usize, depth: usize, style: usize) -> (GIdl, Vec<String>) {
    let g = gen_idl(rng, max_members, depth);
    let frags = decorate(rng, &render_idl(&g), style);
    (g, frags)
}

const MUT_TOKENS: &[&str] = &[
    "interface", "type", "method", "error", "->", "(", ")", ",", ":", "[]", "[string]", "?", "bool", "int", "float", "string",
    "object", "Foo", "foo", "a.b", "a_b", "a__b", "_", "-", ".", " ", "\n", "\t", "# c\n", "#", "\r", "\u{2028}", "1", "a",
    "A", "->()", "()", "??", "[ ]", "[string ]", "type T ()", "\nmethod M() -> ()", "x:", ",,",
];

pub fn mutate(rng: &mut Rng, frags: &[String]) -> (String, &'static str) {
    let mut v: Vec<String> = frags.to_vec();
    let n = v.len();
    let kind = match rng.below(6) {
        0 => {
            v.remove(rng.below(n));
            "delete"
        }
        1 => {
            let at = rng.below(n + 1);
            v.insert(at, rng.pick(MUT_TOKENS).to_string());
            "insert"
        }
        2 => {
            let i = rng.below(n);
            let j = rng.below(n);
            v.swap(i, j);
            "swap"
        }
        3 => {
            let i = rng.below(n);
            v[i] = rng.pick(MUT_TOKENS).to_string();
            "subst"
        }
        4 => {
            let i = rng.below(n);
            let d = v[i].clone();
            v.insert(i, d);
            "dup"
        }
        _ => {
            // character level: drop / change one char of the text
            let s: Vec<char> = v.concat().chars().collect();
            if s.is_empty() {
                return (String::new(), "char");
            }
            let i = rng.below(s.len());
            let mut t: Vec<char> = s.clone();
            match rng.below(3) {
                0 => {
                    t.remove(i);
                }
                1 => t[i] = *rng.pick(&['(', ')', ':', ',', ' ', '\n', '#', '-', '_', 'a', 'A', '1', '.', '?', '[', ']', '>']),
                _ => t.insert(i, *rng.pick(&['(', ')', ':', ',', ' ', '\n', '#', '-', '_', 'a', 'A', '1', '.', '?', '[', ']', '>'])),
            }
            return (t.into_iter().collect(), "char");
        }
    };
    (v.concat(), kind)
}

fn case_of(text: &str, tags: &[&str]) -> Case {
    Case { input: sx::tagged("idl", vec![sx::xs(text)]), tags: tags.iter().map(|s| s.to_string()).collect() }
}

pub fn repo_idl_files() -> Vec<(String, String)> {
    let paths = [
        "/repo/varlink-certification/src/org.varlink.certification.varlink",
        "/repo/varlink_stdinterfaces/src/org.varlink.resolver.varlink",
        "/repo/varlink_stdinterfaces/src/org.varlink.service.varlink",
        "/repo/varlink_generator/tests/org.example.complex.varlink",
        "/repo/examples/example/src/org.example.network.varlink",
        "/repo/examples/more/src/org.example.more.varlink",
        "/repo/examples/ping/src/org.example.ping.varlink",
    ];
    let mut v = Vec::new();
    for p in paths {
        if let Ok(s) = std::fs::read_to_string(p) {
            v.push((p.to_string(), s));
        }
    }
    v
}

fn corpus(cases: &mut Vec<Case>) {
    if let Ok(txt) = std::fs::read_to_string(concat!(env!("CARGO_MANIFEST_DIR"), "/corpus/idl.txt")) {
        for l in txt.lines() {
            if let Some(s) = sx::parse(l) {
                cases.push(Case { input: s, tags: vec!["corpus".into()] });
            }
        }
    }
}

/// all strings over `alpha` of length 1..=max
fn enumerate_strings(alpha: &[&str], max: usize, f: &mut dyn FnMut(&[&str])) {
    fn rec<'a>(alpha: &[&'a str], max: usize, cur: &mut Vec<&'a str>, f: &mut dyn FnMut(&[&str])) {
        if !cur.is_empty() {
            f(cur);
        }
        if cur.len() == max {
            return;
        }
        for a in alpha {
            cur.push(a);
            rec(alpha, max, cur, f);
            cur.pop();
        }
    }
    let mut cur = Vec::new();
    rec(alpha, max, &mut cur, f);
}

fn gen_c11(ctx: &Ctx, rng: &mut Rng, cases: &mut Vec<Case>) {
    // (1) grammar-directed valid definitions, three trivia styles
    let n_valid = if ctx.thorough { 4000 } else { 700 };
    let mut pool: Vec<Vec<String>> = Vec::new();
    for i in 0..n_valid {
        let style = i % 3;
        let (_, frags) = gen_valid_text(rng, 6, 3, style);
        let text = frags.concat();
        cases.push(case_of(&text, &["valid", ["trivia:minimal", "trivia:ascii", "trivia:unicode"][style]]));
        if pool.len() < 400 {
            pool.push(frags);
        }
    }
    // (2) near misses
    let n_mut = if ctx.thorough { 12000 } else { 2500 };
    for _ in 0..n_mut {
        let frags = rng.pick(&pool).clone();
        let (text, kind) = mutate(rng, &frags);
        cases.push(case_of(&text, &["near-miss", &format!("mut:{}", kind)]));
    }
    // (3) interface names, exhaustive over {a,B,1,-,.}
    let max = if ctx.thorough { 7 } else { 6 };
    enumerate_strings(&["a", "B", "1", "-", "."], max, &mut |w| {
        let text = format!("interface {}\nmethod F()->()", w.concat());
        cases.push(case_of(&text, &["iface-name-enum"]));
    });
    //     and what may follow a name (the eol rule)
    for name in ["a.b", "a.b-", "a.b.", "a.b-c", "a-b.c", "a--b.c-1"] {
        for follow in ["\n", " \n", "\t \n", "# c\n", " # c\n", "#\n", "\r\n", "\r", "\u{2028}", "\u{2029}", " \u{2029}", "", " ", "\n\n", "\u{00a0}\n", "x\n", "_\n", ".\n"] {
            let text = format!("interface {}{}method F()->()", name, follow);
            cases.push(case_of(&text, &["iface-name-follow"]));
        }
    }
    // (4) type expressions: all token sequences up to a bound, then longer random ones
    let alpha = ["bool", "int", "string", "Foo", "[]", "[string]", "?", "(", ")", "a", ":", ",", " ", "object", "float"];
    let tmax = if ctx.thorough { 4 } else { 3 };
    enumerate_strings(&alpha, tmax, &mut |w| {
        let text = format!("interface a.b\ntype T (x: {})", w.concat());
        cases.push(case_of(&text, &["type-expr-enum"]));
    });
    let n_rand_ty = if ctx.thorough { 8000 } else { 1500 };
    for _ in 0..n_rand_ty {
        let n = rng.range(4, 9);
        let w: Vec<&str> = (0..n).map(|_| *rng.pick(&alpha)).collect();
        let text = if rng.chance(1, 2) {
            format!("interface a.b\ntype T (x: {})", w.concat())
        } else {
            format!("interface a.b\nmethod M{} -> ()", w.concat())
        };
        cases.push(case_of(&text, &["type-expr-random"]));
    }
    for _ in 0..(if ctx.thorough { 3000 } else { 600 }) {
        // valid types in field position, minimal layout
        let t = gen_ty(rng, 4);
        let mut p = Vec::new();
        render_ty(&t, &mut p);
        let style = rng.below(3);
        let text = format!("interface a.b\ntype T (x: {})", decorate(rng, &p, style).concat());
        cases.push(case_of(&text, &["type-expr-valid"]));
    }
    // field / type / enum name shapes
    for w in ["a", "a_", "_a", "a_b", "a__b", "a_b_", "a_1", "1a", "A", "a1_", "a-b", "aB_cD_1", "a_b_c_d"] {
        cases.push(case_of(&format!("interface a.b\ntype T ({}: int)", w), &["field-name"]));
        cases.push(case_of(&format!("interface a.b\ntype T ({})", w), &["field-name"]));
        cases.push(case_of(&format!("interface a.b\ntype T (x, {})", w), &["field-name"]));
    }
    for w in ["T", "t", "T1", "1T", "T_a", "Ta", "TT", "T-", "T.a", "Type", "Bool"] {
        cases.push(case_of(&format!("interface a.b\ntype {} ()", w), &["type-name"]));
        cases.push(case_of(&format!("interface a.b\nmethod {}() -> ()", w), &["type-name"]));
        cases.push(case_of(&format!("interface a.b\nerror {}()", w), &["type-name"]));
        cases.push(case_of(&format!("interface a.b\ntype T (x: {})", w), &["type-name"]));
    }
    // (5) duplicates: every kind x kind pair and kind x kind x kind triple, with and without a bystander
    let kinds = ["type", "method", "error"];
    let mk = |k: &str, n: &str, variant: usize| -> String {
        match k {
            "type" => {
                if variant % 2 == 0 {
                    format!("type {} (a: int)", n)
                } else {
                    format!("type {} (x, y)", n)
                }
            }
            "method" => format!("method {}() -> ()", n),
            _ => format!("error {} (s: string)", n),
        }
    };
    for (i, k1) in kinds.iter().enumerate() {
        for (j, k2) in kinds.iter().enumerate() {
            for same in [true, false] {
                for bystander in 0..3 {
                    let n2 = if same { "Foo" } else { "Bar" };
                    let mut ms = vec![mk(k1, "Foo", i), mk(k2, n2, j)];
                    if bystander == 1 {
                        ms.insert(1, "method Other() -> ()".into());
                    } else if bystander == 2 {
                        ms.push("type Other (z: bool)".into());
                    }
                    let text = format!("interface org.example.dup\n{}\n", ms.join("\n"));
                    cases.push(case_of(&text, &["dup-pairs"]));
                }
            }
            for (l, k3) in kinds.iter().enumerate() {
                for pat in 0..4 {
                    let names = match pat {
                        0 => ["Foo", "Foo", "Foo"],
                        1 => ["Foo", "Bar", "Foo"],
                        2 => ["Foo", "Bar", "Bar"],
                        _ => ["Foo", "Foo", "Bar"],
                    };
                    let text = format!(
                        "interface org.example.dup\n{}\n{}\n{}\n",
                        mk(k1, names[0], i + 1),
                        mk(k2, names[1], j),
                        mk(k3, names[2], l)
                    );
                    cases.push(case_of(&text, &["dup-triples"]));
                }
            }
        }
    }
    // two different duplicated names, several orders: the message lists both, sorted
    for perm in 0..6 {
        let mut ms = vec![
            "type Zed ()".to_string(),
            "method Zed() -> ()".to_string(),
            "error Abc ()".to_string(),
            "error Abc ()".to_string(),
            "method Mid() -> ()".to_string(),
            "type Mid (a, b)".to_string(),
        ];
        ms.rotate_left(perm);
        cases.push(case_of(&format!("interface x.y\n{}", ms.join("\n")), &["dup-multi"]));
    }
    // random duplicates inside generated definitions
    for _ in 0..(if ctx.thorough { 1500 } else { 300 }) {
        let mut g = gen_idl(rng, 7, 1);
        let k = rng.range(1, 3);
        for _ in 0..k {
            let i = rng.below(g.members.len());
            let j = rng.below(g.members.len());
            g.members[j].name = g.members[i].name.clone();
        }
        let style = rng.below(2);
        let text = decorate(rng, &render_idl(&g), style).concat();
        cases.push(case_of(&text, &["dup-random"]));
    }
    dup_families(ctx.thorough, cases);
    // (5b) identifiers are ASCII: a non-ASCII letter / digit / mark substituted or inserted at every
    //      identifier position class must be rejected (Unicode-aware classes are wider)
    let uni: &[char] = &[
        '\u{f6}', '\u{df}', '\u{e9}', '\u{f1}', '\u{c4}', '\u{b2}', '\u{b3}', '\u{b9}', '\u{aa}', '\u{b5}', '\u{430}', '\u{410}',
        '\u{391}', '\u{3bf}', '\u{ff10}', '\u{ff15}', '\u{663}', '\u{1c5}', '\u{2167}', '\u{ff46}', '\u{ff21}', '\u{301}', '\u{308}',
        '\u{1d400}', '\u{4e2d}', '\u{5d0}', '\u{e01}', '\u{2460}', '\u{bd}', '\u{1f600}', '\u{203f}', '\u{200d}', '\u{ad}',
    ];
    let slots: &[(&str, &str)] = &[
        ("interface a@b.c\nmethod F() -> ()", "iface-label"),
        ("interface a.b@\nmethod F() -> ()", "iface-label"),
        ("interface @a.b\nmethod F() -> ()", "iface-label"),
        ("interface a.@b\nmethod F() -> ()", "iface-label"),
        ("interface a.b\ntype T@a ()", "member-name"),
        ("interface a.b\ntype Ta@ ()", "member-name"),
        ("interface a.b\ntype @Ta ()", "member-name"),
        ("interface a.b\nmethod M@x() -> ()", "member-name"),
        ("interface a.b\nmethod Mx@() -> ()", "member-name"),
        ("interface a.b\nerror E@x ()", "member-name"),
        ("interface a.b\nerror Ex@ ()", "member-name"),
        ("interface a.b\ntype T (f@g: int)", "field-name"),
        ("interface a.b\ntype T (fg@: int)", "field-name"),
        ("interface a.b\ntype T (@fg: int)", "field-name"),
        ("interface a.b\ntype T (f_@: int)", "field-name"),
        ("interface a.b\nmethod M(a: int) -> (r@s: int)", "field-name"),
        ("interface a.b\ntype T (a@b, c)", "enum-value"),
        ("interface a.b\ntype T (a, c@)", "enum-value"),
        ("interface a.b\ntype T (a, @c)", "enum-value"),
        ("interface a.b\ntype T (x: Fo@o)", "type-reference"),
        ("interface a.b\ntype T (x: Foo@)", "type-reference"),
        ("interface a.b\ntype T (x: @Foo)", "type-reference"),
        ("interface a.b\ntype T (x: ?[]Fo@o, y: [string]Ba@r)", "type-reference"),
        ("interface a.b\nmethod M() -> (x: Fo@)", "type-reference"),
    ];
    for (tpl, tag) in slots {
        for &u in uni {
            // inserted
            cases.push(case_of(&tpl.replacen('@', &u.to_string(), 1).replace('@', ""), &["unicode-ident", &format!("unicode-ident:{}", tag)]));
            // substituted for the neighbouring ASCII character (the one before the slot, or after it at the start)
            let i = tpl.find('@').unwrap();
            let mut sub = String::new();
            let before = tpl[..i].chars().last();
            if before.map_or(false, |c| c.is_ascii_alphanumeric()) {
                let cut = i - before.unwrap().len_utf8();
                sub.push_str(&tpl[..cut]);
                sub.push(u);
                sub.push_str(&tpl[i + 1..]);
            } else {
                sub.push_str(&tpl[..i]);
                sub.push(u);
                let mut rest = tpl[i + 1..].chars();
                rest.next();
                sub.push_str(rest.as_str());
            }
            cases.push(case_of(&sub.replace('@', ""), &["unicode-ident", &format!("unicode-ident:{}", tag)]));
        }
    }
    // (5c) white space is the grammar's set: every Unicode White_Space character and the usual
    //      invisible look-alikes as a separator at every separator position
    let blanks: &[char] = &[
        '\u{9}', '\u{a}', '\u{b}', '\u{c}', '\u{d}', '\u{20}', '\u{85}', '\u{a0}', '\u{1680}', '\u{180e}', '\u{2000}', '\u{2001}',
        '\u{2002}', '\u{2003}', '\u{2004}', '\u{2005}', '\u{2006}', '\u{2007}', '\u{2008}', '\u{2009}', '\u{200a}', '\u{200b}',
        '\u{200c}', '\u{200d}', '\u{200e}', '\u{2028}', '\u{2029}', '\u{202f}', '\u{205f}', '\u{2060}', '\u{3000}', '\u{feff}',
        '\u{1c}', '\u{1d}', '\u{1e}', '\u{1f}', '\u{0}', '\u{7f}', '\u{ad}', '\u{61c}', '\u{115f}', '\u{3164}', '\u{ffa0}', '\u{2800}',
    ];
    let seps: &[&str] = &[
        "interface@a.b\nmethod F() -> ()",
        "interface a.b@method F() -> ()",
        "interface a.b\ntype@T ()",
        "interface a.b\ntype T@()",
        "interface a.b\ntype T (@a: int)",
        "interface a.b\ntype T (a@: int)",
        "interface a.b\ntype T (a:@int)",
        "interface a.b\ntype T (a: int@)",
        "interface a.b\ntype T (a: int,@b: int)",
        "interface a.b\ntype T (a,@b)",
        "interface a.b\nmethod F()@->@()",
        "interface a.b\nmethod F() -> ()@type T ()",
        "interface a.b\nmethod F() -> ()@",
        "@interface a.b\nmethod F() -> ()",
        "interface a.b\n#c@type T ()",
    ];
    for tpl in seps {
        for &b in blanks {
            cases.push(case_of(&tpl.replace('@', &b.to_string()), &["unicode-blank"]));
        }
    }
    // (6) nesting through every type constructor (accept/reject judged by the specification's recogniser)
    let mut deep: Vec<(usize, String, &'static str)> = Vec::new();
    let depths: Vec<usize> = if ctx.thorough { vec![1, 2, 3, 4, 6, 8, 12, 16, 24, 32, 64] } else { vec![1, 2, 3, 5, 8, 16, 32] };
    deep_struct_families(&depths, &mut deep);
    deep.sort_by_key(|(d, _, _)| *d);
    for (d, t, tag) in deep {
        cases.push(Case {
            input: sx::tagged("idl-deep", vec![sx::nat(d), sx::xs(&t)]),
            tags: vec!["nesting".into(), tag.to_string()],
        });
    }
}

/// Duplicate-definition families: names that are suffixes / prefixes of one another, and many distinct
/// clashes at once (k same-kind + m two-kind) — parsed repeatedly because the error set is a HashSet
/// with a per-instance seed.
pub fn dup_families(thorough: bool, cases: &mut Vec<Case>) {
    let pairs = [
        ("NetworkInfo", "Info"), ("Info", "NetworkInfo"), ("FooBar", "Bar"), ("Ab", "B"), ("Xy", "Xyz"), ("AA", "A"),
        ("Type", "Pe"), ("GetInfo", "Info"), ("Info", "Info2"),
    ];
    let decl = |k: usize, n: &str| -> String {
        match k % 3 {
            0 => format!("type {} (a: int)", n),
            1 => format!("method {}() -> ()", n),
            _ => format!("error {} ()", n),
        }
    };
    for (a, b) in pairs {
        for k1 in 0..3 {
            for k2 in 0..3 {
                // a twice (kinds k1, k2), then b twice (kinds k2, k1): both must be named
                let text = format!("interface org.example.dup\n{}\n{}\n{}\n{}\n", decl(k1, a), decl(k2, a), decl(k2, b), decl(k1, b));
                cases.push(Case { input: sx::tagged("idl-rep", vec![sx::nat(5), sx::xs(&text)]), tags: vec!["dup-suffix".into()] });
                // interleaved
                let text = format!("interface org.example.dup\n{}\n{}\n{}\n{}\n", decl(k1, a), decl(k2, b), decl(k2, a), decl(k1, b));
                cases.push(Case { input: sx::tagged("idl-rep", vec![sx::nat(5), sx::xs(&text)]), tags: vec!["dup-suffix".into()] });
            }
        }
    }
    let sizes: Vec<(usize, usize)> = if thorough {
        vec![(1, 1), (3, 3), (10, 10), (10, 11), (12, 12), (15, 10), (20, 20), (21, 0), (0, 21), (5, 20), (25, 3), (30, 30), (40, 40), (60, 60), (100, 100)]
    } else {
        vec![(3, 3), (10, 11), (12, 12), (15, 10), (20, 20), (0, 21), (21, 0), (30, 30)]
    };
    for (k, m) in sizes {
        let mut t = String::from("interface org.example.many\n");
        for i in 0..k {
            // same-kind clash
            t.push_str(&format!("{}\n{}\n", decl(i, &format!("Same{}", i)), decl(i, &format!("Same{}", i))));
        }
        for i in 0..m {
            // two-kind clash
            t.push_str(&format!("{}\n{}\n", decl(i, &format!("Two{}", i)), decl(i + 1, &format!("Two{}", i))));
        }
        cases.push(Case { input: sx::tagged("idl-rep", vec![sx::nat(60), sx::xs(&t)]), tags: vec!["dup-many".into()] });
    }
}

/// Anonymous structs nested through EVERY type constructor that can nest:
/// `(a: P(a: P( … P(<leaf>) … )))` with P one of "", "?", "[]", "[]?", "[string]", "[string]?", "?[]",
/// "?[string]" or all of them in rotation; six leaves (valid, trailing comma, syntax error, enum leaf,
/// enum leaf with trailing comma, missing comma); as a typedef body and as a method result.
/// A grammar that re-reads a level when an alternative fails doubles its cost per level: the
/// per-case deadline sees it from depth ~20 on.
pub fn deep_struct_families(depths: &[usize], out: &mut Vec<(usize, String, &'static str)>) {
    const PREFIXES: &[&[&str]] = &[
        &[""],
        &["?"],
        &["[]"],
        &["[]?"],
        &["[string]"],
        &["[string]?"],
        &["?[]"],
        &["?[string]"],
        &["", "?", "[]", "[]?", "[string]", "[string]?", "?[]", "?[string]"],
    ];
    const LEAVES: &[(&str, &str)] = &[
        ("a: int", "deep-struct:valid"),
        ("a: int,", "deep-struct:trailing-comma"),
        ("a: !", "deep-struct:syntax-error"),
        ("a: (x, y)", "deep-struct:valid-enum-leaf"),
        ("a: (x, y,)", "deep-struct:trailing-comma-enum-leaf"),
        ("a: int b", "deep-struct:missing-comma"),
    ];
    let hdr = "interface a.b\n";
    for &d in depths {
        for fam in PREFIXES {
            for (leaf, tag) in LEAVES {
                let mut s = String::new();
                for lvl in 0..d.saturating_sub(1) {
                    s.push_str("(a: ");
                    s.push_str(fam[lvl % fam.len()]);
                }
                s.push('(');
                s.push_str(leaf);
                s.push(')');
                for _ in 0..d.saturating_sub(1) {
                    s.push(')');
                }
                out.push((d, format!("{}type T {}", hdr, s), tag));
                out.push((d, format!("{}method M() -> {}", hdr, s), tag));
                // truncated in the middle of the closing parentheses
                if *tag == "deep-struct:valid" && d > 2 {
                    let cut = s.len() - d / 2;
                    out.push((d, format!("{}type T {}", hdr, &s[..cut]), "deep-struct:truncated"));
                }
            }
        }
    }
}

fn nested(open: &str, close: &str, leaf: &str, depth: usize) -> String {
    let mut s = String::new();
    for _ in 0..depth {
        s.push_str(open);
    }
    s.push_str(leaf);
    for _ in 0..depth {
        s.push_str(close);
    }
    s
}

fn gen_c12(ctx: &Ctx, rng: &mut Rng, cases: &mut Vec<Case>) {
    // (1) random Unicode strings over a biased alphabet
    let n_rand = if ctx.thorough { 20000 } else { 3000 };
    let bits: &[&str] = &[
        "interface", " ", "a.b", "\n", "type", "method", "error", "T", "(", ")", ":", ",", "->", "int", "#", "\r", "\r\n",
        "\u{2028}", "\u{2029}", "\t", "\u{00a0}", "\u{feff}", "?", "[]", "[string]", "a", "_", "-", ".", "\u{1F600}", "\u{0}",
        "\u{7f}", "\u{80}", "\u{ffff}", "\u{10ffff}", "\u{e000}", "\u{d7ff}",
    ];
    for i in 0..n_rand {
        let n = rng.below(if i % 4 == 0 { 60 } else { 14 });
        let mut s = String::new();
        for _ in 0..n {
            if rng.chance(3, 4) {
                s.push_str(*rng.pick(bits));
            } else {
                let c = loop {
                    let x = match rng.below(4) {
                        0 => rng.below(0x80),
                        1 => rng.below(0x800),
                        2 => rng.below(0x10000),
                        _ => rng.below(0x110000),
                    } as u32;
                    if let Some(c) = char::from_u32(x) {
                        break c;
                    }
                };
                s.push(c);
            }
        }
        cases.push(case_of(&s, &["random-unicode"]));
    }
    // (2) byte-level mutations of valid definitions, re-validated as UTF-8
    let n_mut = if ctx.thorough { 20000 } else { 3000 };
    let mut seeds: Vec<String> = repo_idl_files().into_iter().map(|(_, s)| s).filter(|s| s.len() < 1000).collect();
    for i in 0..60 {
        seeds.push(gen_valid_text(rng, 4, 3, i % 3).1.concat());
    }
    for _ in 0..n_mut {
        let mut b = rng.pick(&seeds).clone().into_bytes();
        if b.is_empty() {
            continue;
        }
        let k = rng.range(1, 3);
        for _ in 0..k {
            let i = rng.below(b.len());
            match rng.below(5) {
                0 => b[i] ^= 1 << rng.below(8),
                1 => b[i] = rng.below(256) as u8,
                2 => {
                    b.remove(i);
                }
                3 => b.insert(i, rng.below(256) as u8),
                _ => b.truncate(i),
            }
            if b.is_empty() {
                break;
            }
        }
        let (s, tag) = match String::from_utf8(b) {
            Ok(s) => (s, "byte-mutation:valid-utf8"),
            Err(e) => (String::from_utf8_lossy(e.as_bytes()).into_owned(), "byte-mutation:lossy"),
        };
        cases.push(case_of(&s, &[tag]));
    }
    // (3) every prefix of the corpus definitions
    for (path, s) in repo_idl_files() {
        let stride = if ctx.thorough || s.len() < 1000 { 1 } else { 3 };
        let idx: Vec<usize> = s.char_indices().map(|(i, _)| i).chain(std::iter::once(s.len())).collect();
        for (k, i) in idx.iter().enumerate() {
            if k % stride == 0 || *i == s.len() {
                cases.push(case_of(&s[..*i], &["prefix", &format!("prefix:{}", path.rsplit('/').next().unwrap_or(""))]));
            }
        }
    }
    for i in 0..(if ctx.thorough { 60 } else { 12 }) {
        let s = gen_valid_text(rng, 3, 3, 2 - (i % 2)).1.concat();
        let idx: Vec<usize> = s.char_indices().map(|(i, _)| i).chain(std::iter::once(s.len())).collect();
        for i in idx {
            cases.push(case_of(&s[..i], &["prefix", "prefix:generated"]));
        }
    }
    // (4) line-ending conventions: one definition, every eol kind, valid and broken at every line
    let lines = ["# doc", "interface org.example.eol", "", "# a type", "type T (a: int,", "  b: ?[]string)", "method M(x: T) -> ()", "error E ()"];
    for eol in ["\n", "\r\n", "\r", "\u{2028}", "\u{2029}", "\n\r", "\u{0085}", "\u{000b}", "\u{000c}"] {
        let text: String = lines.iter().map(|l| format!("{}{}", l, eol)).collect();
        cases.push(case_of(&text, &["line-endings"]));
        cases.push(case_of(text.trim_end_matches(eol), &["line-endings"]));
        for (k, _) in lines.iter().enumerate() {
            // an error on line k, to see which line text / column is reported under this convention
            let mut ls: Vec<String> = lines.iter().map(|s| s.to_string()).collect();
            for bad in ["!", "type", "(", "\u{1F600}"] {
                let keep = ls[k].clone();
                ls[k] = format!("{} {}", keep, bad);
                let text: String = ls.iter().map(|l| format!("{}{}", l, eol)).collect();
                cases.push(case_of(&text, &["line-endings", "line-endings:broken"]));
                ls[k] = keep;
            }
        }
    }
    // (5) nesting depth: deterministic families, run in order of depth
    let mut deep: Vec<(usize, String, &'static str)> = Vec::new();
    let depths: Vec<usize> = if ctx.thorough { (1..=200).collect() } else { vec![1, 2, 3, 5, 10, 25, 50, 100, 150, 199, 200] };
    for d in depths {
        let hdr = "interface a.b\n";
        let mut v = Vec::new();
        v.push(format!("{}type T {}", hdr, nested("(a: ", ")", "int", d)));
        v.push(format!("{}type T (x: {})", hdr, nested("[]", "", "int", d)));
        v.push(format!("{}type T (x: {})", hdr, nested("[string]", "", "(a, b)", d)));
        v.push(format!("{}type T (x: {})", hdr, nested("?[]", "", "T", d)));
        v.push(format!("{}type T (x: {})", hdr, nested("?", "", "int", d)));
        v.push(format!("{}method M{} -> ()", hdr, nested("(a: ?[](b: [string]", "))", "(c)", d)));
        // unbalanced / truncated
        v.push(format!("{}type T {}", hdr, nested("(a: ", "", "int", d)));
        v.push(format!("{}type T {}", hdr, nested("(", "", "", d)));
        v.push(format!("{}type T {}", hdr, nested("(", ")", "", d)));
        v.push(format!("{}type T {}", hdr, nested("(a: ", ")", "", d)));
        v.push(format!("{}type T {}", hdr, nested("(a: ", ") ", "int", d)));
        v.push(format!("{}type T (x: {}", hdr, nested("[", "]", "", d)));
        v.push(format!("{}{}", hdr, nested("#", "\n", "", d)));
        v.push(nested("\n", "", "x", d));
        v.push(nested("\n", "\n", "interface", d));
        for t in v {
            deep.push((d, t, "nesting"));
        }
    }
    let sdepths: Vec<usize> = if ctx.thorough {
        (2..=40).step_by(2).chain([48usize, 64, 96, 128, 160, 200]).collect()
    } else {
        vec![8, 16, 20, 24, 32, 64, 200]
    };
    deep_struct_families(&sdepths, &mut deep);
    deep.sort_by_key(|(d, _, _)| *d);
    for (d, t, tag) in deep {
        cases.push(Case {
            input: sx::tagged("idl-deep", vec![sx::nat(d), sx::xs(&t)]),
            tags: vec!["nesting".into(), tag.to_string()],
        });
    }
    dup_families(ctx.thorough, cases);
    // (5b) long lines: error columns around and beyond 65535 (a 16-bit formatting width), also with
    //      multi-byte characters on the line (byte offset != column)
    let cols: Vec<usize> = if ctx.thorough {
        vec![255, 256, 257, 4095, 32767, 32768, 65533, 65534, 65535, 65536, 65537, 70000, 131072, 200000]
    } else {
        vec![255, 256, 65534, 65535, 65536, 70000, 200000]
    };
    for c in cols {
        // error column c: the '!' is the c-th character of its line
        let fill = |n: usize| -> String { std::iter::repeat('x').take(n).collect() };
        if c <= 70000 {
            // `type T (a<xs>: !)` — the reproducer of C12-F1 (a long field name)
            let pre = "type T (a";
            let t = format!("interface a.b\n{}{}: !)\n", pre, fill(c - 1 - pre.len() - 2));
            cases.push(case_of(&t, &["long-line", "long-line:field-name"]));
        }
        // a long type name (any length)
        let pre = "type T";
        let t = format!("interface a.b\n{}{} !", pre, fill(c - 1 - pre.len() - 1));
        cases.push(case_of(&t, &["long-line", "long-line:type-name"]));
        // multi-byte white space in front (2- and 3-byte characters), then the long name
        let pre = "type\u{a0}\u{3000}\u{2003} T";
        let t = format!("# doc \u{1F600}\ninterface a.b\n{}{} !\n", pre, fill(c - 1 - pre.chars().count() - 1));
        cases.push(case_of(&t, &["long-line", "long-line:multibyte"]));
        // the error at the very end of a long last line (column = length + 1)
        let t = format!("interface a.b\ntype T{}", fill(c - 1 - 6));
        cases.push(case_of(&t, &["long-line", "long-line:eof"]));
    }
    // (5c) mixed line-ending conventions in one text, an error on every line
    let mlines = ["# doc", "interface org.example.mixed", "# c", "type T (a: int,", "\tb: ?[]string)", "method M(x: T) -> ()", "error E ()"];
    let meols = ["\n", "\r\n", "\r", "\u{2028}", "\n", "\r\n", "\u{2029}"];
    for rot in 0..meols.len() {
        for k in 0..mlines.len() {
            let mut t = String::new();
            for (i, l) in mlines.iter().enumerate() {
                t.push_str(l);
                if i == k {
                    t.push_str(" !");
                }
                t.push_str(meols[(i + rot) % meols.len()]);
            }
            cases.push(case_of(&t, &["line-endings", "line-endings:mixed"]));
        }
    }
    // (5d) a tight address-space limit: small valid and invalid texts
    for i in 0..(if ctx.thorough { 120 } else { 24 }) {
        let (_, frags) = gen_valid_text(rng, 3, 2, i % 3);
        let text = if i % 2 == 0 { frags.concat() } else { mutate(rng, &frags).0 };
        cases.push(Case { input: sx::tagged("idl-lim", vec![sx::xs(&text)]), tags: vec!["address-space-limit".into()] });
    }
    // (6) a few near misses and valid texts as well (positions of ordinary syntax errors)
    for i in 0..(if ctx.thorough { 4000 } else { 800 }) {
        let (_, frags) = gen_valid_text(rng, 4, 2, i % 3);
        let (text, _) = mutate(rng, &frags);
        cases.push(case_of(&text, &["near-miss"]));
    }
}

impl Suite for IdlSuite {
    fn generate(&self, ctx: &Ctx) -> Vec<Case> {
        let mut rng = Rng::new(ctx.seed);
        let mut cases = Vec::new();
        corpus(&mut cases);
        match ctx.prop.as_str() {
            "C12" => gen_c12(ctx, &mut rng, &mut cases),
            "C11" => gen_c11(ctx, &mut rng, &mut cases),
            _ => {
                gen_c11(ctx, &mut rng, &mut cases);
                gen_c12(ctx, &mut rng, &mut cases);
            }
        }
        cases
    }

    fn run(&self, _ctx: &Ctx, input: &Sx) -> Sx {
        let l = match input.as_list() {
            Some(l) if !l.is_empty() => l,
            _ => return sx::atom("bad-case"),
        };
        if l[0].as_atom() == Some("idl-rep") && l.len() == 3 {
            let (n, t) = match (l[1].as_usize(), l[2].as_str()) {
                (Some(n), Some(t)) => (n, t),
                _ => return sx::atom("bad-case"),
            };
            let mut first: Option<Sx> = None;
            for _ in 0..n.max(1) {
                let o = match std::panic::catch_unwind(|| observe(&t)) {
                    Ok(o) => o,
                    Err(e) => {
                        let msg = e.downcast_ref::<String>().cloned().or_else(|| e.downcast_ref::<&str>().map(|s| s.to_string())).unwrap_or_else(|| "?".into());
                        return sx::tagged("panic", vec![sx::xs(&msg)]);
                    }
                };
                match &first {
                    None => first = Some(o),
                    Some(f) if *f != o => return sx::tagged("unstable", vec![sx::xs(&f.render()), sx::xs(&o.render())]),
                    _ => {}
                }
            }
            return first.unwrap();
        }
        if l[0].as_atom() == Some("idl-lim") && l.len() == 2 {
            return match l[1].as_str() {
                Some(t) => observe_limited(&t),
                None => sx::atom("bad-case"),
            };
        }
        let (deep, text) = match (l[0].as_atom(), l.len()) {
            (Some("idl"), 2) => (false, l[1].as_str()),
            (Some("idl-deep"), 3) => (true, l[2].as_str()),
            _ => return sx::atom("bad-case"),
        };
        let text = match text {
            Some(t) => t,
            None => return sx::atom("bad-case"),
        };
        if deep && DEEP_TIMEOUTS.load(Ordering::Relaxed) >= MAX_DEEP_TIMEOUTS {
            return sx::list(vec![sx::atom("skipped")]);
        }
        let obs = observe_with_deadline(text);
        if deep && matches!(&obs, Sx::List(v) if v.first().and_then(|a| a.as_atom()) == Some("timeout")) {
            DEEP_TIMEOUTS.fetch_add(1, Ordering::Relaxed);
        }
        obs
    }
}

use std::sync::atomic::{AtomicUsize, Ordering};
use std::sync::mpsc::{channel, Receiver, RecvTimeoutError, Sender};

/// Per-case deadline.  The unchanged parser needs well under 10 ms for every generated case
/// (measured: depth-200 families 1-3 ms each, the 2.2 KiB certification file 0.3 ms); 5 s leaves three
/// orders of magnitude for a loaded machine.
pub const DEADLINE_MS: u64 = 5000;
const MAX_DEEP_TIMEOUTS: usize = 3;
static DEEP_TIMEOUTS: AtomicUsize = AtomicUsize::new(0);

/// parse on the calling thread under a tight address-space limit (soft limit only: restored afterwards)
pub fn observe_limited(text: &str) -> Sx {
    let vm_bytes = std::fs::read_to_string("/proc/self/statm")
        .ok()
        .and_then(|s| s.split_whitespace().next().and_then(|p| p.parse::<u64>().ok()))
        .map(|pages| pages * 4096);
    let mut old = libc::rlimit { rlim_cur: 0, rlim_max: 0 };
    let have_old = unsafe { libc::getrlimit(libc::RLIMIT_AS, &mut old) } == 0;
    let limited = match (vm_bytes, have_old) {
        (Some(vm), true) => {
            let want = vm + (48 << 20);
            let cur = if old.rlim_max != libc::RLIM_INFINITY && want > old.rlim_max { old.rlim_max } else { want };
            let new = libc::rlimit { rlim_cur: cur, rlim_max: old.rlim_max };
            unsafe { libc::setrlimit(libc::RLIMIT_AS, &new) == 0 }
        }
        _ => false,
    };
    let obs = std::panic::catch_unwind(|| observe(text));
    if limited {
        unsafe { libc::setrlimit(libc::RLIMIT_AS, &old) };
    }
    match obs {
        Ok(o) => o,
        Err(e) => {
            let msg = e.downcast_ref::<String>().cloned().or_else(|| e.downcast_ref::<&str>().map(|s| s.to_string())).unwrap_or_else(|| "?".into());
            sx::tagged("panic", vec![sx::xs(&msg)])
        }
    }
}

struct Worker {
    tx: Sender<String>,
    rx: Receiver<Sx>,
}

fn spawn_worker() -> Worker {
    let (tx, job_rx) = channel::<String>();
    let (res_tx, rx) = channel::<Sx>();
    std::thread::Builder::new()
        .name("idl-parse".into())
        .stack_size(64 << 20)
        .spawn(move || {
            while let Ok(text) = job_rx.recv() {
                let obs = match std::panic::catch_unwind(|| observe(&text)) {
                    Ok(o) => o,
                    Err(e) => {
                        let msg = if let Some(s) = e.downcast_ref::<String>() {
                            s.clone()
                        } else if let Some(s) = e.downcast_ref::<&str>() {
                            s.to_string()
                        } else {
                            "?".into()
                        };
                        sx::tagged("panic", vec![sx::xs(&msg)])
                    }
                };
                if res_tx.send(obs).is_err() {
                    break;
                }
            }
        })
        .expect("spawn parse worker");
    Worker { tx, rx }
}

thread_local! {
    static WORKER: std::cell::RefCell<Option<Worker>> = std::cell::RefCell::new(None);
}

/// run `observe` on the worker thread; a parse that misses the deadline is abandoned (the thread is
/// left behind and a fresh worker takes over) and reported as `(timeout <ms>)`
pub fn observe_with_deadline(text: String) -> Sx {
    WORKER.with(|w| {
        let mut w = w.borrow_mut();
        if w.is_none() {
            *w = Some(spawn_worker());
        }
        let wk = w.as_ref().unwrap();
        wk.tx.send(text).expect("worker alive");
        match wk.rx.recv_timeout(std::time::Duration::from_millis(DEADLINE_MS)) {
            Ok(o) => o,
            Err(RecvTimeoutError::Timeout) => {
                *w = None;
                sx::tagged("timeout", vec![sx::nat(DEADLINE_MS as usize)])
            }
            Err(RecvTimeoutError::Disconnected) => {
                *w = None;
                sx::tagged("panic", vec![sx::xs("parse worker died")])
            }
        }
    })
}

