pub mod wire;

use crate::Suite;

pub fn by_name(name: &str) -> Option<Box<dyn Suite>> {
    match name {
        "wire" => Some(Box::new(wire::WireSuite)),
        _ => None,
    }
}
