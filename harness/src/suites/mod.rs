pub mod wire;
pub mod client;
pub mod idl;
pub mod fmt;
pub mod gen;
pub mod serde;
pub mod pool;
pub mod listen;
pub mod addr;
pub mod proxy;
pub mod cert;
pub mod cli;
pub mod jsontext;

use crate::Suite;

pub fn by_name(name: &str) -> Option<Box<dyn Suite>> {
    match name {
        "wire" => Some(Box::new(wire::WireSuite)),
        "client" => Some(Box::new(client::ClientSuite)),
        "idl" => Some(Box::new(idl::IdlSuite)),
        "fmt" => Some(Box::new(fmt::FmtSuite)),
        "gen" => Some(Box::new(gen::GenSuite)),
        "serde" => Some(Box::new(serde::SerdeSuite)),
        "pool" => Some(Box::new(pool::PoolSuite)),
        "listen" => Some(Box::new(listen::ListenSuite)),
        "addr" => Some(Box::new(addr::AddrSuite)),
        "proxy" => Some(Box::new(proxy::ProxySuite)),
        "cert" => Some(Box::new(cert::CertSuite)),
        "cli" => Some(Box::new(cli::CliSuite)),
        "jsontext" => Some(Box::new(jsontext::JsonTextSuite)),
        _ => None,
    }
}
