//! genprobe runtime — written by the `gen` suite of vharness into <verif>/work/genprobe/src/lib.rs
//! (this file is NOT a module of vharness; harness/src/suites/gen.rs embeds it with include_str!).
//!
//! Generic (IDL independent) half of the probe binaries: the line protocol, the
//! socketpair loop between a generated client and `VarlinkService::handle` with
//! the generated proxy, raw requests, and the command loop.  Everything that
//! mentions a generated type lives in the per-IDL `src/bin/p*.rs` written by gen.rs.
#![allow(warnings)]
pub mod sx;

use serde::de::DeserializeOwned;
use serde::Serialize;
use serde_json::Value;
use std::io::{BufRead, BufReader, Read, Write};
use std::os::unix::net::UnixStream;
use std::sync::{Arc, Mutex, RwLock};
use sx::Sx;
use varlink::ConnectionHandler;

pub fn json(text: &str) -> Value {
    serde_json::from_str(text).expect("json literal written by the harness")
}

/// `from_value::<T>(json).map(to_value)`
pub fn probe<T: DeserializeOwned + Serialize>(j: Value) -> Sx {
    match serde_json::from_value::<T>(j) {
        Ok(v) => match serde_json::to_value(&v) {
            Ok(j2) => sx::tagged("ok", vec![sx::json(&j2)]),
            Err(_) => sx::atom("ser-err"),
        },
        Err(_) => sx::atom("err"),
    }
}

// ---------------------------------------------------------------- recording state

pub struct State {
    pub case: i64,
    pub seen: Vec<Sx>,
}
static STATE: Mutex<State> = Mutex::new(State { case: -1, seen: Vec::new() });

pub fn set_case(k: i64) {
    let mut s = STATE.lock().unwrap_or_else(|e| e.into_inner());
    s.case = k;
    s.seen.clear();
}
/// between the steps of a session: another case, the log of what the implementations saw is kept
pub fn set_case_keep(k: i64) {
    STATE.lock().unwrap_or_else(|e| e.into_inner()).case = k;
}
pub fn seen_len() -> usize {
    STATE.lock().unwrap_or_else(|e| e.into_inner()).seen.len()
}
pub fn current_case() -> i64 {
    STATE.lock().unwrap_or_else(|e| e.into_inner()).case
}
pub fn push_seen(x: Sx) {
    STATE.lock().unwrap_or_else(|e| e.into_inner()).seen.push(x);
}
pub fn push_seen_eq(b: bool) {
    push_seen(sx::boolean(b));
}
pub fn push_seen_json<E>(name: &str, r: Result<Value, E>) {
    push_seen(match r {
        Ok(v) => sx::list(vec![sx::xs(name), sx::json(&v)]),
        Err(_) => sx::list(vec![sx::xs(name), sx::atom("ser-err")]),
    });
}
pub fn take_seen() -> Vec<Sx> {
    std::mem::take(&mut STATE.lock().unwrap_or_else(|e| e.into_inner()).seen)
}

// ---------------------------------------------------------------- frames

pub fn frames(bytes: &[u8]) -> Vec<Sx> {
    let mut out = Vec::new();
    let mut rest = bytes;
    while !rest.is_empty() {
        match rest.iter().position(|b| *b == 0) {
            Some(p) => {
                out.push(match serde_json::from_slice::<Value>(&rest[..p]) {
                    Ok(mut v) => {
                        // serde's message text is not part of any observation
                        if v.get("error").and_then(|e| e.as_str()) == Some("org.varlink.service.InvalidParameter") {
                            if let Some(p) = v.get_mut("parameters").and_then(|p| p.get_mut("parameter")) {
                                if p.as_str() != Some("parameters") {
                                    *p = Value::from("*");
                                }
                            }
                        }
                        sx::json(&v)
                    }
                    Err(_) => sx::atom("bad-json"),
                });
                rest = &rest[p + 1..];
            }
            None => {
                out.push(sx::atom("unterminated"));
                break;
            }
        }
    }
    out
}

pub fn vkind(k: Option<&varlink::ErrorKind>) -> &'static str {
    use varlink::ErrorKind as K;
    match k {
        None => "none",
        Some(K::Io(_)) => "io",
        Some(K::SerdeJsonSer(_)) => "serde-ser",
        Some(K::SerdeJsonDe(_)) => "serde-de",
        Some(K::InterfaceNotFound(_)) => "interface-not-found",
        Some(K::InvalidParameter(_)) => "invalid-parameter",
        Some(K::MethodNotFound(_)) => "method-not-found",
        Some(K::MethodNotImplemented(_)) => "method-not-implemented",
        Some(K::VarlinkErrorReply(_)) => "error-reply",
        Some(K::CallContinuesMismatch) => "continues-mismatch",
        Some(K::MethodCalledAlready) => "called-already",
        Some(K::ConnectionBusy) => "busy",
        Some(K::IteratorOldReply) => "old-reply",
        Some(K::Server) => "server",
        Some(K::Timeout) => "timeout",
        Some(K::ConnectionClosed) => "closed",
        Some(K::InvalidAddress) => "invalid-address",
        Some(K::Generic) => "generic",
    }
}

/// name of the variant of a `Debug`-printed enum value: text up to the first `(`, ` ` or `{`
pub fn variant_name<T: std::fmt::Debug>(v: &T) -> String {
    let s = format!("{:?}", v);
    s.split(|c: char| c == '(' || c == ' ' || c == '{').next().unwrap_or("").to_string()
}

// ---------------------------------------------------------------- socketpair loop

struct TeeR(UnixStream, Arc<Mutex<Vec<u8>>>);
impl Read for TeeR {
    fn read(&mut self, buf: &mut [u8]) -> std::io::Result<usize> {
        let n = self.0.read(buf)?;
        self.1.lock().unwrap().extend_from_slice(&buf[..n]);
        Ok(n)
    }
}
struct TeeW(UnixStream, Arc<Mutex<Vec<u8>>>);
impl Write for TeeW {
    fn write(&mut self, buf: &[u8]) -> std::io::Result<usize> {
        let n = self.0.write(buf)?;
        self.1.lock().unwrap().extend_from_slice(&buf[..n]);
        Ok(n)
    }
    fn flush(&mut self) -> std::io::Result<()> {
        self.0.flush()
    }
}

/// generated client  <->  UnixStream::pair()  <->  VarlinkService::handle (generated proxy inside)
pub fn run_loop<F>(service: varlink::VarlinkService, client: F) -> Sx
where
    F: FnOnce(Arc<RwLock<varlink::Connection>>) -> Vec<Sx>,
{
    let (a, b) = UnixStream::pair().expect("socketpair");
    let _ = a.set_read_timeout(Some(std::time::Duration::from_secs(3)));
    let _ = b.set_read_timeout(Some(std::time::Duration::from_secs(3)));
    let sent = Arc::new(Mutex::new(Vec::new()));
    let recv = Arc::new(Mutex::new(Vec::new()));
    let srv = std::thread::spawn(move || {
        let mut rd = BufReader::new(b.try_clone().expect("clone"));
        let mut wr = b;
        let r = service.handle(&mut rd, &mut wr, None);
        let _ = wr.shutdown(std::net::Shutdown::Both);
        r.is_ok()
    });
    let mut conn = varlink::Connection::default();
    let rd: Box<dyn Read + Send + Sync> = Box::new(TeeR(a.try_clone().expect("clone"), recv.clone()));
    conn.reader = Some(BufReader::new(rd));
    conn.writer = Some(Box::new(TeeW(a.try_clone().expect("clone"), sent.clone())));
    let conn = Arc::new(RwLock::new(conn));
    let outcomes = client(conn);
    let _ = a.shutdown(std::net::Shutdown::Write);
    let srv_ok = srv.join().unwrap_or(false);
    // whatever the server wrote and the client never read
    let mut left = Vec::new();
    let mut a2 = a;
    let _ = a2.set_read_timeout(Some(std::time::Duration::from_millis(200)));
    let _ = a2.read_to_end(&mut left);
    let mut wire = recv.lock().unwrap().clone();
    wire.extend_from_slice(&left);
    let sent = sent.lock().unwrap().clone();
    sx::tagged(
        "call",
        vec![
            sx::tagged("req", frames(&sent)),
            sx::tagged("seen", take_seen()),
            sx::tagged("wire", frames(&wire)),
            sx::tagged("client", outcomes),
            sx::tagged("srv", vec![sx::atom(if srv_ok { "ok" } else { "err" })]),
        ],
    )
}

/// raw request bytes through `VarlinkService::handle` (no client)
pub fn run_raw(service: varlink::VarlinkService, bytes: &[u8]) -> Sx {
    let mut rd: &[u8] = bytes;
    let mut out: Vec<u8> = Vec::new();
    let r = service.handle(&mut rd, &mut out, None);
    sx::tagged(
        "raw",
        vec![
            sx::tagged("seen", take_seen()),
            sx::tagged("wire", frames(&out)),
            sx::tagged("srv", vec![sx::atom(if r.is_ok() { "ok" } else { "err" })]),
        ],
    )
}

// ---------------------------------------------------------------- command loop

pub struct Handlers {
    /// `get_description()` of the generated proxy
    pub description: fn() -> &'static str,
    pub probe: fn(&str, Value) -> Option<Sx>,
    pub call: fn(i64, Arc<RwLock<varlink::Connection>>) -> Vec<Sx>,
    pub service: fn() -> varlink::VarlinkService,
    /// client side of the compiled-in call cases, one per generated interface of a session binary
    pub session: Vec<fn(i64, Arc<RwLock<varlink::Connection>>) -> Vec<Sx>>,
}

/// one raw request written on the shared connection by hand, one reply read back
fn raw_step(conn: &Arc<RwLock<varlink::Connection>>, bytes: &[u8]) -> Sx {
    let mut c = conn.write().unwrap();
    let (mut w, mut r) = match (c.writer.take(), c.reader.take()) {
        (Some(w), Some(r)) => (w, r),
        (w, r) => {
            c.writer = w;
            c.reader = r;
            return sx::tagged("r", vec![sx::atom("busy")]);
        }
    };
    let res = (|| -> std::io::Result<Vec<u8>> {
        w.write_all(bytes)?;
        w.flush()?;
        let mut buf = Vec::new();
        r.read_until(0, &mut buf)?;
        Ok(buf)
    })();
    c.writer = Some(w);
    c.reader = Some(r);
    match res {
        Ok(buf) if buf.is_empty() => sx::tagged("r", vec![sx::atom("closed")]),
        Ok(buf) => {
            let mut l = vec![];
            l.extend(frames(&buf));
            sx::tagged("r", l)
        }
        Err(_) => sx::tagged("r", vec![sx::atom("io")]),
    }
}

fn client_conn(a: &UnixStream, sent: &Arc<Mutex<Vec<u8>>>, recv: &Arc<Mutex<Vec<u8>>>) -> Arc<RwLock<varlink::Connection>> {
    let mut conn = varlink::Connection::default();
    let rd: Box<dyn Read + Send + Sync> = Box::new(TeeR(a.try_clone().expect("clone"), recv.clone()));
    conn.reader = Some(BufReader::new(rd));
    conn.writer = Some(Box::new(TeeW(a.try_clone().expect("clone"), sent.clone())));
    Arc::new(RwLock::new(conn))
}

/// `(sendclose IFACE K1 K2)`: a first client sends the request of call case K1 (a stream it never reads) and closes its
/// connection BEFORE the server looks at it; then ONE server thread serves that dead connection and after it a second
/// connection on which a second client performs call case K2.
fn sendclose(h: &Handlers, i: usize, k1: i64, k2: i64) -> Sx {
    set_case(-1);
    let f = match h.session.get(i) {
        Some(f) => *f,
        None => return sx::atom("no-such-interface"),
    };
    let (sent1, recv1) = (Arc::new(Mutex::new(Vec::new())), Arc::new(Mutex::new(Vec::new())));
    let (a1, b1) = UnixStream::pair().expect("socketpair");
    let _ = a1.set_read_timeout(Some(std::time::Duration::from_secs(3)));
    set_case_keep(k1);
    let outs1 = f(k1, client_conn(&a1, &sent1, &recv1));
    let _ = a1.shutdown(std::net::Shutdown::Both);
    drop(a1);
    let (a2, b2) = UnixStream::pair().expect("socketpair");
    let _ = a2.set_read_timeout(Some(std::time::Duration::from_secs(3)));
    let _ = b2.set_read_timeout(Some(std::time::Duration::from_secs(3)));
    let service = (h.service)();
    let (tx, rx) = std::sync::mpsc::channel::<bool>();
    let srv = std::thread::spawn(move || {
        let mut rd = BufReader::new(b1.try_clone().expect("clone"));
        let mut wr = b1;
        let r1 = service.handle(&mut rd, &mut wr, None).is_ok();
        drop(rd);
        drop(wr);
        let _ = tx.send(r1);
        let mut rd = BufReader::new(b2.try_clone().expect("clone"));
        let mut wr = b2;
        let r2 = service.handle(&mut rd, &mut wr, None).is_ok();
        let _ = wr.shutdown(std::net::Shutdown::Both);
        (r1, r2)
    });
    let r1 = rx.recv_timeout(std::time::Duration::from_secs(5)).unwrap_or(false);
    let (sent2, recv2) = (Arc::new(Mutex::new(Vec::new())), Arc::new(Mutex::new(Vec::new())));
    set_case_keep(k2);
    let outs2 = f(k2, client_conn(&a2, &sent2, &recv2));
    let _ = a2.shutdown(std::net::Shutdown::Write);
    let (_, r2) = srv.join().unwrap_or((false, false));
    let mut left = Vec::new();
    let mut a2 = a2;
    let _ = a2.set_read_timeout(Some(std::time::Duration::from_millis(200)));
    let _ = a2.read_to_end(&mut left);
    let mut wire = recv2.lock().unwrap().clone();
    wire.extend_from_slice(&left);
    let seen = take_seen();
    set_case(-1);
    sx::tagged(
        "sendclose",
        vec![
            sx::tagged("first", outs1),
            sx::tagged("srv1", vec![sx::atom(if r1 { "ok" } else { "err" })]),
            sx::tagged("second", outs2),
            sx::tagged("seen", seen),
            sx::tagged("wire", frames(&wire)),
            sx::tagged("srv2", vec![sx::atom(if r2 { "ok" } else { "err" })]),
        ],
    )
}

/// `(session (g IFACE K oneway?) | (r b<bytes>) …)`: the steps one after the other over ONE connection
fn session(h: &Handlers, steps: &[Sx]) -> Sx {
    set_case(-1);
    let steps: Vec<Sx> = steps.to_vec();
    let fns = h.session.clone();
    let r = run_loop((h.service)(), move |conn| {
        let mut out = Vec::new();
        for st in &steps {
            let l = match st.as_list() {
                Some(l) if !l.is_empty() => l,
                _ => continue,
            };
            match l[0].as_atom().unwrap_or("") {
                "g" => {
                    let i: usize = l.get(1).and_then(|x| x.as_atom()).and_then(|a| a.parse().ok()).unwrap_or(0);
                    let k: i64 = l.get(2).and_then(|x| x.as_atom()).and_then(|a| a.parse().ok()).unwrap_or(-1);
                    let oneway = l.get(3).and_then(|x| x.as_atom()) == Some("t");
                    let before = seen_len();
                    set_case_keep(k);
                    let outs = match fns.get(i) {
                        Some(f) => f(k, conn.clone()),
                        None => vec![sx::atom("no-such-interface")],
                    };
                    if oneway && (outs.is_empty() || outs.first().and_then(|x| x.as_atom()) == Some("ok-oneway")) {
                        // the server handles the request in its own time: wait until the implementation has seen it
                        let t0 = std::time::Instant::now();
                        while seen_len() == before && t0.elapsed() < std::time::Duration::from_secs(3) {
                            std::thread::sleep(std::time::Duration::from_millis(2));
                        }
                    }
                    out.push(sx::tagged("g", outs));
                }
                "r" => {
                    set_case_keep(-1);
                    let b = l.get(1).and_then(|x| x.as_bytes()).unwrap_or_default();
                    out.push(raw_step(&conn, &b));
                }
                _ => out.push(sx::atom("bad-step")),
            }
        }
        out
    });
    set_case(-1);
    sx::tagged("session", vec![r])
}

fn one(h: &Handlers, cmd: &Sx) -> Sx {
    let l = match cmd.as_list() {
        Some(l) if !l.is_empty() => l,
        _ => return sx::atom("bad-cmd"),
    };
    match l[0].as_atom().unwrap_or("") {
        "probe" => {
            let ty = l.get(1).and_then(|x| x.as_str()).unwrap_or_default();
            let j = match l.get(2).and_then(|x| x.to_json()) {
                Some(j) => j,
                None => return sx::atom("bad-cmd"),
            };
            match (h.probe)(&ty, j) {
                Some(x) => sx::tagged("probe", vec![x]),
                None => sx::tagged("probe", vec![sx::atom("no-such-type")]),
            }
        }
        "call" => {
            let k: i64 = l.get(1).and_then(|x| x.as_atom()).and_then(|a| a.parse().ok()).unwrap_or(-1);
            set_case(k);
            let call = h.call;
            let r = run_loop((h.service)(), move |c| call(k, c));
            set_case(-1);
            r
        }
        "session" => session(h, &l[1..]),
        "sendclose" => {
            let n = |k: usize| -> i64 { l.get(k).and_then(|x| x.as_atom()).and_then(|a| a.parse().ok()).unwrap_or(-1) };
            sendclose(h, n(1).max(0) as usize, n(2), n(3))
        }
        "desc" => {
            // the description constant the generator emitted, compared with the definition text byte by byte
            let expected = l.get(1).and_then(|x| x.as_str()).unwrap_or_default();
            sx::tagged("desc", vec![sx::boolean((h.description)() == expected)])
        }
        "raw" => {
            let b = l.get(1).and_then(|x| x.as_bytes()).unwrap_or_default();
            set_case(-1);
            run_raw((h.service)(), &b)
        }
        _ => sx::atom("bad-cmd"),
    }
}

/// reads one command per line from the file given as argv[1] (or stdin), prints one observation per line
pub fn serve(h: Handlers) {
    std::panic::set_hook(Box::new(|_| {}));
    let input: Box<dyn BufRead> = match std::env::args().nth(1) {
        Some(p) => Box::new(BufReader::new(std::fs::File::open(p).expect("command file"))),
        None => Box::new(BufReader::new(std::io::stdin())),
    };
    let stdout = std::io::stdout();
    for line in input.lines() {
        let line = match line {
            Ok(l) => l,
            Err(_) => break,
        };
        if line.trim().is_empty() {
            continue;
        }
        let obs = match sx::parse(&line) {
            None => sx::atom("bad-cmd"),
            Some(cmd) => match std::panic::catch_unwind(std::panic::AssertUnwindSafe(|| one(&h, &cmd))) {
                Ok(o) => o,
                Err(e) => {
                    let msg = if let Some(s) = e.downcast_ref::<String>() {
                        s.clone()
                    } else if let Some(s) = e.downcast_ref::<&str>() {
                        s.to_string()
                    } else {
                        "?".into()
                    };
                    set_case(-1);
                    sx::tagged("panic", vec![sx::xs(&msg)])
                }
            },
        };
        let mut o = stdout.lock();
        let _ = writeln!(o, "{}", obs.render());
        let _ = o.flush();
    }
}
