//! Suite `pool` (C14, and the drain clause of C15): the REAL `ThreadPool` of
//! varlink/src/server.rs driven along forced schedules through the
//! `cfg(varlink_rust_verif)` probe points.
//!
//! Case:  (pool <initial> <max> (steps <step>*))
//!   step = E        acceptor: `execute(job)` up to the probe after `send`
//!        | G        acceptor: growth check, `execute` returns
//!        | D        a worker has taken the next job off the channel
//!        | (S j)    the worker holding abstract job j starts its closure
//!        | (F j)    the closure of job j returns (the peer closes the connection)
//!        | (X j)    that worker decrements the busy counter and goes back to `recv`
//!        | P        the acceptor drops the pool (Terminate per worker, join)
//!        | (W ms)   nothing happens for ms milliseconds (real time)
//! Abstract job ids count the E steps; jobs are interchangeable, the harness maps
//! them to the closures that actually start.
//!
//! Observation: (obs (o <enabled> <busy> <workers> <running>)* (end <finished-jobs> <joined>))
//! one `o` per step, taken after the step; a step that is not enabled is skipped.
use crate::rng::Rng;
use crate::sx::{self, Sx};
use crate::{Case, Ctx, Suite};
use std::collections::HashMap;
use std::sync::atomic::{AtomicUsize, Ordering};
use std::sync::mpsc::{channel, Receiver, Sender};
use std::sync::{Arc, Condvar, Mutex, RwLock};
use std::thread::{self, ThreadId};
use std::time::{Duration, Instant};
use varlink::verif_hooks;

pub struct PoolSuite;

const WAIT: Duration = Duration::from_millis(3000);

#[derive(Default)]
struct CtlState {
    waiting: Vec<(ThreadId, &'static str, usize)>,
    grants: Vec<(ThreadId, &'static str)>,
    log: Vec<(ThreadId, &'static str, usize)>,
    release_all: bool,
}

struct Ctl {
    st: Mutex<CtlState>,
    cv: Condvar,
}

// ("terminate" is held until the clean-up: in the code as it is a worker only gets there after the pool
// was dropped, and a worker that decides to leave at any other time stays visible as a parked one)
const AUTO: [&str; 4] = ["worker-spawned", "execute-done", "busy-inc", "busy-dec"];

impl Ctl {
    fn probe(&self, ev: &'static str, val: usize) {
        let tid = thread::current().id();
        let mut st = self.st.lock().unwrap();
        st.log.push((tid, ev, val));
        if AUTO.contains(&ev) || st.release_all {
            self.cv.notify_all();
            return;
        }
        st.waiting.push((tid, ev, val));
        self.cv.notify_all();
        loop {
            if st.release_all {
                break;
            }
            if let Some(i) = st.grants.iter().position(|g| g.0 == tid && g.1 == ev) {
                st.grants.remove(i);
                break;
            }
            st = self.cv.wait(st).unwrap();
        }
        if let Some(i) = st.waiting.iter().position(|w| w.0 == tid && w.1 == ev) {
            st.waiting.remove(i);
        }
        self.cv.notify_all();
    }
    /// wait until `f` holds on the state (or timeout)
    fn wait_for<T>(&self, f: impl Fn(&CtlState) -> Option<T>) -> Option<T> {
        let deadline = Instant::now() + WAIT;
        let mut st = self.st.lock().unwrap();
        loop {
            if let Some(v) = f(&st) {
                return Some(v);
            }
            let now = Instant::now();
            if now >= deadline {
                return None;
            }
            let (g, _) = self.cv.wait_timeout(st, deadline - now).unwrap();
            st = g;
        }
    }
    fn grant(&self, tid: ThreadId, ev: &'static str) {
        let mut st = self.st.lock().unwrap();
        st.grants.push((tid, ev));
        self.cv.notify_all();
    }
}

enum Cmd {
    Exec(usize),
    Drop,
}

enum Ack {
    Executed(usize), // number of workers after execute
    Dropped,
}

struct JobCtl {
    started: Mutex<Vec<usize>>,            // actual ids in start order
    finish: Mutex<HashMap<usize, bool>>,   // actual id -> may return
    finished: Mutex<Vec<usize>>,
    cv: Condvar,
    running: AtomicUsize,
}

/// Free-running bursts: no thread is held at a probe point.  Per round, k <= max long-lived jobs are handed
/// to the pool back to back; all k must be running shortly afterwards (nobody has to wait for another job
/// to finish); then all are released and the pool settles before the next round.
fn run_storm(initial: usize, max: usize, k: usize, rounds: usize) -> Sx {
    verif_hooks::set_probe(None);
    let mut pool = verif_hooks::Pool::new(initial, max);
    let mut verdict = sx::list(vec![sx::atom("storm"), sx::atom("ok")]);
    for round in 0..rounds {
        let running = Arc::new(AtomicUsize::new(0));
        let finished = Arc::new(AtomicUsize::new(0));
        let release = Arc::new((Mutex::new(false), Condvar::new()));
        for _ in 0..k {
            let running = running.clone();
            let finished = finished.clone();
            let release = release.clone();
            pool.execute(move || {
                running.fetch_add(1, Ordering::SeqCst);
                let (m, cv) = &*release;
                let mut go = m.lock().unwrap();
                while !*go {
                    go = cv.wait(go).unwrap();
                }
                drop(go);
                finished.fetch_add(1, Ordering::SeqCst);
            });
        }
        let deadline = Instant::now() + Duration::from_millis(1500);
        while running.load(Ordering::SeqCst) < k && Instant::now() < deadline {
            thread::sleep(Duration::from_micros(200));
        }
        let r = running.load(Ordering::SeqCst);
        {
            let (m, cv) = &*release;
            *m.lock().unwrap() = true;
            cv.notify_all();
        }
        let deadline = Instant::now() + Duration::from_millis(3000);
        while (finished.load(Ordering::SeqCst) < k || pool.num_busy() > 0) && Instant::now() < deadline {
            thread::sleep(Duration::from_micros(200));
        }
        if r < k {
            verdict = sx::list(vec![sx::atom("storm"), sx::atom("stranded"), sx::nat(round), sx::nat(r), sx::nat(k)]);
            break;
        }
    }
    drop(pool);
    verdict
}

fn run_schedule(initial: usize, max: usize, steps: &[Sx]) -> Sx {
    let ctl = Arc::new(Ctl { st: Mutex::new(CtlState::default()), cv: Condvar::new() });
    {
        let c = ctl.clone();
        verif_hooks::set_probe(Some(Arc::new(move |ev, val| c.probe(ev, val))));
    }
    let jobs = Arc::new(JobCtl {
        started: Mutex::new(Vec::new()),
        finish: Mutex::new(HashMap::new()),
        finished: Mutex::new(Vec::new()),
        cv: Condvar::new(),
        running: AtomicUsize::new(0),
    });
    let pool = verif_hooks::Pool::new(initial, max);
    let busy_handle: Arc<RwLock<usize>> = pool.busy_counter();
    let mut workers = pool.num_workers();
    let (cmd_tx, cmd_rx): (Sender<Cmd>, Receiver<Cmd>) = channel();
    let (ack_tx, ack_rx): (Sender<Ack>, Receiver<Ack>) = channel();
    let acc_jobs = jobs.clone();
    let acceptor = thread::spawn(move || {
        let mut pool = Some(pool);
        for c in cmd_rx {
            match c {
                Cmd::Exec(id) => {
                    let j = acc_jobs.clone();
                    pool.as_mut().unwrap().execute(move || {
                        j.running.fetch_add(1, Ordering::SeqCst);
                        j.started.lock().unwrap().push(id);
                        j.cv.notify_all();
                        let mut f = j.finish.lock().unwrap();
                        while !f.get(&id).copied().unwrap_or(false) {
                            f = j.cv.wait(f).unwrap();
                        }
                        drop(f);
                        j.running.fetch_sub(1, Ordering::SeqCst);
                        j.finished.lock().unwrap().push(id);
                        j.cv.notify_all();
                    });
                    let n = pool.as_ref().unwrap().num_workers();
                    let _ = ack_tx.send(Ack::Executed(n));
                }
                Cmd::Drop => {
                    drop(pool.take());
                    let _ = ack_tx.send(Ack::Dropped);
                }
            }
        }
        drop(pool.take());
    });
    let acc_tid = acceptor.thread().id();

    // shadow of the abstract state, used only to decide which steps are attempted
    let mut next_job = 0usize;
    let mut acc_sent = false;
    let mut dropped = false;
    let mut queue: Vec<Option<usize>> = Vec::new(); // abstract ids waiting; None = Terminate
    let mut term_seen = 0usize;
    let mut held: Vec<usize> = Vec::new(); // dequeued, not started
    let mut running: HashMap<usize, usize> = HashMap::new(); // abstract -> actual
    let mut done: HashMap<usize, (usize, ThreadId)> = HashMap::new(); // abstract -> (actual, thread at job-done)
    let mut deq_seen = 0usize; // dequeued events consumed by D steps
    let mut started_seen = 0usize;
    let mut dec_seen = 0usize;
    let mut idle_workers = workers;
    let mut obs: Vec<Sx> = Vec::new();
    let mut drop_pending = false;

    for st in steps {
        let (tag, arg): (String, usize) = match st {
            Sx::Atom(a) => (a.clone(), 0),
            Sx::List(l) => (l[0].as_atom().unwrap().to_string(), l[1].as_usize().unwrap()),
        };
        let mut enabled = false;
        let mut timed_out = false;
        match tag.as_str() {
            "E" => {
                if !acc_sent && !dropped {
                    enabled = true;
                    cmd_tx.send(Cmd::Exec(next_job)).unwrap();
                    if ctl.wait_for(|s| s.waiting.iter().find(|w| w.0 == acc_tid && w.1 == "enqueued").map(|_| ())).is_none() {
                        timed_out = true;
                    }
                    queue.push(Some(next_job));
                    next_job += 1;
                    acc_sent = true;
                }
            }
            "G" => {
                if acc_sent {
                    enabled = true;
                    ctl.grant(acc_tid, "enqueued");
                    match ack_rx.recv_timeout(WAIT) {
                        Ok(Ack::Executed(n)) => {
                            idle_workers += n - workers;
                            workers = n;
                        }
                        _ => timed_out = true,
                    }
                    acc_sent = false;
                }
            }
            "D" => {
                if idle_workers > 0 && !queue.is_empty() {
                    enabled = true;
                    match queue.remove(0) {
                        Some(j) => {
                            let want = deq_seen + 1;
                            if ctl.wait_for(|s| if s.log.iter().filter(|e| e.1 == "dequeued").count() >= want { Some(()) } else { None }).is_none() {
                                timed_out = true;
                            }
                            deq_seen += 1;
                            held.push(j);
                        }
                        None => {
                            let want = term_seen + 1;
                            if ctl.wait_for(|s| if s.log.iter().filter(|e| e.1 == "terminate").count() >= want { Some(()) } else { None }).is_none() {
                                timed_out = true;
                            }
                            term_seen += 1;
                        }
                    }
                    idle_workers -= 1;
                }
            }
            "S" => {
                if let Some(p) = held.iter().position(|j| *j == arg) {
                    enabled = true;
                    // release the oldest worker parked at "dequeued"
                    let who = ctl.wait_for(|s| s.waiting.iter().find(|w| w.1 == "dequeued").map(|w| w.0));
                    match who {
                        Some(tid) => {
                            ctl.grant(tid, "dequeued");
                            let want = started_seen + 1;
                            let deadline = Instant::now() + WAIT;
                            let mut g = jobs.started.lock().unwrap();
                            while g.len() < want && Instant::now() < deadline {
                                let (gg, _) = jobs.cv.wait_timeout(g, Duration::from_millis(50)).unwrap();
                                g = gg;
                            }
                            if g.len() >= want {
                                let actual = g[want - 1];
                                started_seen += 1;
                                running.insert(arg, actual);
                            } else {
                                timed_out = true;
                            }
                        }
                        None => timed_out = true,
                    }
                    held.remove(p);
                }
            }
            "F" => {
                if let Some(actual) = running.get(&arg).copied() {
                    enabled = true;
                    let before: Vec<ThreadId> = ctl.st.lock().unwrap().waiting.iter().filter(|w| w.1 == "job-done").map(|w| w.0).collect();
                    jobs.finish.lock().unwrap().insert(actual, true);
                    jobs.cv.notify_all();
                    let who = ctl.wait_for(|s| s.waiting.iter().find(|w| w.1 == "job-done" && !before.contains(&w.0)).map(|w| w.0));
                    match who {
                        Some(tid) => {
                            done.insert(arg, (actual, tid));
                        }
                        None => timed_out = true,
                    }
                    running.remove(&arg);
                }
            }
            "X" => {
                if let Some((_, tid)) = done.get(&arg).copied() {
                    enabled = true;
                    ctl.grant(tid, "job-done");
                    let want = dec_seen + 1;
                    if ctl.wait_for(|s| if s.log.iter().filter(|e| e.1 == "busy-dec").count() >= want { Some(()) } else { None }).is_none() {
                        timed_out = true;
                    }
                    dec_seen += 1;
                    done.remove(&arg);
                    idle_workers += 1;
                }
            }
            "W" => {
                enabled = true;
                thread::sleep(Duration::from_millis(arg as u64));
            }
            "P" => {
                if !acc_sent && !dropped {
                    enabled = true;
                    cmd_tx.send(Cmd::Drop).unwrap();
                    dropped = true;
                    drop_pending = true;
                    for _ in 0..workers {
                        queue.push(None);
                    }
                    // give the Terminate messages time to be queued behind the jobs
                    thread::sleep(Duration::from_millis(5));
                }
            }
            _ => {}
        }
        if timed_out {
            obs.push(sx::list(vec![sx::atom("timeout")]));
            break;
        }
        let busy = *busy_handle.read().unwrap();
        obs.push(sx::list(vec![
            sx::atom("o"),
            sx::boolean(enabled),
            sx::nat(busy),
            sx::nat(workers),
            sx::nat(jobs.running.load(Ordering::SeqCst)),
        ]));
    }

    // cleanup: let everything run to completion
    {
        let mut st = ctl.st.lock().unwrap();
        st.release_all = true;
        ctl.cv.notify_all();
    }
    {
        let mut f = jobs.finish.lock().unwrap();
        for id in 0..next_job {
            f.insert(id, true);
        }
        jobs.cv.notify_all();
    }
    if acc_sent {
        let _ = ack_rx.recv_timeout(WAIT);
    }
    if !dropped {
        let _ = cmd_tx.send(Cmd::Drop);
        drop_pending = true;
    }
    let mut joined = false;
    if drop_pending {
        let deadline = Instant::now() + WAIT;
        while Instant::now() < deadline {
            match ack_rx.recv_timeout(Duration::from_millis(100)) {
                Ok(Ack::Dropped) => {
                    joined = true;
                    break;
                }
                Ok(_) => {}
                Err(_) => {}
            }
        }
    }
    drop(cmd_tx);
    if joined {
        let _ = acceptor.join();
    }
    verif_hooks::set_probe(None);
    let mut fin = jobs.finished.lock().unwrap().clone();
    fin.sort();
    obs.push(sx::list(vec![sx::atom("end"), sx::nat(fin.len()), sx::nat(next_job), sx::boolean(joined)]));
    sx::tagged("obs", obs)
}

fn step_sx(tag: &str, j: Option<usize>) -> Sx {
    match j {
        None => sx::atom(tag),
        Some(j) => sx::list(vec![sx::atom(tag), sx::nat(j)]),
    }
}

/// random walk over the abstract steps, biased towards enabled ones
fn gen_schedule(rng: &mut Rng, initial: usize, max: usize, len: usize) -> Vec<Sx> {
    let mut steps = Vec::new();
    let mut next_job = 0usize;
    let mut acc_sent = false;
    let mut queue: Vec<usize> = Vec::new();
    let mut held: Vec<usize> = Vec::new();
    let mut running: Vec<usize> = Vec::new();
    let mut done: Vec<usize> = Vec::new();
    let _ = (initial, max);
    for _ in 0..len {
        let mut options: Vec<(&str, Option<usize>)> = Vec::new();
        if !acc_sent && next_job < 7 {
            options.push(("E", None));
            options.push(("E", None));
        }
        if acc_sent {
            options.push(("G", None));
            options.push(("G", None));
        }
        if !queue.is_empty() {
            options.push(("D", None));
        }
        for j in &held {
            options.push(("S", Some(*j)));
        }
        for j in &running {
            options.push(("F", Some(*j)));
        }
        for j in &done {
            options.push(("X", Some(*j)));
        }
        if rng.chance(1, 12) {
            // a step that may well be disabled
            options.push((*rng.pick(&["E", "G", "D"]), None));
            options.push(("S", Some(rng.below(next_job + 1))));
        }
        if options.is_empty() {
            break;
        }
        let (t, j) = *rng.pick(&options);
        match (t, j) {
            ("E", _) if !acc_sent => {
                queue.push(next_job);
                next_job += 1;
                acc_sent = true;
            }
            ("G", _) if acc_sent => acc_sent = false,
            ("D", _) if !queue.is_empty() => {
                // may be disabled when no idle worker exists: the shadow here is optimistic,
                // model and harness decide for themselves
            }
            _ => {}
        }
        // keep the generator's picture roughly in sync (optimistic)
        if t == "D" && !queue.is_empty() {
            held.push(queue.remove(0));
        } else if t == "S" {
            if let Some(p) = held.iter().position(|x| Some(*x) == j) {
                running.push(held.remove(p));
            }
        } else if t == "F" {
            if let Some(p) = running.iter().position(|x| Some(*x) == j) {
                done.push(running.remove(p));
            }
        } else if t == "X" {
            if let Some(p) = done.iter().position(|x| Some(*x) == j) {
                done.remove(p);
            }
        }
        steps.push(step_sx(t, j));
    }
    steps
}

fn mk_case(initial: usize, max: usize, steps: Vec<Sx>) -> Sx {
    sx::tagged("pool", vec![sx::nat(initial), sx::nat(max), sx::tagged("steps", steps)])
}

impl Suite for PoolSuite {
    fn generate(&self, ctx: &Ctx) -> Vec<Case> {
        let mut rng = Rng::new(ctx.seed ^ 0x706f6f6c);
        let mut cases = Vec::new();
        if let Ok(txt) = std::fs::read_to_string(concat!(env!("CARGO_MANIFEST_DIR"), "/corpus/pool.txt")) {
            for l in txt.lines() {
                if let Some(s) = sx::parse(l) {
                    cases.push(Case { input: s, tags: vec!["corpus".into()] });
                }
            }
        }
        // fill the pool: n connections arrive and are served one after the other, none finishes
        for initial in 1..=3usize {
            for max in 1..=4usize {
                let mut steps = Vec::new();
                for j in 0..(max + 2) {
                    steps.push(step_sx("E", None));
                    steps.push(step_sx("G", None));
                    steps.push(step_sx("D", None));
                    steps.push(step_sx("S", Some(j)));
                }
                cases.push(Case { input: mk_case(initial, max, steps), tags: vec!["fill".into(), format!("cfg:{}x{}", initial, max)] });
                // burst: all arrivals before any worker marks itself busy
                let mut steps = Vec::new();
                for _ in 0..(max + 1) {
                    steps.push(step_sx("E", None));
                    steps.push(step_sx("G", None));
                    steps.push(step_sx("D", None));
                }
                for j in 0..(max + 1) {
                    steps.push(step_sx("S", Some(j)));
                }
                cases.push(Case { input: mk_case(initial, max, steps), tags: vec!["burst".into(), format!("cfg:{}x{}", initial, max)] });
            }
        }
        // k arrivals are queued before any idle worker has picked one up: every one of them needs a wake-up
        for (initial, max) in [(2usize, 2usize), (3, 3), (3, 4), (4, 4)] {
            for k in 2..=initial {
                let mut steps = Vec::new();
                for _ in 0..k {
                    steps.push(step_sx("E", None));
                    steps.push(step_sx("G", None));
                }
                for _ in 0..k {
                    steps.push(step_sx("D", None));
                }
                for j in 0..k {
                    steps.push(step_sx("S", Some(j)));
                }
                cases.push(Case { input: mk_case(initial, max, steps), tags: vec!["queued-before-any-pickup".into(), format!("cfg:{}x{}", initial, max)] });
            }
        }
        // free-running bursts of long-lived connections (wake-ups that depend on real timing)
        for (initial, max, k) in [(1usize, 2usize, 2usize), (3, 3, 2), (2, 4, 3), (4, 4, 4)] {
            let rounds = if ctx.thorough { 400 } else { 60 };
            cases.push(Case {
                input: sx::tagged("pool-storm", vec![sx::nat(initial), sx::nat(max), sx::nat(k), sx::nat(rounds)]),
                tags: vec!["storm".into(), format!("cfg:{}x{}", initial, max)],
            });
        }
        if ctx.thorough {
            // a long quiet period with surplus workers idle, then another connection: it must be picked up
            // (a pool that lets idle workers go must not leave the newcomer waiting)
            for (initial, max) in [(1usize, 3usize), (2, 4)] {
                let mut steps = Vec::new();
                for j in 0..max {
                    steps.push(step_sx("E", None));
                    steps.push(step_sx("G", None));
                    steps.push(step_sx("D", None));
                    steps.push(step_sx("S", Some(j)));
                }
                steps.push(step_sx("F", Some(max - 1)));
                steps.push(step_sx("X", Some(max - 1)));
                steps.push(step_sx("W", Some(10_600)));
                steps.push(step_sx("E", None));
                steps.push(step_sx("G", None));
                steps.push(step_sx("D", None));
                steps.push(step_sx("S", Some(max)));
                cases.push(Case { input: mk_case(initial, max, steps), tags: vec!["long-idle-gap".into(), format!("cfg:{}x{}", initial, max)] });
            }
        }
        let n = if ctx.thorough { 5000 } else { 90 };
        for _ in 0..n {
            let initial = rng.range(1, 3);
            let max = rng.range(1, 4);
            let len = rng.range(4, if ctx.thorough { 60 } else { 36 });
            let mut steps = gen_schedule(&mut rng, initial, max, len);
            let mut tags = vec!["random".to_string(), format!("cfg:{}x{}", initial, max)];
            if rng.chance(1, 4) {
                steps.push(step_sx("P", None));
                tags.push("drop".into());
                // a few more worker steps while the acceptor is joining
                let more = gen_schedule(&mut rng, initial, max, 0);
                steps.extend(more);
            }
            tags.push(format!("len:{}", match steps.len() { 0..=9 => "0-9", 10..=19 => "10-19", 20..=39 => "20-39", _ => "40+" }));
            cases.push(Case { input: mk_case(initial, max, steps), tags });
        }
        cases
    }

    fn run(&self, _ctx: &Ctx, input: &Sx) -> Sx {
        let l = input.as_list().expect("case");
        if l[0].as_atom() == Some("pool-storm") {
            return run_storm(l[1].as_usize().unwrap(), l[2].as_usize().unwrap(), l[3].as_usize().unwrap(), l[4].as_usize().unwrap());
        }
        let initial = l[1].as_usize().unwrap();
        let max = l[2].as_usize().unwrap();
        let steps = &l[3].as_list().unwrap()[1..];
        run_schedule(initial, max, steps)
    }
}
