//! Grammar-directed random interface definitions.
//!
//! `benign`: every type constructor nested to depth <= 4, anonymous structs/enums in every position
//! except error parameters, keyword-like FIELD and VARIANT names, 0..n members, references resolved,
//! sibling names distinct, no unboxed recursion, no name the generator is known to choke on.
//! `hostile`: a benign definition with ONE feature of a known-bad (or near-miss) class injected.
use super::ast::*;
use crate::rng::Rng;

const FIELD_NAMES: &[&str] = &[
    "a", "b", "c", "value", "name", "type", "match", "struct", "async", "await", "fn", "mod", "ref", "in", "loop", "move", "dyn", "try",
    "box", "enum", "impl", "trait", "use", "where", "while", "yield", "let", "mut", "pub", "static", "const", "unsafe", "extern", "as",
    "if", "else", "for", "break", "continue", "return", "true", "false", "abstract", "final", "override", "virtual", "macro", "typeof",
    "priv", "do", "become", "unsized", "gen", "union", "interface", "method", "error", "bool", "int", "float", "string", "object", "x_1",
    "long_name", "Upper", "camelCase", "call", "args", "req", "connection", "inner", "e", "v", "f", "es", "m", "n0", "reply", "new",
    "varlink", "serde_json", "Some", "Option",
];
const TYPE_NAMES: &[&str] = &["T", "Rec", "Item", "Tree", "State", "Kind", "Config", "Point", "Node", "Entry", "Type", "Method", "Interface", "Bool", "Int", "Float", "Object", "Into", "Clone", "Some", "None", "Ok", "Err", "Value", "Reply", "Args", "Request", "X1", "A", "B2c"];
const METHOD_NAMES: &[&str] = &["Ping", "GetInfo", "Foo", "Bar", "Set2", "ListAll", "X", "GetID", "HTTPGet", "Monitor", "Put", "Union", "Auto", "Default", "New", "Reply", "TestMore", "StopServing", "Start01", "End", "ID", "SetTTL", "HTTPServer2", "XY", "A1B2", "ReadEOF", "AB", "GetURLs"];
const ERROR_NAMES: &[&str] = &["Bad", "NotFound", "Failed", "ErrorFoo", "InterfaceNotFound", "MethodNotImplemented", "Busy", "E", "TestMoreError", "Oops", "Timeout2", "BadIO", "EOF", "E2BIG", "NoID"];

pub struct GenOpts {
    pub max_depth: usize,
    pub anon_in_errors: bool,
}

fn pick_distinct(rng: &mut Rng, pool: &[&str], n: usize) -> Vec<String> {
    let mut out: Vec<String> = Vec::new();
    let mut guard = 0;
    while out.len() < n && guard < 200 {
        guard += 1;
        let c = rng.pick(pool).to_string();
        if !out.contains(&c) {
            out.push(c);
        }
    }
    out
}

/// `unboxed`: typedef names that may be referenced here; `boxed`: those allowed below an array/map
fn gen_ty(rng: &mut Rng, depth: usize, unboxed: &[String], boxed: &[String], allow_opt: bool, anon: bool) -> Ty {
    let base = |rng: &mut Rng| match rng.below(5) {
        0 => Ty::Bool,
        1 => Ty::Int,
        2 => Ty::Float,
        3 => Ty::Str,
        _ => Ty::Object,
    };
    let k = rng.below(100);
    if depth == 0 {
        return if k < 20 && !unboxed.is_empty() {
            Ty::Ref(rng.pick(unboxed).clone())
        } else if k < 30 && anon {
            { let n = rng.below(4); Ty::Enum(pick_distinct(rng, FIELD_NAMES, n)) }
        } else if k < 34 && anon {
            Ty::Struct(vec![])
        } else {
            base(rng)
        };
    }
    match k {
        0..=34 => base(rng),
        35..=49 if !unboxed.is_empty() => Ty::Ref(rng.pick(unboxed).clone()),
        50..=59 if anon => { let n = rng.below(4); Ty::Struct(gen_fields(rng, depth - 1, unboxed, boxed, n, anon)) }
        60..=66 if anon => {
            // `()` is the empty STRUCT in the grammar: an anonymous enum has >= 1 variant
            let n = rng.range(1, 4);
            Ty::Enum(pick_distinct(rng, FIELD_NAMES, n))
        }
        67..=75 => Ty::Arr(Box::new(gen_ty(rng, depth - 1, boxed, boxed, true, anon))),
        76..=83 => Ty::Map(Box::new(gen_ty(rng, depth - 1, boxed, boxed, true, anon))),
        84..=87 => Ty::Map(Box::new(Ty::Struct(vec![]))),
        88..=99 if allow_opt => Ty::Opt(Box::new(gen_ty(rng, depth - 1, unboxed, boxed, false, anon))),
        _ => base(rng),
    }
}

fn gen_fields(rng: &mut Rng, depth: usize, unboxed: &[String], boxed: &[String], n: usize, anon: bool) -> Fields {
    pick_distinct(rng, FIELD_NAMES, n).into_iter().map(|f| {
        let t = gen_ty(rng, depth, unboxed, boxed, true, anon);
        (f, t)
    }).collect()
}

fn has_dup_items(idl: &Idl) -> bool {
    let mut names: Vec<String> = emitted_types(idl).into_iter().map(|e| e.rust).collect();
    names.extend(idl.methods.iter().map(|m| format!("Call_{}", m.name)));
    let n = names.len();
    names.sort();
    names.dedup();
    names.len() != n
}

fn sort_members(idl: &mut Idl) {
    idl.types.sort_by(|a, b| a.name.as_bytes().cmp(b.name.as_bytes()));
    idl.methods.sort_by(|a, b| a.name.as_bytes().cmp(b.name.as_bytes()));
    idl.errors.sort_by(|a, b| a.name.as_bytes().cmp(b.name.as_bytes()));
}

/// An interface name drawn from the whole grammar rule `interface_name` of varlink_grammar.rs, mirrored exactly:
///   first label   [A-Za-z] ( '-'* [A-Za-z0-9] )*
///   1.. more      '.' [A-Za-z0-9] ( '-'* [A-Za-z0-9] )*
/// (later labels may start with a digit or be a single digit; hyphens only inside a label, also doubled; upper case anywhere).
pub fn gen_iface_name(rng: &mut Rng) -> String {
    const LETTERS: &[u8] = b"abcdefghijklmnopqrstuvwxyzABCDEFGHIJKLMNOPQRSTUVWXYZ";
    const ALNUM: &[u8] = b"abcdefghijklmnopqrstuvwxyzABCDEFGHIJKLMNOPQRSTUVWXYZ0123456789";
    fn tail(rng: &mut Rng, s: &mut String) {
        let groups = *rng.pick(&[0usize, 0, 1, 2, 3, 6]);
        for _ in 0..groups {
            for _ in 0..*rng.pick(&[0usize, 0, 0, 1, 1, 2]) {
                s.push('-');
            }
            s.push(*rng.pick(ALNUM) as char);
        }
    }
    let mut s = String::new();
    s.push(*rng.pick(LETTERS) as char);
    tail(rng, &mut s);
    let labels = *rng.pick(&[1usize, 1, 2, 2, 3, 5]);
    for _ in 0..labels {
        s.push('.');
        // bias towards the corner the first label does not have: a leading digit
        if rng.chance(1, 2) {
            s.push(*rng.pick(b"0123456789") as char);
        } else {
            s.push(*rng.pick(ALNUM) as char);
        }
        tail(rng, &mut s);
    }
    s
}

pub fn benign(rng: &mut Rng, k: usize, opts: &GenOpts) -> Idl {
    let iface = if k % 2 == 1 { gen_iface_name(rng) } else { format!("org.example.g{}", k) };
    loop {
        let nt = *rng.pick(&[0usize, 1, 2, 2, 3, 4]);
        let nm = *rng.pick(&[0usize, 1, 1, 2, 3, 4]);
        let ne = *rng.pick(&[0usize, 0, 1, 2, 3]);
        let (nt, nm) = if nt + nm + ne == 0 { (1, 1) } else { (nt, nm) };
        let tnames = pick_distinct(rng, TYPE_NAMES, nt);
        let mut mnames = pick_distinct(rng, METHOD_NAMES, nm);
        // `GetID` is fine alone; never together with a snake-case twin (none in the pool)
        mnames.retain(|m| !tnames.contains(m));
        let mut enames = pick_distinct(rng, ERROR_NAMES, ne);
        enames.retain(|e| !tnames.contains(e) && !mnames.contains(e));
        let depth = rng.range(1, opts.max_depth);
        let mut types = Vec::new();
        for (i, n) in tnames.iter().enumerate() {
            let earlier: Vec<String> = tnames[..i].to_vec();
            let def = if rng.chance(1, 4) {
                { let n = rng.below(5); Ty::Enum(pick_distinct(rng, FIELD_NAMES, n)) }
            } else {
                { let n = rng.below(5); Ty::Struct(gen_fields(rng, depth, &earlier, &tnames, n, true)) }
            };
            types.push(Typedef { name: n.clone(), def });
        }
        let methods = mnames
            .iter()
            .map(|n| Method {
                name: n.clone(),
                input: { let n = rng.below(4); gen_fields(rng, depth, &tnames, &tnames, n, true) },
                output: { let n = rng.below(4); gen_fields(rng, depth, &tnames, &tnames, n, true) },
            })
            .collect();
        let errors = enames
            .iter()
            .map(|n| ErrorDef { name: n.clone(), parm: { let n = rng.below(3); gen_fields(rng, depth.min(2), &tnames, &tnames, n, opts.anon_in_errors) } })
            .collect();
        let mut idl = Idl { name: iface.clone(), types, methods, errors };
        sort_members(&mut idl);
        if !has_dup_items(&idl) {
            return idl;
        }
    }
}

/// classes of injected features; the `ok:` ones are near misses that must still compile
pub const HOSTILE: &[&str] = &[
    "raw-ident-field", "raw-ident-variant", "raw-ident-type", "kw-method", "kw-method-upper", "error-self", "snake-dup", "snake-call-upgraded",
    "err-snake-dup", "err-anon-struct", "err-anon-enum", "err-anon-nested", "reserved-type", "path-dup", "path-call", "call-args", "opt-cycle",
    "opt-cycle-mutual", "opt-cycle-anon", "err-fn-shadow", "err-invalid-parameter", "param-shadow", "param-variant", "ok:weak-kw-method", "ok:prelude-type", "ok:arr-cycle",
    "ok:map-cycle", "ok:optarr-cycle", "ok:err-set", "ok:field-call", "ok:err-interface-not-found", "ok:err-invalid-parameter-noinputs",
    "ok:method-call", "ok:type-call",
];

fn ensure_method(idl: &mut Idl) {
    if idl.methods.is_empty() {
        idl.methods.push(Method { name: "Foo".into(), input: vec![], output: vec![] });
    }
}

pub fn hostile(rng: &mut Rng, k: usize, class: &str) -> Idl {
    let idl = benign(rng, k, &GenOpts { max_depth: 2, anon_in_errors: false });
    inject(rng, idl, class)
}

/// two classes in one definition (validates the order in which the model reports failing phases)
pub fn hostile2(rng: &mut Rng, k: usize, a: &str, b: &str) -> Idl {
    let idl = benign(rng, k, &GenOpts { max_depth: 1, anon_in_errors: false });
    let idl = inject(rng, idl, a);
    inject(rng, idl, b)
}

pub fn inject(rng: &mut Rng, mut idl: Idl, class: &str) -> Idl {
    let bad4 = ["self", "Self", "super", "crate"];
    let kws = ["type", "match", "struct", "async", "await", "fn", "mod", "ref", "in", "loop", "move", "dyn", "try", "box", "enum", "impl", "trait", "use", "where", "while", "yield", "let", "mut", "pub", "static", "const", "unsafe", "extern", "as", "if", "else", "for", "break", "continue", "return", "true", "false", "abstract", "final", "override", "virtual", "macro", "typeof", "priv", "do", "become", "unsized", "self", "super", "crate"];
    let cap = |s: &str| {
        let mut c = s.chars();
        let f = c.next().unwrap().to_ascii_uppercase();
        format!("{}{}", f, c.as_str())
    };
    let fresh_t = |idl: &Idl, base: &str| {
        let mut n = base.to_string();
        while idl.typedef(&n).is_some() || idl.method(&n).is_some() || idl.error(&n).is_some() {
            n.push('9');
        }
        n
    };
    match class {
        "raw-ident-field" => {
            let n = rng.pick(&bad4).to_string();
            match rng.below(4) {
                0 => {
                    ensure_method(&mut idl);
                    idl.methods[0].input.push((n, Ty::Int))
                }
                1 => {
                    ensure_method(&mut idl);
                    idl.methods[0].output.push((n, Ty::Str))
                }
                2 => idl.errors.push(ErrorDef { name: fresh_t(&idl, "Zerr"), parm: vec![(n, Ty::Bool)] }),
                _ => idl.types.push(Typedef { name: fresh_t(&idl, "Ztype"), def: Ty::Struct(vec![(n, Ty::Int)]) }),
            }
        }
        "raw-ident-variant" => {
            let n = rng.pick(&bad4).to_string();
            idl.types.push(Typedef { name: fresh_t(&idl, "Zenum"), def: Ty::Enum(vec!["a".into(), n]) });
        }
        "raw-ident-type" => idl.types.push(Typedef { name: "Self".into(), def: Ty::Struct(vec![("a".into(), Ty::Int)]) }),
        "kw-method" => {
            let n = cap(*rng.pick(&kws[..]));
            if idl.typedef(&n).is_none() && idl.error(&n).is_none() && idl.method(&n).is_none() {
                idl.methods.push(Method { name: n, input: vec![], output: vec![] })
            } else {
                idl.methods.push(Method { name: "Loop".into(), input: vec![], output: vec![] })
            }
        }
        "kw-method-upper" => idl.methods.push(Method { name: rng.pick(&["TYPE", "IF", "FOr", "DO"]).to_string(), input: vec![("a".into(), Ty::Int)], output: vec![] }),
        "error-self" => idl.errors.push(ErrorDef { name: "Self".into(), parm: vec![] }),
        "snake-dup" => {
            let (a, b) = *rng.pick(&[("GetUID", "GetUid"), ("FooBAR", "FooBar"), ("ABc", "ABC"), ("Zed1", "ZED1")]);
            idl.methods.push(Method { name: a.into(), input: vec![], output: vec![] });
            idl.methods.push(Method { name: b.into(), input: vec![("x".into(), Ty::Int)], output: vec![] });
        }
        "snake-call-upgraded" => idl.methods.push(Method { name: "CallUpgraded".into(), input: vec![], output: vec![] }),
        "err-snake-dup" => {
            idl.errors.push(ErrorDef { name: "ZedFailed".into(), parm: vec![] });
            idl.errors.push(ErrorDef { name: "ZedFAILED".into(), parm: vec![] });
        }
        "err-anon-struct" => idl.errors.push(ErrorDef { name: fresh_t(&idl, "Zerr"), parm: vec![("detail".into(), Ty::Struct(vec![("code".into(), Ty::Int)]))] }),
        "err-anon-enum" => idl.errors.push(ErrorDef { name: fresh_t(&idl, "Zerr"), parm: vec![("reason".into(), Ty::Enum(vec!["a".into(), "b".into()]))] }),
        "err-anon-nested" => {
            let inner = match rng.below(4) {
                0 => Ty::Opt(Box::new(Ty::Struct(vec![]))),
                1 => Ty::Arr(Box::new(Ty::Enum(vec!["x".into()]))),
                2 => Ty::Map(Box::new(Ty::Struct(vec![("a".into(), Ty::Int)]))),
                _ => Ty::Arr(Box::new(Ty::Opt(Box::new(Ty::Struct(vec![("b".into(), Ty::Bool)]))))),
            };
            idl.errors.push(ErrorDef { name: fresh_t(&idl, "Zerr"), parm: vec![("x".into(), inner)] })
        }
        "reserved-type" => {
            let n = rng.pick(&["Arc", "Box", "BufRead", "CallTrait", "Error", "ErrorKind", "From", "Option", "Result", "RwLock", "Send", "Sync", "VarlinkCallError", "VarlinkClient", "VarlinkClientInterface", "VarlinkInterface", "VarlinkInterfaceProxy", "Vec", "String"]).to_string();
            if idl.typedef(&n).is_none() && idl.method(&n).is_none() && idl.error(&n).is_none() {
                let def = if rng.chance(1, 3) { Ty::Enum(vec!["a".into()]) } else { Ty::Struct(vec![("a".into(), Ty::Int)]) };
                idl.types.push(Typedef { name: n, def });
            } else {
                idl.types.push(Typedef { name: "Vec".into(), def: Ty::Struct(vec![]) });
            }
        }
        "path-dup" => {
            let fs = vec![("a_b".to_string(), Ty::Struct(vec![("x".into(), Ty::Int)])), ("a".to_string(), Ty::Struct(vec![("b".into(), Ty::Enum(vec!["p".into()]))]))];
            match rng.below(3) {
                0 => idl.types.push(Typedef { name: fresh_t(&idl, "Zpath"), def: Ty::Struct(fs) }),
                1 => idl.methods.push(Method { name: fresh_t(&idl, "Zpath"), input: fs, output: vec![] }),
                _ => idl.methods.push(Method { name: fresh_t(&idl, "Zpath"), input: vec![], output: fs }),
            }
        }
        "path-call" => {
            ensure_method(&mut idl);
            let m = idl.methods[0].name.clone();
            idl.types.retain(|t| t.name != "Call");
            idl.types.push(Typedef { name: "Call".into(), def: Ty::Struct(vec![(m, Ty::Enum(vec!["a".into()]))]) });
        }
        "call-args" => {
            idl.types.retain(|t| t.name != "Call" && t.name != "Args" && t.name != "Reply");
            idl.methods.retain(|t| t.name != "Call" && t.name != "Args" && t.name != "Reply");
            idl.errors.retain(|t| t.name != "Call");
            match rng.below(3) {
                0 => {
                    idl.methods.push(Method { name: "Call".into(), input: vec![], output: vec![] });
                    idl.methods.push(Method { name: "Args".into(), input: vec![], output: vec![] });
                }
                1 => {
                    idl.methods.push(Method { name: "Call".into(), input: vec![], output: vec![] });
                    idl.methods.push(Method { name: "Reply".into(), input: vec![], output: vec![] });
                }
                _ => {
                    idl.errors.push(ErrorDef { name: "Call".into(), parm: vec![] });
                    idl.methods.push(Method { name: "Args".into(), input: vec![], output: vec![] });
                }
            }
        }
        "opt-cycle" => {
            let n = fresh_t(&idl, "Zlist");
            idl.types.push(Typedef { name: n.clone(), def: Ty::Struct(vec![("head".into(), Ty::Int), ("next".into(), Ty::Opt(Box::new(Ty::Ref(n))))]) });
        }
        "opt-cycle-mutual" => {
            let a = fresh_t(&idl, "Zeven");
            let b = fresh_t(&idl, "Zodd");
            idl.types.push(Typedef { name: a.clone(), def: Ty::Struct(vec![("o".into(), Ty::Opt(Box::new(Ty::Ref(b.clone()))))]) });
            idl.types.push(Typedef { name: b, def: Ty::Struct(vec![("e".into(), Ty::Opt(Box::new(Ty::Ref(a))))]) });
        }
        "opt-cycle-anon" => {
            let n = fresh_t(&idl, "Zanon");
            idl.types.push(Typedef { name: n.clone(), def: Ty::Struct(vec![("inner".into(), Ty::Struct(vec![("back".into(), Ty::Opt(Box::new(Ty::Ref(n))))]))]) });
        }
        "err-fn-shadow" => {
            let n = rng.pick(&["Struct", "MethodNotFound", "STRUCT"]).to_string();
            idl.errors.push(ErrorDef { name: n, parm: vec![] });
        }
        "err-invalid-parameter" => {
            idl.errors.push(ErrorDef { name: "InvalidParameter".into(), parm: vec![("parameter".into(), Ty::Str)] });
            idl.methods.push(Method { name: fresh_t(&idl, "Zin"), input: vec![("a".into(), Ty::Int)], output: vec![] });
        }
        "param-shadow" => {
            let n = rng.pick(&["Some", "None", "Ok", "Err", "Error"]).to_string();
            match rng.below(3) {
                0 => idl.methods.push(Method { name: fresh_t(&idl, "Zps"), input: vec![(n, Ty::Int)], output: vec![] }),
                1 => idl.methods.push(Method { name: fresh_t(&idl, "Zps"), input: vec![], output: vec![(n, Ty::Str)] }),
                _ => idl.errors.push(ErrorDef { name: fresh_t(&idl, "Zpe"), parm: vec![(n, Ty::Bool)] }),
            }
        }
        "param-variant" => {
            let tn = fresh_t(&idl, "Zenum");
            idl.types.push(Typedef { name: tn.clone(), def: Ty::Enum(vec!["on".into(), "off".into()]) });
            let t = if rng.chance(1, 2) { Ty::Ref(tn) } else { Ty::Enum(vec!["on".into(), "x".into()]) };
            match rng.below(3) {
                0 => idl.methods.push(Method { name: fresh_t(&idl, "Zpv"), input: vec![("on".into(), t)], output: vec![] }),
                1 => idl.methods.push(Method { name: fresh_t(&idl, "Zpv"), input: vec![], output: vec![("on".into(), t)] }),
                _ => idl.errors.push(ErrorDef { name: fresh_t(&idl, "Zpe"), parm: vec![("on".into(), if matches!(t, Ty::Ref(_)) { t } else { Ty::Bool }), ("off".into(), Ty::Int)] }),
            }
        }
        "ok:weak-kw-method" => {
            let n = rng.pick(&["Union", "Auto", "Default", "Raw", "Safe", "Gen"]).to_string();
            if idl.method(&n).is_none() && idl.typedef(&n).is_none() {
                idl.methods.push(Method { name: n, input: vec![], output: vec![] });
            }
        }
        "ok:prelude-type" => {
            let n = rng.pick(&["Into", "Clone", "Some", "None", "Ok", "Err", "Default", "Iterator", "ToString", "Copy", "Drop", "Fn", "Serialize", "Deserialize", "Debug", "PartialEq", "T", "Value", "Call", "Reply", "Connection", "MethodCall", "StdError", "Formatter", "HashMap"]).to_string();
            if idl.typedef(&n).is_none() && idl.method(&n).is_none() && idl.error(&n).is_none() {
                idl.types.push(Typedef { name: n, def: Ty::Struct(vec![("a".into(), Ty::Int)]) });
            }
        }
        "ok:arr-cycle" | "ok:map-cycle" | "ok:optarr-cycle" => {
            let n = fresh_t(&idl, "Ztree");
            let r = Box::new(Ty::Ref(n.clone()));
            let t = match class {
                "ok:arr-cycle" => Ty::Arr(r),
                "ok:map-cycle" => Ty::Map(r),
                _ => Ty::Opt(Box::new(Ty::Arr(r))),
            };
            idl.types.push(Typedef { name: n, def: Ty::Struct(vec![("v".into(), Ty::Int), ("kids".into(), t)]) });
        }
        "ok:err-set" => idl.errors.push(ErrorDef { name: fresh_t(&idl, "Zerr"), parm: vec![("s".into(), Ty::Map(Box::new(Ty::Struct(vec![]))))] }),
        "ok:field-call" => idl.methods.push(Method { name: fresh_t(&idl, "Zcall"), input: vec![("call".into(), Ty::Int), ("args".into(), Ty::Str)], output: vec![("call".into(), Ty::Int)] }),
        "ok:err-interface-not-found" => {
            if idl.error("InterfaceNotFound").is_none() {
                idl.errors.push(ErrorDef { name: "InterfaceNotFound".into(), parm: vec![] })
            }
        }
        "ok:err-invalid-parameter-noinputs" => {
            idl.errors.push(ErrorDef { name: "InvalidParameter".into(), parm: vec![] });
            for m in idl.methods.iter_mut() {
                m.input.clear();
            }
        }
        "ok:method-call" => {
            idl.types.retain(|t| t.name != "Call" && t.name != "Args" && t.name != "Reply");
            idl.methods.retain(|t| t.name != "Call" && t.name != "Args" && t.name != "Reply");
            idl.errors.retain(|t| t.name != "Call");
            idl.methods.push(Method { name: "Call".into(), input: vec![("a".into(), Ty::Int)], output: vec![("b".into(), Ty::Int)] });
        }
        "ok:type-call" => {
            ensure_method(&mut idl);
            let m = idl.methods[0].name.clone();
            idl.types.retain(|t| t.name != "Call");
            idl.methods.retain(|t| t.name != "Call");
            idl.errors.retain(|t| t.name != "Call");
            idl.types.push(Typedef { name: "Call".into(), def: Ty::Struct(vec![(m, Ty::Int)]) });
        }
        _ => {}
    }
    sort_members(&mut idl);
    idl
}

/// texts the parser should reject (mutations of a valid text); the real parser decides
pub fn mutate_text(rng: &mut Rng, text: &str) -> (String, &'static str) {
    let chars: Vec<char> = text.chars().collect();
    match rng.below(18) {
        15 | 16 | 17 => {
            // one character at either end that Unicode calls white space but the grammar does not (VT, FF, NEL), or that
            // neither does (ZWSP), or that only the grammar does (BOM, NBSP, U+180E: such texts stay accepted)
            let c = *rng.pick(&['\u{b}', '\u{c}', '\u{85}', '\u{200b}', '\u{b}', '\u{85}', '\u{feff}', '\u{a0}', '\u{180e}', '\u{1c}']);
            match rng.below(3) {
                0 => (format!("{}{}", c, text), "edge-whitespace"),
                1 => (format!("{}{}", text, c), "edge-whitespace"),
                _ => (format!("{}{}\n", text, c), "edge-whitespace"),
            }
        }
        0 => (String::new(), "empty"),
        1 => (text.replacen("interface ", "interfac ", 1), "bad-keyword"),
        2 => {
            // drop one parenthesis
            let ps: Vec<usize> = chars.iter().enumerate().filter(|(_, c)| **c == '(' || **c == ')').map(|(i, _)| i).collect();
            if ps.is_empty() {
                (format!("{}(", text), "paren")
            } else {
                let p = *rng.pick(&ps);
                (chars.iter().enumerate().filter(|(i, _)| *i != p).map(|(_, c)| *c).collect(), "paren")
            }
        }
        3 => (text.replacen("method ", "method lower", 1).replacen("type ", "type lower", 1).replacen("error ", "error lower", 1), "lowercase-name"),
        4 => {
            // duplicate the last member
            let idx = text.rfind("\n\n").unwrap_or(0);
            (format!("{}{}", text, &text[idx..]), "duplicate-member")
        }
        5 => {
            // something the rule `interface_name` does not admit: `_`, a label ending or starting with `-`, an empty label,
            // a single label, a first label starting with a digit
            let bad = *rng.pick(&["a_b.c", "a-.b", "a.-b", "a..b", "single", "1a.b", "a.b.", ".a.b", "a.b-"]);
            match text.find("interface ") {
                Some(p) => {
                    let rest = &text[p + 10..];
                    let end = rest.find(|c: char| c.is_whitespace() || c == '#').unwrap_or(rest.len());
                    (format!("{}interface {}{}", &text[..p], bad, &rest[end..]), "bad-interface-name")
                }
                None => (format!("interface {}\n{}", bad, text), "bad-interface-name"),
            }
        }
        6 => (format!("{}\nmethod Zz(a: ??int) -> ()\n", text), "double-option"),
        7 => (format!("{}\nmethod Zz(a: int b: int) -> ()\n", text), "missing-comma"),
        8 => (format!("{}\nmethod Zz(a: int) - > ()\n", text), "bad-arrow"),
        9 => (format!("{}\ntype Zz (_a: int)\n", text), "underscore-field"),
        10 => (text.lines().filter(|l| !l.starts_with("interface ")).collect::<Vec<_>>().join("\n"), "no-interface-line"),
        11 => (format!("{}\nmethod Zz(a: [int]string) -> ()\n", text), "bad-dict"),
        12 => {
            // an interface without members, the text ending in a newline: the parse error is at the very end
            let name_line = text.lines().find(|l| l.trim_start().starts_with("interface ")).unwrap_or("interface org.example.x");
            (format!("{}\n", name_line.trim_end()), "no-members-newline")
        }
        13 => (format!("{}\nmethod Zz(a: int,\n", text.trim_end()), "truncated-after-newline"),
        _ => {
            // cut right after a newline somewhere in the text, then an unfinished member ending in a newline
            let nl: Vec<usize> = text.char_indices().filter(|(_, c)| *c == '\n').map(|(i, _)| i).collect();
            let cut = if nl.is_empty() { text.len() } else { nl[rng.below(nl.len())] + 1 };
            (format!("{}type Zz (\n", &text[..cut]), "truncated-after-newline")
        }
    }
}
