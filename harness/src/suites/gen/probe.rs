//! Source text of one probe binary (`work/genprobe/src/bin/p<hash>.rs`): the generated module,
//! `probe(type, json)`, a recording implementation of the generated server trait and the compiled-in
//! call cases (typed argument / reply values as Rust constructor expressions).
use super::ast::*;
use super::val::*;
use crate::sx::Sx;

#[derive(Clone, Debug)]
pub enum Action {
    /// reply(values) with `continues` set or not
    Reply(bool, Val),
    /// reply_<error>(values)
    Error(String, Val),
}

#[derive(Clone, Debug)]
pub struct CallCase {
    pub method: String,
    pub mode: String, // call | more | oneway
    pub args: Val,    // Rec over the input fields
    pub script: Vec<Action>,
}

pub fn action_sx(a: &Action) -> Sx {
    use crate::sx;
    match a {
        Action::Reply(c, v) => sx::tagged("reply", vec![sx::boolean(*c), val_sx(v)]),
        Action::Error(e, v) => sx::tagged("error", vec![sx::xs(e), val_sx(v)]),
    }
}
pub fn sx_action(s: &Sx) -> Option<Action> {
    let l = s.as_list()?;
    match l.first()?.as_atom()? {
        "reply" => Some(Action::Reply(l.get(1)?.as_atom()? == "t", sx_val(l.get(2)?)?)),
        "error" => Some(Action::Error(l.get(1)?.as_str()?, sx_val(l.get(2)?)?)),
        _ => None,
    }
}

fn field_val<'a>(v: &'a Val, f: &str) -> Val {
    match v {
        Val::Rec(l) => l.iter().find(|(k, _)| k == f).map(|(_, x)| x.clone()).unwrap_or(Val::None_),
        _ => Val::None_,
    }
}

fn args_list(idl: &Idl, fs: &Fields, prefix: &str, v: &Val) -> Vec<String> {
    fs.iter().map(|(f, t)| rust_expr(idl, t, &format!("{}_{}", prefix, f), &field_val(v, f))).collect()
}

fn struct_expr(idl: &Idl, fs: &Fields, name: &str, v: &Val) -> String {
    rust_expr(idl, &Ty::Struct(fs.clone()), name, v)
}

fn action_code(idl: &Idl, m: &Method, a: &Action) -> String {
    match a {
        Action::Reply(cont, v) => {
            let mut args = vec!["call".to_string()];
            args.extend(args_list(idl, &m.output, &format!("{}_Reply", m.name), v));
            format!("varlink::CallTrait::set_continues(call, {}); g::Call_{}::reply({})?;", cont, m.name, args.join(", "))
        }
        Action::Error(e, v) => {
            let ed = idl.error(e);
            let mut args = vec!["call".to_string()];
            if let Some(ed) = ed {
                args.extend(args_list(idl, &ed.parm, &format!("{}_Args", e), v));
            }
            format!("varlink::CallTrait::set_continues(call, false); g::VarlinkCallError::reply_{}({})?;", to_snake_case(e), args.join(", "))
        }
    }
}

fn expected_outcome(idl: &Idl, m: &Method, a: &Action) -> String {
    match a {
        Action::Reply(_, v) => format!("Some({}), None", struct_expr(idl, &m.output, &format!("{}_Reply", m.name), v)),
        Action::Error(e, v) => match idl.error(e) {
            Some(ed) if !ed.parm.is_empty() => format!("None, Some(g::ErrorKind::{}(Some({})))", e, struct_expr(idl, &ed.parm, &format!("{}_Args", e), v)),
            _ => format!("None, Some(g::ErrorKind::{}(None))", e),
        },
    }
}

pub fn bin_source(idl: &Idl, stem: &str, cases: &[(usize, CallCase)]) -> String {
    let mut s = iface_body(idl, stem, cases);
    s.push_str(
        "fn service() -> varlink::VarlinkService {\n    varlink::VarlinkService::new(\"org.verif\", \"genprobe\", \"1\", \"http://localhost\", vec![proxy()])\n}\n\n\
         fn main() {\n    genprobe::serve(genprobe::Handlers { description, probe, call: call_case, service, session: vec![call_case] });\n}\n",
    );
    s
}

/// One session binary: 1-3 generated interfaces (a module each, with its own recorder and compiled-in call cases)
/// registered in ONE VarlinkService; the steps of a session arrive at run time (`(session …)` command).
pub fn session_source(ifaces: &[(Idl, String, Vec<(usize, CallCase)>)]) -> String {
    let mut s = String::from("// written by vharness (suite gen); do not edit\n#![allow(warnings)]\n");
    for (k, (idl, stem, cases)) in ifaces.iter().enumerate() {
        s.push_str(&format!("pub mod i{} {{\n{}\n}}\n\n", k, iface_body(idl, stem, cases)));
    }
    let n = ifaces.len();
    s.push_str(&format!(
        "fn service() -> varlink::VarlinkService {{\n    varlink::VarlinkService::new(\"org.verif\", \"genprobe\", \"1\", \"http://localhost\", vec![{}])\n}}\n\n",
        (0..n).map(|k| format!("i{}::proxy()", k)).collect::<Vec<_>>().join(", ")
    ));
    s.push_str(&format!(
        "fn main() {{\n    genprobe::serve(genprobe::Handlers {{ description: i0::description, probe: i0::probe, call: i0::call_case, service, session: vec![{}] }});\n}}\n",
        (0..n).map(|k| format!("i{}::call_case", k)).collect::<Vec<_>>().join(", ")
    ));
    s
}

/// everything of a probe binary that belongs to ONE generated interface (module `g`, probe, recorder, client side)
fn iface_body(idl: &Idl, stem: &str, cases: &[(usize, CallCase)]) -> String {
    let mut s = String::new();
    s.push_str("// written by vharness (suite gen); do not edit\n#![allow(warnings)]\nuse genprobe::sx::{self, Sx};\nuse std::sync::{Arc, RwLock};\n");
    s.push_str(&format!("#[allow(warnings)]\npub mod g {{ include!(concat!(env!(\"OUT_DIR\"), \"/{}.rs\")); }}\n\n", stem));
    // probe
    s.push_str("pub fn probe(ty: &str, j: serde_json::Value) -> Option<Sx> {\n    match ty {\n");
    let mut seen = std::collections::BTreeSet::new();
    for e in emitted_types(idl) {
        if seen.insert(e.rust.clone()) {
            s.push_str(&format!("        {:?} => Some(genprobe::probe::<g::{}>(j)),\n", e.rust, e.rust));
        }
    }
    s.push_str("        _ => None,\n    }\n}\n\n");
    // outcome
    s.push_str(
        "fn outcome<T: serde::Serialize + PartialEq>(r: Result<T, g::Error>, exp_ok: Option<T>, exp_err: Option<g::ErrorKind>) -> Sx {\n\
         \x20   match r {\n\
         \x20       Ok(v) => sx::tagged(\"ok\", vec![sx::boolean(exp_ok.map_or(false, |e| e == v)), match serde_json::to_value(&v) { Ok(j) => sx::json(&j), Err(_) => sx::atom(\"ser-err\") }]),\n\
         \x20       Err(e) => match e.kind() {\n\
         \x20           g::ErrorKind::Varlink_Error => sx::tagged(\"verr\", vec![sx::atom(genprobe::vkind(e.source_varlink_kind()))]),\n\
         \x20           g::ErrorKind::VarlinkReply_Error => sx::tagged(\"verr\", vec![sx::atom(\"reply-error\")]),\n\
         \x20           k => sx::tagged(\"err\", vec![sx::xs(&genprobe::variant_name(k)), sx::boolean(exp_err.as_ref() == Some(k))]),\n\
         \x20       },\n\
         \x20   }\n}\n\n",
    );
    // recording implementation
    s.push_str("struct Rec;\nimpl g::VarlinkInterface for Rec {\n");
    for m in &idl.methods {
        let mut sig = vec!["&self".to_string(), format!("call: &mut dyn g::Call_{}", m.name)];
        for (i, (f, t)) in m.input.iter().enumerate() {
            sig.push(format!("__a{}: {}", i, rust_ty(t, &format!("{}_Args_{}", m.name, f))));
        }
        s.push_str(&format!("    fn {}({}) -> varlink::Result<()> {{\n        match genprobe::current_case() {{\n", to_snake_case(&m.name), sig.join(", ")));
        for (k, c) in cases.iter().filter(|(_, c)| c.method == m.name) {
            s.push_str(&format!("            {} => {{\n", k));
            let exp = args_list(idl, &m.input, &format!("{}_Args", m.name), &c.args);
            let mut conj = vec!["true".to_string()];
            for (i, e) in exp.iter().enumerate() {
                let (f, t) = &m.input[i];
                conj.push(format!("{{ let __exp: {} = {}; __a{} == __exp }}", rust_ty(t, &format!("{}_Args_{}", m.name, f)), e, i));
            }
            s.push_str(&format!("                genprobe::push_seen_eq({});\n", conj.join(" && ")));
            for a in &c.script {
                s.push_str(&format!("                {}\n", action_code(idl, m, a)));
            }
            s.push_str("                Ok(())\n            }\n");
        }
        let lit = m.input.iter().enumerate().map(|(i, (f, _))| format!("r#{}: __a{}", f, i)).collect::<Vec<_>>().join(", ");
        s.push_str(&format!(
            "            _ => {{\n                genprobe::push_seen_json({:?}, serde_json::to_value(&g::{}_Args {{ {} }}));\n                varlink::CallTrait::reply_method_not_implemented(call, String::from({:?}))\n            }}\n",
            m.name, m.name, lit, m.name
        ));
        s.push_str("        }\n    }\n");
    }
    s.push_str("}\n\n");
    // client side of the call cases
    s.push_str("pub fn call_case(k: i64, conn: Arc<RwLock<varlink::Connection>>) -> Vec<Sx> {\n    let mut c = g::VarlinkClient::new(conn);\n    match k {\n");
    for (k, c) in cases {
        let m = match idl.method(&c.method) {
            Some(m) => m,
            None => continue,
        };
        let mut args = vec!["&mut c".to_string()];
        args.extend(args_list(idl, &m.input, &format!("{}_Args", m.name), &c.args));
        s.push_str(&format!("        {} => {{\n            let mut mc = g::VarlinkClientInterface::{}({});\n", k, to_snake_case(&m.name), args.join(", ")));
        match c.mode.as_str() {
            "oneway" => s.push_str("            match mc.oneway() { Ok(()) => vec![sx::atom(\"ok-oneway\")], Err(e) => vec![outcome::<()>(Err(e), None, None)] }\n"),
            m if m.starts_with("abandon") => {
                // take the first K replies of the stream, then drop the call (the connection stays with the dropped call)
                let take: usize = m["abandon".len()..].parse().unwrap_or(0);
                s.push_str("            let mut outs = Vec::new();\n            let mut idx = 0usize;\n            match mc.more() {\n                Err(e) => outs.push(outcome::<g::");
                s.push_str(&format!("{}_Reply>(Err(e), None, None)),\n                Ok(it) => {{\n                    for r in it.take({}) {{\n                        outs.push(match idx {{\n", m_name(c, idl), take));
                if let Some(md) = idl.method(&c.method) {
                    for (i, a) in c.script.iter().enumerate() {
                        s.push_str(&format!("                            {} => outcome(r, {}),\n", i, expected_outcome(idl, md, a)));
                    }
                }
                s.push_str("                            _ => outcome(r, None, None),\n                        });\n                        idx += 1;\n                    }\n                }\n            }\n            drop(mc);\n            outs\n");
            }
            "more" => {
                s.push_str("            let mut outs = Vec::new();\n            let mut idx = 0usize;\n            match mc.more() {\n                Err(e) => outs.push(outcome::<g::");
                s.push_str(&format!("{}_Reply>(Err(e), None, None)),\n                Ok(it) => {{\n                    for r in it {{\n                        outs.push(match idx {{\n", m.name));
                for (i, a) in c.script.iter().enumerate() {
                    s.push_str(&format!("                            {} => outcome(r, {}),\n", i, expected_outcome(idl, m, a)));
                }
                // (after a failed read the library's iterator never ends: `continues` stays set; do not follow it for ever)
                s.push_str(&format!("                            _ => outcome(r, None, None),\n                        }});\n                        idx += 1;\n                        if idx > {} {{ break; }}\n                    }}\n                }}\n            }}\n            outs\n", c.script.len() + 2));
            }
            _ => {
                let exp = c.script.last().map(|a| expected_outcome(idl, m, a)).unwrap_or_else(|| "None, None".into());
                s.push_str(&format!("            vec![outcome(mc.call(), {})]\n", exp));
            }
        }
        s.push_str("        }\n");
    }
    s.push_str("        _ => vec![sx::atom(\"no-such-case\")],\n    }\n}\n\n");
    s.push_str(
        "pub fn proxy() -> Box<dyn varlink::Interface + Send + Sync> {\n    Box::new(g::new(Box::new(Rec)))\n}\n\n\
         pub fn description() -> &'static str {\n    varlink::Interface::get_description(&g::new(Box::new(Rec)))\n}\n\n",
    );
    s
}

fn m_name(c: &CallCase, _idl: &Idl) -> String {
    c.method.clone()
}
