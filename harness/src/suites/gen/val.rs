//! Typed values of IDL types: random generation (boundary values), line-protocol form, the Rust
//! constructor expression compiled into the probe binary (no serde involved), and a JSON rendering
//! that is only used as raw material for the `probe`/`raw` inputs (the model decides what they mean).
use super::ast::*;
use crate::rng::Rng;
use crate::sx::{self, Sx};
use serde_json::Value;

#[derive(Clone, Debug, PartialEq)]
pub enum Val {
    B(bool),
    I(i64),
    F(u64), // f64 bits
    S(String),
    J(Value), // `object`
    None_,
    Some_(Box<Val>),
    Arr(Vec<Val>),
    Map(Vec<(String, Val)>),
    Set(Vec<String>),
    Rec(Vec<(String, Val)>),
    En(String),
}

pub fn val_sx(v: &Val) -> Sx {
    match v {
        Val::B(b) => sx::tagged("b", vec![sx::boolean(*b)]),
        Val::I(i) => sx::tagged("i", vec![sx::int(*i)]),
        Val::F(b) => sx::tagged("f", vec![sx::atom(format!("{}", b))]),
        Val::S(s) => sx::tagged("s", vec![sx::xs(s)]),
        Val::J(j) => sx::tagged("j", vec![sx::json(j)]),
        Val::None_ => sx::tagged("none", vec![]),
        Val::Some_(v) => sx::tagged("some", vec![val_sx(v)]),
        Val::Arr(l) => sx::tagged("arr", l.iter().map(val_sx).collect()),
        Val::Map(l) => sx::tagged("map", l.iter().map(|(k, v)| sx::list(vec![sx::xs(k), val_sx(v)])).collect()),
        Val::Set(l) => sx::tagged("set", l.iter().map(|k| sx::xs(k)).collect()),
        Val::Rec(l) => sx::tagged("rec", l.iter().map(|(k, v)| sx::list(vec![sx::xs(k), val_sx(v)])).collect()),
        Val::En(s) => sx::tagged("en", vec![sx::xs(s)]),
    }
}

pub fn sx_val(s: &Sx) -> Option<Val> {
    let l = s.as_list()?;
    let tag = l.first()?.as_atom()?;
    Some(match tag {
        "b" => Val::B(l.get(1)?.as_atom()? == "t"),
        "i" => Val::I(l.get(1)?.as_atom()?.parse().ok()?),
        "f" => Val::F(l.get(1)?.as_atom()?.parse().ok()?),
        "s" => Val::S(l.get(1)?.as_str()?),
        "j" => Val::J(l.get(1)?.to_json()?),
        "none" => Val::None_,
        "some" => Val::Some_(Box::new(sx_val(l.get(1)?)?)),
        "arr" => Val::Arr(l[1..].iter().map(sx_val).collect::<Option<Vec<_>>>()?),
        "map" | "rec" => {
            let mut v = Vec::new();
            for kv in &l[1..] {
                let kv = kv.as_list()?;
                v.push((kv.first()?.as_str()?, sx_val(kv.get(1)?)?));
            }
            if tag == "map" {
                Val::Map(v)
            } else {
                Val::Rec(v)
            }
        }
        "set" => Val::Set(l[1..].iter().map(|x| x.as_str()).collect::<Option<Vec<_>>>()?),
        "en" => Val::En(l.get(1)?.as_str()?),
        _ => return None,
    })
}

const INTS: &[i64] = &[0, 1, -1, 42, i64::MAX, i64::MIN, 9007199254740993, -9007199254740993, 4294967296, 255];
const FLOATS: &[f64] = &[0.0, -0.0, 1.0, 1.5, -2.25, 0.1, 1e300, -1e-300, f64::MAX, f64::MIN_POSITIVE, 5e-324, 3.141592653589793, 1e21, 123456789.125, 4503599627370497.5];
const STRS: &[&str] = &["", "a", "hello world", "ü€𝄞", "quote\"back\\slash", "line\nfeed\ttab", "nul\u{0}in", "\u{7f}\u{80}\u{2028}", "type", "{}", "null"];
const KEYS: &[&str] = &["", "k", "key two", "ü", "a.b", "type", "0", "Z"];

fn gen_float(rng: &mut Rng) -> u64 {
    if rng.chance(2, 3) {
        rng.pick(FLOATS).to_bits()
    } else {
        loop {
            let b = rng.next();
            if f64::from_bits(b).is_finite() {
                return b;
            }
        }
    }
}

pub fn gen_json(rng: &mut Rng, depth: usize) -> Value {
    let k = if depth == 0 { rng.below(5) } else { rng.below(7) };
    match k {
        0 => Value::Null,
        1 => Value::Bool(rng.chance(1, 2)),
        2 => Value::from(*rng.pick(INTS)),
        3 => Value::from(*rng.pick(STRS)),
        4 => serde_json::Number::from_f64(f64::from_bits(gen_float(rng))).map(Value::Number).unwrap_or(Value::Null),
        5 => Value::Array((0..rng.below(3)).map(|_| gen_json(rng, depth - 1)).collect()),
        _ => {
            let mut m = serde_json::Map::new();
            for _ in 0..rng.below(3) {
                m.insert(rng.pick(KEYS).to_string(), gen_json(rng, depth - 1));
            }
            Value::Object(m)
        }
    }
}

fn distinct_keys(rng: &mut Rng, n: usize) -> Vec<String> {
    let mut ks: Vec<String> = Vec::new();
    for _ in 0..n {
        let k = rng.pick(KEYS).to_string();
        if !ks.contains(&k) {
            ks.push(k);
        }
    }
    ks
}

/// a random well-typed value (finite floats, `?object` never `Some(null)`); `fuel` bounds recursive types
pub fn gen_val(rng: &mut Rng, idl: &Idl, t: &Ty, fuel: usize) -> Val {
    match t {
        Ty::Bool => Val::B(rng.chance(1, 2)),
        Ty::Int => Val::I(if rng.chance(3, 4) { *rng.pick(INTS) } else { rng.next() as i64 }),
        Ty::Float => Val::F(gen_float(rng)),
        Ty::Str => Val::S(rng.pick(STRS).to_string()),
        Ty::Object => Val::J(gen_json(rng, 2)),
        Ty::Ref(n) => match idl.typedef(n) {
            Some(td) => gen_val(rng, idl, &td.def, fuel),
            None => Val::None_,
        },
        Ty::Struct(fs) => Val::Rec(fs.iter().map(|(n, t)| (n.clone(), gen_val(rng, idl, t, fuel))).collect()),
        Ty::Enum(vs) => {
            if vs.is_empty() {
                Val::En(String::new()) // uninhabited: callers avoid these
            } else {
                Val::En(rng.pick(vs).clone())
            }
        }
        Ty::Arr(i) => {
            let n = if fuel == 0 || !inhabited(idl, i, 6) { 0 } else { *rng.pick(&[0usize, 0, 1, 2, 3]) };
            Val::Arr((0..n).map(|_| gen_val(rng, idl, i, fuel - 1)).collect())
        }
        Ty::Map(i) => {
            let n = if fuel == 0 { 0 } else { *rng.pick(&[0usize, 1, 2, 3]) };
            let ks = distinct_keys(rng, n);
            if is_set(t) {
                Val::Set(ks)
            } else if !inhabited(idl, i, 6) {
                Val::Map(vec![])
            } else {
                Val::Map(ks.into_iter().map(|k| (k, gen_val(rng, idl, i, fuel - 1))).collect())
            }
        }
        Ty::Opt(i) => {
            if fuel == 0 || rng.chance(2, 5) || !inhabited(idl, i, 6) {
                Val::None_
            } else {
                let mut v = gen_val(rng, idl, i, fuel - 1);
                if let Val::J(Value::Null) = v {
                    v = Val::J(Value::from(0));
                }
                Val::Some_(Box::new(v))
            }
        }
    }
}

/// has at least one value (empty enums and structs that need one do not)
pub fn inhabited(idl: &Idl, t: &Ty, fuel: usize) -> bool {
    if fuel == 0 {
        return false;
    }
    match t {
        Ty::Ref(n) => idl.typedef(n).map(|td| inhabited(idl, &td.def, fuel - 1)).unwrap_or(false),
        Ty::Struct(fs) => fs.iter().all(|(_, t)| inhabited(idl, t, fuel - 1)),
        Ty::Enum(vs) => !vs.is_empty(),
        _ => true,
    }
}

/// Rust expression that constructs the value (generated items prefixed `g::`)
pub fn rust_expr(idl: &Idl, t: &Ty, name: &str, v: &Val) -> String {
    match (t, v) {
        (Ty::Ref(n), _) => match idl.typedef(n) {
            Some(td) => rust_expr(idl, &td.def, &td.name, v),
            None => "unresolved".into(),
        },
        (_, Val::B(b)) => format!("{}", b),
        (_, Val::I(i)) => {
            if *i == i64::MIN {
                "i64::MIN".into()
            } else {
                format!("({}i64)", i)
            }
        }
        (_, Val::F(b)) => format!("f64::from_bits({}u64)", b),
        (_, Val::S(s)) => format!("String::from({:?})", s),
        (_, Val::J(j)) => format!("genprobe::json({:?})", serde_json::to_string(j).unwrap()),
        (_, Val::None_) => "None".into(),
        (Ty::Opt(i), Val::Some_(x)) => format!("Some({})", rust_expr(idl, i, name, x)),
        (Ty::Arr(i), Val::Arr(l)) => {
            if l.is_empty() {
                "Vec::new()".into()
            } else {
                format!("vec![{}]", l.iter().map(|x| rust_expr(idl, i, name, x)).collect::<Vec<_>>().join(", "))
            }
        }
        (Ty::Map(i), Val::Map(l)) => {
            let mut s = String::from("{ let mut m = varlink::StringHashMap::new(); ");
            for (k, x) in l {
                s.push_str(&format!("m.insert(String::from({:?}), {}); ", k, rust_expr(idl, i, name, x)));
            }
            s.push_str("m }");
            s
        }
        (_, Val::Set(l)) => {
            let mut s = String::from("{ let mut m = varlink::StringHashSet::new(); ");
            for k in l {
                s.push_str(&format!("m.insert(String::from({:?})); ", k));
            }
            s.push_str("m }");
            s
        }
        (Ty::Struct(fs), Val::Rec(l)) => {
            let mut s = format!("g::{} {{ ", name);
            for (f, ft) in fs {
                let x = l.iter().find(|(k, _)| k == f).map(|(_, x)| x.clone()).unwrap_or(Val::None_);
                s.push_str(&format!("r#{}: {}, ", f, rust_expr(idl, ft, &format!("{}_{}", name, f), &x)));
            }
            s.push('}');
            s
        }
        (Ty::Enum(_), Val::En(x)) => format!("g::{}::r#{}", name, x),
        _ => "ill_typed_value".into(),
    }
}

/// JSON rendering (raw material for probe inputs only): like serde would, `top` omits `None` members
pub fn to_json(idl: &Idl, t: &Ty, v: &Val, top: bool) -> Value {
    match (t, v) {
        (Ty::Ref(n), _) => match idl.typedef(n) {
            Some(td) => to_json(idl, &td.def, v, false),
            None => Value::Null,
        },
        (_, Val::B(b)) => Value::Bool(*b),
        (_, Val::I(i)) => Value::from(*i),
        (_, Val::F(b)) => serde_json::Number::from_f64(f64::from_bits(*b)).map(Value::Number).unwrap_or(Value::Null),
        (_, Val::S(s)) => Value::String(s.clone()),
        (_, Val::J(j)) => j.clone(),
        (_, Val::None_) => Value::Null,
        (Ty::Opt(i), Val::Some_(x)) => to_json(idl, i, x, false),
        (Ty::Arr(i), Val::Arr(l)) => Value::Array(l.iter().map(|x| to_json(idl, i, x, false)).collect()),
        (Ty::Map(i), Val::Map(l)) => Value::Object(l.iter().map(|(k, x)| (k.clone(), to_json(idl, i, x, false))).collect()),
        (_, Val::Set(l)) => Value::Object(l.iter().map(|k| (k.clone(), Value::Object(serde_json::Map::new()))).collect()),
        (Ty::Struct(fs), Val::Rec(l)) => {
            let mut m = serde_json::Map::new();
            for (f, ft) in fs {
                if let Some((_, x)) = l.iter().find(|(k, _)| k == f) {
                    if top && matches!(ft, Ty::Opt(_)) && *x == Val::None_ {
                        continue;
                    }
                    m.insert(f.clone(), to_json(idl, ft, x, false));
                }
            }
            Value::Object(m)
        }
        (_, Val::En(x)) => Value::String(x.clone()),
        _ => Value::Null,
    }
}

fn junk(rng: &mut Rng) -> Value {
    match rng.below(12) {
        0 => Value::Null,
        1 => Value::Bool(true),
        2 => Value::from(7),
        3 => Value::from(-3),
        4 => Value::from(u64::MAX),
        5 => Value::from(1.5),
        6 => Value::from(1.0),
        7 => Value::from("zz"),
        8 => Value::Array(vec![]),
        9 => Value::Array(vec![Value::from(1), Value::from("x")]),
        10 => Value::Object(serde_json::Map::new()),
        _ => {
            let mut m = serde_json::Map::new();
            m.insert("x".into(), Value::Null);
            Value::Object(m)
        }
    }
}

fn count_nodes(v: &Value) -> usize {
    1 + match v {
        Value::Array(a) => a.iter().map(count_nodes).sum(),
        Value::Object(o) => o.values().map(count_nodes).sum(),
        _ => 0,
    }
}

/// apply `f` to the node with pre-order index `target`
fn at_node(v: &mut Value, target: &mut usize, f: &mut dyn FnMut(&mut Value)) -> bool {
    if *target == 0 {
        f(v);
        return true;
    }
    *target -= 1;
    match v {
        Value::Array(a) => {
            for x in a.iter_mut() {
                if at_node(x, target, f) {
                    return true;
                }
            }
            false
        }
        Value::Object(o) => {
            for (_, x) in o.iter_mut() {
                if at_node(x, target, f) {
                    return true;
                }
            }
            false
        }
        _ => false,
    }
}

/// one random near-valid mutation; returns a tag describing it
pub fn mutate_json(rng: &mut Rng, v: &mut Value) -> &'static str {
    for _ in 0..12 {
        let t = mutate_json_once(rng, v);
        if t != "mut:none" {
            return t;
        }
    }
    "mut:none"
}

fn mutate_json_once(rng: &mut Rng, v: &mut Value) -> &'static str {
    let n = count_nodes(v);
    let mut target = rng.below(n);
    let kind = rng.below(9);
    let mut tag = "mut:none";
    let mut r2 = rng.fork();
    at_node(v, &mut target, &mut |x: &mut Value| {
        tag = match (kind, &mut *x) {
            (0, _) => {
                *x = junk(&mut r2);
                "mut:replace"
            }
            (1, _) => {
                *x = Value::Null;
                "mut:null"
            }
            (2, Value::Object(o)) if !o.is_empty() => {
                let k = o.keys().nth(r2.below(o.len())).unwrap().clone();
                o.remove(&k);
                "mut:drop-member"
            }
            (3, Value::Object(o)) => {
                o.insert("zzunknown".into(), junk(&mut r2));
                "mut:extra-member"
            }
            (4, Value::Object(o)) => {
                // struct-from-array form (members in key order: only right for sorted field lists)
                let vals: Vec<Value> = o.values().cloned().collect();
                *x = Value::Array(vals);
                "mut:array-form"
            }
            (5, Value::Number(nm)) => {
                *x = if nm.is_f64() { Value::from(3) } else { Value::from(nm.as_i64().unwrap_or(0) as f64 + 0.5) };
                "mut:int-float-swap"
            }
            (5, Value::String(s)) => {
                let mut m = serde_json::Map::new();
                m.insert(s.clone(), Value::Null);
                *x = Value::Object(m);
                "mut:enum-as-object"
            }
            (6, Value::Array(a)) => {
                a.push(junk(&mut r2));
                "mut:array-push"
            }
            (6, Value::Object(o)) if !o.is_empty() => {
                let k = o.keys().nth(r2.below(o.len())).unwrap().clone();
                o.insert(k, junk(&mut r2));
                "mut:member-replace"
            }
            (7, Value::Number(_)) => {
                *x = r2.pick(&[Value::from(u64::MAX), Value::from(9223372036854775808u64), Value::from(-9.3e18), Value::from(1e19)]).clone();
                "mut:out-of-range"
            }
            (8, Value::Object(o)) if o.values().all(|e| e == &Value::Object(serde_json::Map::new())) && !o.is_empty() => {
                let k = o.keys().next().unwrap().clone();
                o.insert(k, junk(&mut r2));
                "mut:set-member"
            }
            _ => "mut:none",
        }
    });
    tag
}

/// Find a string-set position (`[string]()`, also below `[]`, `?`, maps and struct members) in `j : t` and give one of its
/// members the value `junk` (a member is added when the set is empty).  False when `t` has no reachable set position.
pub fn poison_set(idl: &Idl, t: &Ty, j: &mut Value, junk: &Value, fuel: usize) -> bool {
    if fuel == 0 {
        return false;
    }
    match t {
        Ty::Ref(n) => match idl.typedef(n) {
            Some(td) => poison_set(idl, &td.def.clone(), j, junk, fuel - 1),
            None => false,
        },
        Ty::Map(_) if is_set(t) => {
            if let Value::Object(o) = j {
                let k = o.keys().next().cloned().unwrap_or_else(|| "k".to_string());
                o.insert(k, junk.clone());
                true
            } else {
                false
            }
        }
        Ty::Map(i) => match j {
            Value::Object(o) => {
                if o.is_empty() {
                    // an entry whose value is a poisoned instance of the element type
                    let mut v = skeleton(idl, i, fuel - 1);
                    if poison_set(idl, i, &mut v, junk, fuel - 1) {
                        o.insert("k".into(), v);
                        return true;
                    }
                    return false;
                }
                o.values_mut().any(|x| poison_set(idl, i, x, junk, fuel - 1))
            }
            _ => false,
        },
        Ty::Arr(i) => match j {
            Value::Array(a) => {
                if a.is_empty() {
                    let mut v = skeleton(idl, i, fuel - 1);
                    if poison_set(idl, i, &mut v, junk, fuel - 1) {
                        a.push(v);
                        return true;
                    }
                    return false;
                }
                a.iter_mut().any(|x| poison_set(idl, i, x, junk, fuel - 1))
            }
            _ => false,
        },
        Ty::Opt(i) => {
            if j.is_null() {
                let mut v = skeleton(idl, i, fuel - 1);
                if poison_set(idl, i, &mut v, junk, fuel - 1) {
                    *j = v;
                    return true;
                }
                return false;
            }
            poison_set(idl, i, j, junk, fuel - 1)
        }
        Ty::Struct(fs) => match j {
            Value::Object(o) => {
                for (f, ft) in fs {
                    let mut cur = o.get(f).cloned().unwrap_or(Value::Null);
                    if poison_set(idl, ft, &mut cur, junk, fuel - 1) {
                        o.insert(f.clone(), cur);
                        return true;
                    }
                }
                false
            }
            _ => false,
        },
        _ => false,
    }
}

/// a minimal well-shaped JSON value of the type (raw material for `poison_set`)
fn skeleton(idl: &Idl, t: &Ty, fuel: usize) -> Value {
    if fuel == 0 {
        return Value::Null;
    }
    match t {
        Ty::Bool => Value::Bool(false),
        Ty::Int => Value::from(0),
        Ty::Float => Value::from(0.5),
        Ty::Str => Value::from(""),
        Ty::Object => Value::from(0),
        Ty::Ref(n) => idl.typedef(n).map(|td| skeleton(idl, &td.def, fuel - 1)).unwrap_or(Value::Null),
        Ty::Struct(fs) => Value::Object(fs.iter().map(|(f, ft)| (f.clone(), skeleton(idl, ft, fuel - 1))).collect()),
        Ty::Enum(vs) => vs.first().map(|v| Value::from(v.clone())).unwrap_or(Value::Null),
        Ty::Arr(_) => Value::Array(vec![]),
        Ty::Map(_) => Value::Object(serde_json::Map::new()),
        Ty::Opt(_) => Value::Null,
    }
}

/// member values a string set must refuse (`[]` and objects are what `struct Empty {}` accepts)
pub fn set_junk() -> Vec<Value> {
    vec![Value::from(1), Value::from("v"), Value::Bool(true), Value::Null, Value::from(1.5), Value::Array(vec![Value::from(1)])]
}
