//! The scratch package `<verif>/work/genprobe`: one `[[bin]]` per interface definition (cargo compiles
//! them in parallel, every rustc run sees exactly one generated module, so diagnostics need no
//! bisection), a `build.rs` that calls the REAL `varlink_generator::cargo_build_many`, the derive
//! front-end bins and the build-helper front-end tool.
use std::collections::BTreeMap;
use std::path::{Path, PathBuf};
use std::process::Command;

pub fn fnv(s: &[u8]) -> u64 {
    let mut h: u64 = 0xcbf29ce484222325;
    for b in s {
        h ^= *b as u64;
        h = h.wrapping_mul(0x100000001b3);
    }
    h
}

pub fn verif_root() -> PathBuf {
    // harness/ is <verif>/harness
    Path::new(env!("CARGO_MANIFEST_DIR")).parent().unwrap().to_path_buf()
}
pub fn work_dir() -> PathBuf {
    verif_root().join("work").join("genprobe")
}
pub fn target_dir() -> PathBuf {
    verif_root().join("work").join("target")
}

fn write_if_changed(p: &Path, content: &str) {
    if let Ok(old) = std::fs::read_to_string(p) {
        if old == content {
            return;
        }
    }
    if let Some(d) = p.parent() {
        let _ = std::fs::create_dir_all(d);
    }
    std::fs::write(p, content).expect("write scratch file");
}

pub struct BinSpec {
    pub stem: String,        // p<hash>
    pub idls: Vec<(String, String)>, // (stem, text) written to idl/<stem>.varlink (generator ran fine in-process); one per generated interface
    pub source: String,      // src/bin/<stem>.rs
}
/// one cell of the option matrix: `generate_with_options(text, GeneratorOptions { preamble, .. }, tosource)` run inside the
/// probe package's build script, the output compiled as a bin of its own (a file module when tosource: inner attributes)
pub struct OptSpec {
    pub stem: String, // o<hash>
    pub idl_text: String,
    pub tosource: bool,
    pub preamble: Option<String>,
    /// bool_type, int_type, float_type, string_type
    pub types: [Option<&'static str>; 4],
}
pub struct DeriveSpec {
    pub stem: String, // d<hash>
    pub idl_text: String,
}

#[derive(Clone, Debug, Default)]
pub struct BinResult {
    pub built: bool,
    /// (code or "", message, in generated file?, in harness-written file?)
    pub errors: Vec<(String, String, bool, bool)>,
}

const RT_LIB: &str = include_str!("../gen_rt_lib.rs");
const SX_RS: &str = include_str!("../../sx.rs");

pub fn write_package(bins: &[BinSpec], derives: &[DeriveSpec], opts: &[OptSpec]) {
    let root = work_dir();
    let _ = std::fs::create_dir_all(root.join("src/bin"));
    let _ = std::fs::create_dir_all(root.join("idl"));
    let mut toml = String::from(
        "[package]\nname = \"genprobe\"\nversion = \"0.1.0\"\nedition = \"2018\"\nbuild = \"build.rs\"\npublish = false\nautobins = false\n\n[workspace]\n\n\
         [lib]\nname = \"genprobe\"\npath = \"src/lib.rs\"\n\n\
         [dependencies]\nvarlink = { path = \"/repo/varlink\" }\nvarlink_generator = { path = \"/repo/varlink_generator\" }\nvarlink_derive = { path = \"/repo/varlink_derive\" }\n\
         serde = \"1\"\nserde_derive = \"1\"\nserde_json = \"1\"\n\n[build-dependencies]\nvarlink_generator = { path = \"/repo/varlink_generator\" }\nproc-macro2 = \"1\"\n\n\
         [profile.dev]\nopt-level = 1\ndebug = false\n\n[profile.dev.package.genprobe]\nopt-level = 0\n\n",
    );
    toml.push_str("[[bin]]\nname = \"fe_build\"\npath = \"src/bin/fe_build.rs\"\n\n");
    for b in bins {
        toml.push_str(&format!("[[bin]]\nname = \"{0}\"\npath = \"src/bin/{0}.rs\"\n\n", b.stem));
    }
    for d in derives {
        toml.push_str(&format!("[[bin]]\nname = \"{0}\"\npath = \"src/bin/{0}.rs\"\n\n", d.stem));
    }
    for o in opts {
        toml.push_str(&format!("[[bin]]\nname = \"{0}\"\npath = \"src/bin/{0}.rs\"\n\n", o.stem));
    }
    write_if_changed(&root.join("Cargo.toml"), &toml);
    write_if_changed(&root.join(".cargo/config.toml"), "[net]\noffline = true\n");
    // the lock file follows /repo's (offline resolution needs the versions the registry cache has)
    let lock_src = std::fs::read("/repo/Cargo.lock").unwrap_or_default();
    let stamp = format!("{:016x}", fnv(&lock_src));
    if !root.join("Cargo.lock").exists() || std::fs::read_to_string(root.join(".lock-stamp")).unwrap_or_default() != stamp {
        let _ = std::fs::write(root.join("Cargo.lock"), &lock_src);
        let _ = std::fs::write(root.join(".lock-stamp"), &stamp);
    }
    write_if_changed(&root.join("src/lib.rs"), RT_LIB);
    write_if_changed(&root.join("src/sx.rs"), SX_RS);
    // the build-helper front-end as a tool: OUT_DIR and the input come from the command line
    write_if_changed(
        &root.join("src/bin/fe_build.rs"),
        "// written by vharness (suite gen)\nfn main() {\n    let a: Vec<String> = std::env::args().collect();\n    std::env::set_var(\"OUT_DIR\", &a[2]);\n    \
         match a[1].as_str() {\n        \"many\" => varlink_generator::cargo_build_many(&a[3..]),\n        \"one\" => varlink_generator::cargo_build(&a[3]),\n        \
         \"tosource\" => varlink_generator::cargo_build_tosource(&a[3], false),\n        \
         \"tosource2\" => {\n            varlink_generator::cargo_build_tosource(&a[3], true);\n            varlink_generator::cargo_build_tosource(&a[4], true);\n        }\n        _ => std::process::exit(3),\n    }\n}\n",
    );
    // build.rs: the real build helper on every definition the generator handles.  `cargo_build_many` ends the process
    // on failure, so it runs in a child (this same build script re-executed): a failure of the helper on these inputs
    // (all accepted by `generate` in-process) is an OBSERVATION (helper-status.txt), not a broken probe build; the
    // files are then produced one by one so that everything else can still be observed.
    let mut b = String::from(
        "// written by vharness (suite gen)\nfn main() {\n    let args: Vec<String> = std::env::args().collect();\n    \
         if args.len() > 1 && args[1] == \"--child\" {\n        varlink_generator::cargo_build_many(&args[2..]);\n        return;\n    }\n    \
         let files: Vec<&str> = vec![\n",
    );
    for x in bins {
        for (st, _) in &x.idls {
            b.push_str(&format!("        \"idl/{}.varlink\",\n", st));
        }
    }
    b.push_str(
        "    ];\n    let exe = std::env::current_exe().unwrap();\n    \
         let run = |fs: &[&str]| std::process::Command::new(&exe).arg(\"--child\").args(fs).status().map(|s| s.success()).unwrap_or(false);\n    \
         let mut status = String::from(\"ok\");\n    \
         if !run(&files) {\n        status = String::from(\"failed\");\n        for f in &files {\n            if !run(&[*f]) {\n                status.push_str(\" \");\n                status.push_str(f);\n            }\n        }\n    }\n    \
         let dir = std::env::var(\"CARGO_MANIFEST_DIR\").unwrap();\n    \
         std::fs::write(format!(\"{}/helper-status.txt\", dir), status).unwrap();\n    \
         let _ = std::fs::create_dir_all(format!(\"{}/src/opt\", dir));\n    \
         std::panic::set_hook(Box::new(|_| {}));\n",
    );
    for o in opts {
        b.push_str(&format!(
            "    opt(&dir, {:?}, {}, {}, {:?});\n",
            o.stem,
            o.tosource,
            match &o.preamble {
                None => "None".to_string(),
                Some(p) => format!("Some({:?})", p),
            },
            o.types
        ));
    }
    b.push_str(
        "    println!(\"cargo:rerun-if-changed=build.rs\");\n}\n\n\
         // one cell of the option matrix: generate_with_options with a preamble, output and status into src/opt/\n\
         fn opt(dir: &str, stem: &str, tosource: bool, preamble: Option<&str>, types: [Option<&'static str>; 4]) {\n    \
         let text = std::fs::read(format!(\"{}/idl/{}.varlink\", dir, stem)).unwrap();\n    \
         let r = std::panic::catch_unwind(|| {\n        \
         let mut w: Vec<u8> = Vec::new();\n        \
         let options = varlink_generator::GeneratorOptions {\n            \
         preamble: preamble.map(|p| p.parse::<proc_macro2::TokenStream>().unwrap()),\n            \
         bool_type: types[0], int_type: types[1], float_type: types[2], string_type: types[3],\n            \
         ..Default::default()\n        };\n        \
         let mut rd: &[u8] = &text;\n        \
         varlink_generator::generate_with_options(&mut rd, &mut w, &options, tosource).map(|_| w)\n    });\n    \
         let (status, out) = match r {\n        Ok(Ok(w)) => (\"ok\", w),\n        Ok(Err(_)) => (\"err\", Vec::new()),\n        Err(_) => (\"panic\", Vec::new()),\n    };\n    \
         std::fs::write(format!(\"{}/src/opt/{}.rs\", dir, stem), out).unwrap();\n    \
         std::fs::write(format!(\"{}/src/opt/{}.status\", dir, stem), status).unwrap();\n    \
         println!(\"cargo:rerun-if-changed=idl/{}.varlink\", stem);\n}\n",
    );
    write_if_changed(&root.join("build.rs"), &b);
    // sources of earlier batches
    let keep: std::collections::HashSet<String> =
        bins.iter().map(|b| b.stem.clone()).chain(bins.iter().flat_map(|b| b.idls.iter().map(|x| x.0.clone()))).chain(derives.iter().map(|d| d.stem.clone())).chain(opts.iter().map(|o| o.stem.clone())).chain(std::iter::once("fe_build".to_string())).collect();
    for sub in ["src/bin", "idl", "cmds", "src/opt"] {
        if let Ok(rd) = std::fs::read_dir(root.join(sub)) {
            for e in rd.flatten() {
                let stem = e.path().file_stem().map(|s| s.to_string_lossy().to_string()).unwrap_or_default();
                if !keep.contains(&stem) {
                    let _ = std::fs::remove_file(e.path());
                }
            }
        }
    }
    for x in bins {
        for (st, text) in &x.idls {
            write_if_changed(&root.join(format!("idl/{}.varlink", st)), text);
        }
        write_if_changed(&root.join(format!("src/bin/{}.rs", x.stem)), &x.source);
    }
    for o in opts {
        write_if_changed(&root.join(format!("idl/{}.varlink", o.stem)), &o.idl_text);
        // tosource output starts with inner attributes: it is a source file of its own (`mod x;`), as the documentation of
        // cargo_build_tosource intends; the other form is included into a module like the build-helper output
        let src = if o.tosource {
            format!("// written by vharness (suite gen): option matrix\n#![allow(warnings)]\n#[path = \"../opt/{}.rs\"]\npub mod g;\nfn main() {{}}\n", o.stem)
        } else {
            format!("// written by vharness (suite gen): option matrix\n#![allow(warnings)]\npub mod g {{ include!(\"../opt/{}.rs\"); }}\nfn main() {{}}\n", o.stem)
        };
        write_if_changed(&root.join(format!("src/bin/{}.rs", o.stem)), &src);
    }
    for d in derives {
        let src = format!(
            "// written by vharness (suite gen): the proc-macro front-end\n#![allow(warnings)]\nvarlink_derive::varlink!(g, r#\"{}\"#);\nfn main() {{}}\n",
            d.idl_text
        );
        write_if_changed(&root.join(format!("src/bin/{}.rs", d.stem)), &src);
    }
}

fn cargo_env(cmd: &mut Command) {
    cmd.env("CARGO_NET_OFFLINE", "true")
        .env("CARGO_TARGET_DIR", target_dir())
        .env("RUSTFLAGS", "--cfg varlink_rust_verif -Awarnings")
        // hundreds of throw-away bins: no incremental caches (they would dominate the target dir)
        .env("CARGO_INCREMENTAL", "0")
        .env_remove("CARGO_MANIFEST_DIR")
        .env_remove("OUT_DIR");
}

/// `cargo build --bins --keep-going --message-format=json`; per bin: built or its diagnostics
pub fn cargo_build(stems: &[String]) -> Result<BTreeMap<String, BinResult>, String> {
    let root = work_dir();
    let mut cmd = Command::new("cargo");
    cmd.current_dir(&root).args(["build", "--offline", "--bins", "--keep-going", "--message-format=json"]);
    cargo_env(&mut cmd);
    let out = cmd.output().map_err(|e| format!("cargo: {}", e))?;
    let mut res: BTreeMap<String, BinResult> = stems.iter().map(|s| (s.clone(), BinResult::default())).collect();
    res.insert("fe_build".into(), BinResult::default());
    let mut lib_failed = false;
    for line in String::from_utf8_lossy(&out.stdout).lines() {
        let m: serde_json::Value = match serde_json::from_str(line) {
            Ok(m) => m,
            Err(_) => continue,
        };
        let reason = m["reason"].as_str().unwrap_or("");
        let tname = m["target"]["name"].as_str().unwrap_or("").to_string();
        let is_bin = m["target"]["kind"].as_array().map(|k| k.iter().any(|x| x == "bin")).unwrap_or(false);
        let ours = m["package_id"].as_str().map(|p| p.contains("genprobe")).unwrap_or(false);
        if !ours {
            continue;
        }
        match reason {
            "compiler-artifact" => {
                if is_bin && m["executable"].is_string() {
                    if let Some(r) = res.get_mut(&tname) {
                        r.built = true;
                    }
                }
            }
            "compiler-message" => {
                let d = &m["message"];
                if d["level"] != "error" {
                    continue;
                }
                let mut msg = d["message"].as_str().unwrap_or("").to_string();
                if msg == "proc macro panicked" {
                    if let Some(ch) = d["children"].as_array() {
                        for c in ch {
                            msg.push_str(" | ");
                            msg.push_str(c["message"].as_str().unwrap_or(""));
                        }
                    }
                }
                if msg.starts_with("aborting due to") {
                    continue;
                }
                let code = d["code"]["code"].as_str().unwrap_or("").to_string();
                let mut in_gen = false;
                let mut in_harness = false;
                fn walk(sp: &serde_json::Value, in_gen: &mut bool, in_harness: &mut bool) {
                    if let Some(a) = sp.as_array() {
                        for s in a {
                            let f = s["file_name"].as_str().unwrap_or("");
                            if (f.contains("/out/") || f.contains("/opt/")) && f.ends_with(".rs") {
                                *in_gen = true;
                            } else if f.starts_with("src/bin/") || f.contains("genprobe/src/") {
                                *in_harness = true;
                            }
                            if s["expansion"].is_object() {
                                walk(&serde_json::Value::Array(vec![s["expansion"]["span"].clone()]), in_gen, in_harness);
                            }
                        }
                    }
                }
                walk(&d["spans"], &mut in_gen, &mut in_harness);
                if !is_bin {
                    lib_failed = true;
                    continue;
                }
                if let Some(r) = res.get_mut(&tname) {
                    r.errors.push((code, msg, in_gen, in_harness));
                }
            }
            _ => {}
        }
    }
    // throw-away bins of earlier batches: remove their artifacts (cargo rebuilds a bin whose output is gone)
    for sub in ["debug", "debug/deps"] {
        if let Ok(rd) = std::fs::read_dir(target_dir().join(sub)) {
            for e in rd.flatten() {
                let name = e.file_name().to_string_lossy().to_string();
                let base = name.split(|c| c == '-' || c == '.').next().unwrap_or("").to_string();
                let ours = base.len() == 17 && (base.starts_with('p') || base.starts_with('d') || base.starts_with('o') || base.starts_with('s')) && base[1..].chars().all(|c| c.is_ascii_hexdigit());
                if ours && !stems.contains(&base) {
                    let _ = std::fs::remove_file(e.path());
                }
            }
        }
    }
    if let Ok(rd) = std::fs::read_dir(target_dir().join("debug/incremental")) {
        for e in rd.flatten() {
            let name = e.file_name().to_string_lossy().to_string();
            let base = name.split('-').next().unwrap_or("").to_string();
            let ours = base.len() == 17 && (base.starts_with('p') || base.starts_with('d') || base.starts_with('o') || base.starts_with('s')) && base[1..].chars().all(|c| c.is_ascii_hexdigit());
            if ours {
                let _ = std::fs::remove_dir_all(e.path());
            }
        }
    }
    if lib_failed {
        return Err(format!("genprobe runtime library does not compile:\n{}", String::from_utf8_lossy(&out.stderr)));
    }
    let stderr = String::from_utf8_lossy(&out.stderr);
    if stderr.contains("failed to run custom build command") || stderr.contains("error: failed to parse manifest") || stderr.contains("error: no matching package") {
        return Err(format!("genprobe build infrastructure failed:\n{}", &stderr[stderr.len().saturating_sub(3000)..]));
    }
    Ok(res)
}

pub fn bin_path(stem: &str) -> PathBuf {
    target_dir().join("debug").join(stem)
}

/// run a probe binary on a command file; one observation line per command
pub fn run_bin(stem: &str, cmds: &[String]) -> Vec<String> {
    let dir = work_dir().join("cmds");
    let _ = std::fs::create_dir_all(&dir);
    let f = dir.join(format!("{}.txt", stem));
    std::fs::write(&f, cmds.join("\n") + "\n").expect("cmd file");
    let out = Command::new(bin_path(stem)).arg(&f).output();
    match out {
        Ok(o) => String::from_utf8_lossy(&o.stdout).lines().map(|l| l.to_string()).collect(),
        Err(_) => Vec::new(),
    }
}

// ------------------------------------------------------------------ item scanner

#[derive(Debug, PartialEq, Clone)]
enum Tok {
    Ident(String),
    Open(char),
    Close(char),
    Punct(char),
    Lit,
}

fn lex(src: &str) -> Vec<Tok> {
    let cs: Vec<char> = src.chars().collect();
    let mut i = 0;
    let mut out = Vec::new();
    while i < cs.len() {
        let c = cs[i];
        if c.is_whitespace() {
            i += 1;
        } else if c == '"' {
            i += 1;
            while i < cs.len() && cs[i] != '"' {
                if cs[i] == '\\' {
                    i += 1;
                }
                i += 1;
            }
            i += 1;
            out.push(Tok::Lit);
        } else if c == '\'' {
            // lifetime ('static, '_) — the generator emits no char literals
            i += 1;
            while i < cs.len() && (cs[i].is_alphanumeric() || cs[i] == '_') {
                i += 1;
            }
            out.push(Tok::Lit);
        } else if c.is_alphabetic() || c == '_' {
            let st = i;
            while i < cs.len() && (cs[i].is_alphanumeric() || cs[i] == '_') {
                i += 1;
            }
            let mut id: String = cs[st..i].iter().collect();
            if id == "r" && i + 1 < cs.len() && cs[i] == '#' && (cs[i + 1].is_alphabetic() || cs[i + 1] == '_') {
                i += 1;
                let st2 = i;
                while i < cs.len() && (cs[i].is_alphanumeric() || cs[i] == '_') {
                    i += 1;
                }
                id = cs[st2..i].iter().collect();
                out.push(Tok::Ident(format!("r#{}", id)));
            } else {
                out.push(Tok::Ident(id));
            }
        } else if c.is_ascii_digit() {
            while i < cs.len() && (cs[i].is_alphanumeric() || cs[i] == '_' || cs[i] == '.') {
                i += 1;
            }
            out.push(Tok::Lit);
        } else if c == '(' || c == '[' || c == '{' {
            out.push(Tok::Open(c));
            i += 1;
        } else if c == ')' || c == ']' || c == '}' {
            out.push(Tok::Close(c));
            i += 1;
        } else {
            out.push(Tok::Punct(c));
            i += 1;
        }
    }
    out
}

fn skip_group(t: &[Tok], mut i: usize) -> usize {
    // t[i] is an Open; returns the index after the matching Close
    let mut d = 0i32;
    while i < t.len() {
        match t[i] {
            Tok::Open(_) => d += 1,
            Tok::Close(_) => {
                d -= 1;
                if d == 0 {
                    return i + 1;
                }
            }
            _ => {}
        }
        i += 1;
    }
    i
}

fn strip_raw(s: &str) -> String {
    s.strip_prefix("r#").unwrap_or(s).to_string()
}

/// module-level items `(kind, name)` and the fn names of every trait, from the emitted text
pub fn scan_items(src: &str) -> (Vec<(String, String)>, Vec<(String, Vec<String>)>) {
    let t = lex(src);
    let mut items = Vec::new();
    let mut traits = Vec::new();
    let mut i = 0;
    while i < t.len() {
        match &t[i] {
            Tok::Punct('#') => {
                // attribute: `#` `!`? `[...]`
                i += 1;
                if i < t.len() && t[i] == Tok::Punct('!') {
                    i += 1;
                }
                if i < t.len() && matches!(t[i], Tok::Open('[')) {
                    i = skip_group(&t, i);
                }
            }
            Tok::Ident(k) if k == "impl" => {
                while i < t.len() && !matches!(t[i], Tok::Open('{')) {
                    i += 1;
                }
                i = skip_group(&t, i);
            }
            Tok::Ident(k) if k == "use" => {
                while i < t.len() && t[i] != Tok::Punct(';') {
                    i += 1;
                }
            }
            Tok::Ident(k) if k == "struct" || k == "enum" || k == "type" || k == "fn" || k == "trait" => {
                let kind = k.clone();
                let name = match t.get(i + 1) {
                    Some(Tok::Ident(n)) => strip_raw(n),
                    _ => String::from("?"),
                };
                items.push((kind.clone(), name.clone()));
                i += 2;
                // to the body / terminator
                while i < t.len() && !matches!(t[i], Tok::Open('{')) && t[i] != Tok::Punct(';') {
                    if matches!(t[i], Tok::Open(_)) {
                        i = skip_group(&t, i);
                    } else {
                        i += 1;
                    }
                }
                if i < t.len() && matches!(t[i], Tok::Open('{')) {
                    let end = skip_group(&t, i);
                    if kind == "trait" {
                        let mut fns = Vec::new();
                        let mut j = i + 1;
                        while j + 1 < end {
                            match &t[j] {
                                Tok::Ident(f) if f == "fn" => {
                                    if let Some(Tok::Ident(n)) = t.get(j + 1) {
                                        fns.push(strip_raw(n));
                                    }
                                    j += 2;
                                }
                                Tok::Open(_) => j = skip_group(&t, j),
                                _ => j += 1,
                            }
                        }
                        traits.push((name, fns));
                    }
                    i = end;
                } else {
                    i += 1;
                }
            }
            _ => i += 1,
        }
    }
    (items, traits)
}

/// outcome of `cargo_build_many` on the whole batch inside the probe package's build script: "ok" | "failed [files…]"
pub fn helper_status() -> String {
    std::fs::read_to_string(work_dir().join("helper-status.txt")).unwrap_or_else(|_| "unknown".into())
}

pub fn opt_status(stem: &str) -> String {
    std::fs::read_to_string(work_dir().join("src/opt").join(format!("{}.status", stem))).unwrap_or_else(|_| "missing".into())
}
