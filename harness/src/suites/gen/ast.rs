//! IDL syntax tree of the `gen` suite: conversion from the real parser, line-protocol form,
//! text rendering, and the harness' own copy of the generator's naming scheme (used to write
//! the probe code; a deviation from the real generator shows up as a compile error in the
//! harness-written file and is reported as `harness-error`).
use crate::sx::{self, Sx};
use std::convert::TryFrom;

#[derive(Clone, Debug, PartialEq)]
pub enum Ty {
    Bool,
    Int,
    Float,
    Str,
    Object,
    Ref(String),
    Struct(Vec<(String, Ty)>),
    Enum(Vec<String>),
    Arr(Box<Ty>),
    Map(Box<Ty>),
    Opt(Box<Ty>),
}

pub type Fields = Vec<(String, Ty)>;

#[derive(Clone, Debug, PartialEq)]
pub struct Typedef {
    pub name: String,
    pub def: Ty, // Struct or Enum
}
#[derive(Clone, Debug, PartialEq)]
pub struct Method {
    pub name: String,
    pub input: Fields,
    pub output: Fields,
}
#[derive(Clone, Debug, PartialEq)]
pub struct ErrorDef {
    pub name: String,
    pub parm: Fields,
}
/// lists are in `BTreeMap` iteration order (what the generator iterates over)
#[derive(Clone, Debug, PartialEq)]
pub struct Idl {
    pub name: String,
    pub types: Vec<Typedef>,
    pub methods: Vec<Method>,
    pub errors: Vec<ErrorDef>,
}

fn conv_ext(t: &varlink_parser::VTypeExt) -> Ty {
    use varlink_parser::VTypeExt as E;
    match t {
        E::Plain(v) => conv_plain(v),
        E::Array(b) => Ty::Arr(Box::new(conv_ext(b))),
        E::Dict(b) => Ty::Map(Box::new(conv_ext(b))),
        E::Option(b) => Ty::Opt(Box::new(conv_ext(b))),
    }
}
fn conv_plain(v: &varlink_parser::VType) -> Ty {
    use varlink_parser::VType as V;
    match v {
        V::Bool => Ty::Bool,
        V::Int => Ty::Int,
        V::Float => Ty::Float,
        V::String => Ty::Str,
        V::Object => Ty::Object,
        V::Typename(n) => Ty::Ref(n.to_string()),
        V::Struct(s) => Ty::Struct(conv_struct(s)),
        V::Enum(e) => Ty::Enum(e.elts.iter().map(|x| x.to_string()).collect()),
    }
}
fn conv_struct(s: &varlink_parser::VStruct) -> Fields {
    s.elts.iter().map(|a| (a.name.to_string(), conv_ext(&a.vtype))).collect()
}

impl Idl {
    /// the REAL parser's verdict: Ok(ast) | Err("parse") | Err("idl") | Err("panic") (the parser must never panic:
    /// the harness survives it and reports it)
    pub fn parse(text: &str) -> Result<Idl, &'static str> {
        match std::panic::catch_unwind(|| Idl::parse_inner(text)) {
            Ok(r) => r,
            Err(_) => Err("panic"),
        }
    }

    fn parse_inner(text: &str) -> Result<Idl, &'static str> {
        match varlink_parser::IDL::try_from(text) {
            Err(varlink_parser::Error::Parse { .. }) => Err("parse"),
            Err(varlink_parser::Error::Idl(_)) => Err("idl"),
            Ok(i) => Ok(Idl {
                name: i.name.to_string(),
                types: i
                    .typedefs
                    .values()
                    .map(|t| Typedef {
                        name: t.name.to_string(),
                        def: match &t.elt {
                            varlink_parser::VStructOrEnum::VStruct(s) => Ty::Struct(conv_struct(s)),
                            varlink_parser::VStructOrEnum::VEnum(e) => Ty::Enum(e.elts.iter().map(|x| x.to_string()).collect()),
                        },
                    })
                    .collect(),
                methods: i
                    .methods
                    .values()
                    .map(|m| Method { name: m.name.to_string(), input: conv_struct(&m.input), output: conv_struct(&m.output) })
                    .collect(),
                errors: i.errors.values().map(|e| ErrorDef { name: e.name.to_string(), parm: conv_struct(&e.parm) }).collect(),
            }),
        }
    }

    pub fn typedef(&self, n: &str) -> Option<&Typedef> {
        self.types.iter().find(|t| t.name == n)
    }
    pub fn method(&self, n: &str) -> Option<&Method> {
        self.methods.iter().find(|t| t.name == n)
    }
    pub fn error(&self, n: &str) -> Option<&ErrorDef> {
        self.errors.iter().find(|t| t.name == n)
    }
}

// ------------------------------------------------------------------ line protocol

pub fn ty_sx(t: &Ty) -> Sx {
    match t {
        Ty::Bool => sx::atom("bool"),
        Ty::Int => sx::atom("int"),
        Ty::Float => sx::atom("float"),
        Ty::Str => sx::atom("string"),
        Ty::Object => sx::atom("object"),
        Ty::Ref(n) => sx::tagged("ref", vec![sx::xs(n)]),
        Ty::Struct(fs) => sx::tagged("st", fs.iter().map(|(n, t)| sx::list(vec![sx::xs(n), ty_sx(t)])).collect()),
        Ty::Enum(vs) => sx::tagged("en", vs.iter().map(|v| sx::xs(v)).collect()),
        Ty::Arr(t) => sx::tagged("arr", vec![ty_sx(t)]),
        Ty::Map(t) => sx::tagged("map", vec![ty_sx(t)]),
        Ty::Opt(t) => sx::tagged("opt", vec![ty_sx(t)]),
    }
}
fn fields_sx(fs: &Fields) -> Sx {
    sx::tagged("F", fs.iter().map(|(n, t)| sx::list(vec![sx::xs(n), ty_sx(t)])).collect())
}
pub fn idl_sx(i: &Idl) -> Sx {
    sx::tagged(
        "idl",
        vec![
            sx::xs(&i.name),
            sx::tagged("T", i.types.iter().map(|t| sx::list(vec![sx::xs(&t.name), ty_sx(&t.def)])).collect()),
            sx::tagged("M", i.methods.iter().map(|m| sx::list(vec![sx::xs(&m.name), fields_sx(&m.input), fields_sx(&m.output)])).collect()),
            sx::tagged("E", i.errors.iter().map(|e| sx::list(vec![sx::xs(&e.name), fields_sx(&e.parm)])).collect()),
        ],
    )
}

// ------------------------------------------------------------------ text

pub fn ty_text(t: &Ty) -> String {
    match t {
        Ty::Bool => "bool".into(),
        Ty::Int => "int".into(),
        Ty::Float => "float".into(),
        Ty::Str => "string".into(),
        Ty::Object => "object".into(),
        Ty::Ref(n) => n.clone(),
        Ty::Struct(fs) => fields_text(fs),
        Ty::Enum(vs) => format!("({})", vs.join(", ")),
        Ty::Arr(t) => format!("[]{}", ty_text(t)),
        Ty::Map(t) => format!("[string]{}", ty_text(t)),
        Ty::Opt(t) => format!("?{}", ty_text(t)),
    }
}
pub fn fields_text(fs: &Fields) -> String {
    format!("({})", fs.iter().map(|(n, t)| format!("{}: {}", n, ty_text(t))).collect::<Vec<_>>().join(", "))
}
/// members in the given order; `docs[i]` is an optional comment block before member i
pub fn idl_text(i: &Idl, header: &str) -> String {
    let mut s = String::new();
    s.push_str(header);
    s.push_str(&format!("interface {}\n", i.name));
    for t in &i.types {
        s.push_str(&format!("\ntype {} {}\n", t.name, ty_text(&t.def)));
    }
    for m in &i.methods {
        s.push_str(&format!("\nmethod {}{} -> {}\n", m.name, fields_text(&m.input), fields_text(&m.output)));
    }
    for e in &i.errors {
        s.push_str(&format!("\nerror {} {}\n", e.name, fields_text(&e.parm)));
    }
    s
}

// ------------------------------------------------------------------ the generator's naming scheme (harness copy)

pub fn to_snake_case(s: &str) -> String {
    let mut words: Vec<String> = vec![];
    let mut rest = s;
    while let Some(r) = rest.strip_prefix('_') {
        words.push(String::new());
        rest = r;
    }
    for part in rest.split('_') {
        let mut last_upper = false;
        let mut buf = String::new();
        if part.is_empty() {
            continue;
        }
        for ch in part.chars() {
            if !buf.is_empty() && buf != "'" && ch.is_uppercase() && !last_upper {
                words.push(buf);
                buf = String::new();
            }
            last_upper = ch.is_uppercase();
            buf.extend(ch.to_lowercase());
        }
        words.push(buf);
    }
    words.join("_")
}

pub fn is_set(t: &Ty) -> bool {
    matches!(t, Ty::Map(inner) if **inner == Ty::Struct(vec![]))
}

/// Rust type as the generator spells it, generated items prefixed with `g::`
pub fn rust_ty(t: &Ty, name: &str) -> String {
    match t {
        Ty::Bool => "bool".into(),
        Ty::Int => "i64".into(),
        Ty::Float => "f64".into(),
        Ty::Str => "String".into(),
        Ty::Object => "serde_json::Value".into(),
        Ty::Ref(n) => format!("g::{}", n),
        Ty::Struct(_) | Ty::Enum(_) => format!("g::{}", name),
        Ty::Arr(t) => format!("Vec<{}>", rust_ty(t, name)),
        Ty::Map(inner) => {
            if is_set(t) {
                "varlink::StringHashSet".into()
            } else {
                format!("varlink::StringHashMap<{}>", rust_ty(inner, name))
            }
        }
        Ty::Opt(t) => format!("Option<{}>", rust_ty(t, name)),
    }
}

/// One emitted serde type: its Rust name, where it comes from (root + field path) and its definition.
#[derive(Clone, Debug)]
pub struct Emitted {
    pub rust: String,
    pub root: Sx,          // (t xT) | (in xM) | (out xM) | (err xE)
    pub path: Vec<String>, // field names below the root
    pub def: Ty,           // Struct or Enum
    pub top: bool,         // *_Args / *_Reply (skip_serializing_if on direct members)
}

fn anon_below(t: &Ty, name: &str, root: &Sx, path: &[String], out: &mut Vec<Emitted>) {
    match t {
        Ty::Struct(fs) => {
            fields_below(fs, name, root, path, out);
            out.push(Emitted { rust: name.to_string(), root: root.clone(), path: path.to_vec(), def: t.clone(), top: false });
        }
        Ty::Enum(_) => out.push(Emitted { rust: name.to_string(), root: root.clone(), path: path.to_vec(), def: t.clone(), top: false }),
        Ty::Arr(i) | Ty::Opt(i) => anon_below(i, name, root, path, out),
        Ty::Map(i) => {
            if !is_set(t) {
                anon_below(i, name, root, path, out)
            }
        }
        _ => {}
    }
}
fn fields_below(fs: &Fields, name: &str, root: &Sx, path: &[String], out: &mut Vec<Emitted>) {
    for (f, t) in fs {
        let mut p = path.to_vec();
        p.push(f.clone());
        anon_below(t, &format!("{}_{}", name, f), root, &p, out);
    }
}

/// every struct/enum the generator emits for this IDL (error-parameter types once)
pub fn emitted_types(i: &Idl) -> Vec<Emitted> {
    let mut out = Vec::new();
    for t in &i.types {
        let root = sx::tagged("t", vec![sx::xs(&t.name)]);
        match &t.def {
            Ty::Struct(fs) => {
                fields_below(fs, &t.name, &root, &[], &mut out);
                out.push(Emitted { rust: t.name.clone(), root, path: vec![], def: t.def.clone(), top: false });
            }
            _ => out.push(Emitted { rust: t.name.clone(), root, path: vec![], def: t.def.clone(), top: false }),
        }
    }
    for e in &i.errors {
        let root = sx::tagged("err", vec![sx::xs(&e.name)]);
        let n = format!("{}_Args", e.name);
        fields_below(&e.parm, &n, &root, &[], &mut out);
        out.push(Emitted { rust: n, root, path: vec![], def: Ty::Struct(e.parm.clone()), top: true });
    }
    for m in &i.methods {
        let root = sx::tagged("in", vec![sx::xs(&m.name)]);
        let n = format!("{}_Args", m.name);
        fields_below(&m.input, &n, &root, &[], &mut out);
        out.push(Emitted { rust: n, root, path: vec![], def: Ty::Struct(m.input.clone()), top: true });
        let root = sx::tagged("out", vec![sx::xs(&m.name)]);
        let n = format!("{}_Reply", m.name);
        fields_below(&m.output, &n, &root, &[], &mut out);
        out.push(Emitted { rust: n, root, path: vec![], def: Ty::Struct(m.output.clone()), top: true });
    }
    out
}

/// resolve a reference one step (typedefs are structs or enums, never aliases)
pub fn resolve<'a>(i: &'a Idl, t: &'a Ty) -> (&'a Ty, Option<&'a str>) {
    match t {
        Ty::Ref(n) => match i.typedef(n) {
            Some(td) => (&td.def, Some(td.name.as_str())),
            None => (t, None),
        },
        _ => (t, None),
    }
}
