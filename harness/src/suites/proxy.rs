//! Suite `proxy` (C18): the built `varlink bridge` binary against harness-run services and a
//! harness-run resolver, compared with direct connections to the same services.
//!
//! Case:
//!   (proxy <mode> (services <world>*) (rtable (x<iface> x<address>*)*) <client> (session <item>*) <dec>)
//!     mode    = resolver | bridge2 | (connect x<address or interface>) | (activate <k>) | (bridgecmd <k>)
//!     world k listens on `unix:%D/s<k>.sock`; the resolver (interface org.varlink.resolver with the
//!               given table; the j-th Resolve call answers address min(j, last) of the entry) on
//!               `unix:%D/resolver.sock`, passed with `--resolver`
//!     client  = pipelined | stepwise | closeearly | svcexit | slowread
//!               sigcont: like pipelined; once the session is answered the bridge process gets SIGSTOP and
//!               SIGCONT and must still answer another sentinel call
//!               slowread: like pipelined, but the client starts reading 700 ms late (what the bridge
//!               writes meanwhile piles up in the 64 KiB pipe and then in the bridge)
//!               svcexit (modes activate / bridgecmd): like pipelined, but instead of closing its side the
//!               client waits while the harness kills the service process: the bridge must stop by itself
//!     item    = (rq b<frame>) | (payload b<chunk>*) | (tail b<bytes>)
//!               payload: raw bytes after an upgrading request; tail (closeearly only): bytes written
//!               after the last NUL-terminated request, i.e. an unterminated last message
//!     dec     = what serde_json says about each frame (as in the wire suite)
//!   (raceprobe <n>)   n sessions of one call whose service replies and immediately closes
//!   (closeprobe <n>)  n runs of `REQUEST | varlink -A <service> bridge` (stdin closed right after the request)
//!   (goneprobe <variant>)  the client is on two pipes and goes away while a call is pending and the service silent
//!   (sessprobe long|downup|reset)  resolver-mode sessions in special worlds (see run_sessprobe)
//!
//! Observation:
//!   (obs (bridged (out <reply>*) b<raw> <end>) (exit <code|sig<n>|timeout|closed-by-service>)
//!        (direct (<k> (out <reply>*) b<raw> <open|closed>)*) (log <-| (bridged (<k> <req>*)*) (direct (<k> <req>*)*)>)
//!        (upseen b<bridged> b<direct>))        (log / upseen: `-` unless the mode is resolver or bridge2)
//!     a payload is written in the same write as the requests only by a pipelined client in the modes
//!     resolver / bridge2 (there the bridge forwards the upgrading request on its own); otherwise it
//!     is sent once the reply to the upgrading request has arrived (the library's listen loop loses
//!     bytes buffered behind an upgrading request, which is C02's business)
//!     end = open (the bridge answered the sentinel call that the harness appends) | closed | timeout
//!     `k` = index of the service, the resolver has index = number of services
//!     closeearly in the modes connect / activate / bridgecmd: the pump forwards the pending input, half-closes
//!     the service connection (aebf686) and forwards what the service still answers
//!   (raceprobe lost|kept)          lost: in at least one session the reply did not arrive
//!   (closeprobe cut|complete)      cut: in at least one run the reply did not arrive
//!   (goneprobe stopped|running|no-first-reply)
//!
//! The direct runs use one connection per service carrying the requests that a client would send
//! to that service itself: the interface is looked up in the table (the i-th lookup of the session
//! sees address min(i, last)), `GetInfo` goes to the resolver as `org.varlink.resolver.GetInfo`,
//! whatever cannot be routed goes to service 0 (any service answers InterfaceNotFound /
//! InvalidParameter for it).  In the modes connect/activate/bridgecmd everything goes to that service.
use crate::rng::Rng;
use crate::suites::addr::world::*;
use crate::suites::addr::{fresh_dir, Subst};
use crate::suites::wire;
use crate::sx::{self, Sx};
use crate::{Case, Ctx, Suite};
use serde_json::{json, Value};
use std::io::{Read, Write};
use std::os::unix::io::AsRawFd;
use std::process::{Command, Stdio};
use std::sync::{Arc, Mutex};
use std::time::{Duration, Instant};

pub struct ProxySuite;

pub const SENTINEL_IFACE: &str = "zz.sentinel";
const STEP_WAIT: Duration = Duration::from_millis(4000);
const EXIT_WAIT: Duration = Duration::from_millis(4000);

fn resolver_world(table: &[(String, Vec<String>)]) -> WorldSpec {
    WorldSpec {
        svc: sx::tagged("svc", vec![sx::xs("R"), sx::xs("resolver"), sx::xs("1"), sx::xs("http://r/"), sx::list(vec![sx::atom("ifaces")])]),
        resolver: Some(table.to_vec()),
        up: false,
        seq: false,
    }
}

#[derive(Clone)]
struct ProxyCase {
    mode: Sx,
    worlds: Vec<WorldSpec>,
    rtable: Vec<(String, Vec<String>)>,
    client: String,
    frames: Vec<Vec<u8>>,
    payload: Option<Vec<Vec<u8>>>,
    tail: Vec<u8>,
}

fn parse_case(l: &[Sx]) -> ProxyCase {
    let worlds = l[2].as_list().unwrap()[1..].iter().map(|w| WorldSpec::from_sx(w).expect("world")).collect();
    let mut rtable = Vec::new();
    for e in &l[3].as_list().unwrap()[1..] {
        let e = e.as_list().unwrap();
        rtable.push((e[0].as_str().unwrap(), e[1..].iter().map(|a| a.as_str().unwrap()).collect()));
    }
    let mut frames = Vec::new();
    let mut payload = None;
    let mut tail = Vec::new();
    for it in &l[5].as_list().unwrap()[1..] {
        let it = it.as_list().unwrap();
        match it[0].as_atom().unwrap() {
            "rq" => frames.push(it[1].as_bytes().unwrap()),
            "payload" => payload = Some(it[1..].iter().map(|c| c.as_bytes().unwrap()).collect()),
            "tail" => tail = it[1].as_bytes().unwrap(),
            other => panic!("item {}", other),
        }
    }
    ProxyCase { mode: l[1].clone(), worlds, rtable, client: l[4].as_atom().unwrap().to_string(), frames, payload, tail }
}

// ---------------------------------------------------------------------------
// the reference client's routing

#[derive(Clone, Copy, PartialEq)]
enum Target {
    Svc(usize),
    Resolver,
}

fn mode_tag(mode: &Sx) -> String {
    match mode {
        Sx::Atom(a) => a.clone(),
        Sx::List(l) => l[0].as_atom().unwrap().to_string(),
    }
}

fn service_address(sub: &Subst, k: usize) -> String {
    format!("unix:{}/s{}.sock", sub.dir, k)
}

/// (target, frame to send) per request
fn route_all(c: &ProxyCase, sub: &Subst) -> Vec<(Target, Vec<u8>)> {
    let tag = mode_tag(&c.mode);
    let fixed: Option<usize> = match tag.as_str() {
        "activate" | "bridgecmd" => c.mode.as_list().unwrap()[1].as_usize(),
        "connect" => {
            let a = c.mode.as_list().unwrap()[1].as_str().unwrap();
            if a.contains(':') {
                (0..c.worlds.len()).find(|k| sub.apply(&a) == service_address(sub, *k))
            } else {
                c.rtable.iter().find(|e| e.0 == a).and_then(|e| e.1.first()).and_then(|a0| (0..c.worlds.len()).find(|k| sub.apply(a0) == service_address(sub, *k)))
            }
            .or(Some(0))
        }
        _ => None,
    };
    let mut lookups = 0usize;
    let mut res = Vec::new();
    for f in &c.frames {
        if let Some(k) = fixed {
            res.push((Target::Svc(k), f.clone()));
            continue;
        }
        let v: Value = match serde_json::from_slice::<varlink::Request>(f) {
            Ok(_) => serde_json::from_slice(f).unwrap_or(Value::Null),
            Err(_) => {
                res.push((Target::Svc(0), f.clone()));
                continue;
            }
        };
        let method = v["method"].as_str().unwrap_or("").to_string();
        if method == "org.varlink.service.GetInfo" {
            let mut v2 = v.clone();
            v2["method"] = json!("org.varlink.resolver.GetInfo");
            lookups += 1;
            res.push((Target::Resolver, serde_json::to_vec(&v2).unwrap()));
            continue;
        }
        let iface: Option<String> = match method.rfind('.') {
            None => None,
            Some(n) => {
                if method == "org.varlink.service.GetInterfaceDescription" {
                    match v.get("parameters") {
                        Some(Value::Object(o)) => o.get("interface").and_then(|i| i.as_str()).map(|s| s.to_string()),
                        Some(Value::Array(a)) if a.len() == 1 => a[0].as_str().map(|s| s.to_string()),
                        _ => None,
                    }
                } else {
                    Some(method[..n].to_string())
                }
            }
        };
        let t = match iface {
            None => Target::Svc(0),
            Some(i) => {
                let k = lookups;
                lookups += 1;
                if i == "org.varlink.resolver" {
                    Target::Resolver
                } else {
                    match c.rtable.iter().find(|e| e.0 == i) {
                        Some(e) if !e.1.is_empty() => {
                            let a = sub.apply(&e.1[std::cmp::min(k, e.1.len() - 1)]);
                            match (0..c.worlds.len()).find(|k| a == service_address(sub, *k)) {
                                Some(k) => Target::Svc(k),
                                None => Target::Svc(0),
                            }
                        }
                        _ => Target::Svc(0),
                    }
                }
            }
        };
        res.push((t, f.clone()));
    }
    res
}

// ---------------------------------------------------------------------------
// stdout collector

struct Collector {
    buf: Arc<Mutex<Vec<u8>>>,
    eof: Arc<std::sync::atomic::AtomicBool>,
}

impl Collector {
    fn start<R: Read + Send + 'static>(r: R) -> Collector {
        Collector::start_delayed(r, Duration::from_millis(0))
    }
    /// a reader that takes its time before the first read (a slow client: the writer's pipe fills up)
    fn start_delayed<R: Read + Send + 'static>(mut r: R, delay: Duration) -> Collector {
        let buf = Arc::new(Mutex::new(Vec::new()));
        let eof = Arc::new(std::sync::atomic::AtomicBool::new(false));
        let (b2, e2) = (buf.clone(), eof.clone());
        std::thread::spawn(move || {
            if delay > Duration::from_millis(0) {
                std::thread::sleep(delay);
            }
            let mut tmp = [0u8; 8192];
            loop {
                match r.read(&mut tmp) {
                    Ok(0) | Err(_) => break,
                    Ok(n) => b2.lock().unwrap().extend_from_slice(&tmp[..n]),
                }
            }
            e2.store(true, std::sync::atomic::Ordering::SeqCst);
        });
        Collector { buf, eof }
    }
    fn snapshot(&self) -> Vec<u8> {
        self.buf.lock().unwrap().clone()
    }
    fn is_eof(&self) -> bool {
        self.eof.load(std::sync::atomic::Ordering::SeqCst)
    }
    /// wait until `pred(buffer)` or EOF or the deadline; true = pred held
    fn wait<F: Fn(&[u8]) -> bool>(&self, d: Duration, pred: F) -> bool {
        let t0 = Instant::now();
        loop {
            if pred(&self.buf.lock().unwrap()) {
                return true;
            }
            if self.is_eof() {
                // one last look: the data may have arrived together with EOF
                return pred(&self.buf.lock().unwrap());
            }
            if t0.elapsed() > d {
                return false;
            }
            std::thread::sleep(Duration::from_millis(1));
        }
    }
    /// wait until nothing new arrived for `quiet`
    fn settle(&self, quiet: Duration, max: Duration) {
        let t0 = Instant::now();
        let mut last = self.buf.lock().unwrap().len();
        let mut since = Instant::now();
        loop {
            std::thread::sleep(Duration::from_millis(2));
            let n = self.buf.lock().unwrap().len();
            if n != last {
                last = n;
                since = Instant::now();
            }
            if self.is_eof() || since.elapsed() > quiet || t0.elapsed() > max {
                return;
            }
        }
    }
}

/// replies may quote addresses (org.varlink.resolver.Resolve): print them with the placeholder again
fn unapply_bytes(sub: &Subst, b: &[u8]) -> Vec<u8> {
    let needle = sub.dir.as_bytes();
    if needle.is_empty() {
        return b.to_vec();
    }
    let mut out = Vec::with_capacity(b.len());
    let mut i = 0;
    while i < b.len() {
        if b[i..].starts_with(needle) {
            out.extend_from_slice(b"%D");
            i += needle.len();
        } else {
            out.push(b[i]);
            i += 1;
        }
    }
    out
}

fn nul_count(b: &[u8]) -> usize {
    b.iter().filter(|x| **x == 0).count()
}

/// number of complete reply groups in `b`, given which requests were sent (`oneway`, `upgrade` flags)
fn frame_flags(f: &[u8]) -> (bool, bool) {
    match serde_json::from_slice::<varlink::Request>(f) {
        Ok(r) => (r.oneway.unwrap_or(false), r.upgrade.unwrap_or(false)),
        Err(_) => (false, false),
    }
}

/// position just after the reply group that starts at `from` (replies until one without `continues`;
/// exactly one reply when `single`); None when it is not complete yet
fn group_end(b: &[u8], from: usize, single: bool) -> Option<usize> {
    let mut pos = from;
    loop {
        let rel = b[pos..].iter().position(|x| *x == 0)?;
        let piece = &b[pos..pos + rel];
        pos += rel + 1;
        if single {
            return Some(pos);
        }
        let cont = serde_json::from_slice::<Value>(piece).ok().and_then(|v| v.get("continues").and_then(|c| c.as_bool())).unwrap_or(false);
        if !cont {
            return Some(pos);
        }
    }
}

/// the greeting an upgrading `org.example.up.Start` call asks the service to write first
fn greeting_len(frames: &[Vec<u8>]) -> usize {
    frames
        .last()
        .and_then(|f| serde_json::from_slice::<Value>(f).ok())
        .and_then(|v| v.get("parameters").and_then(|p| p.get("greeting")).and_then(|g| g.as_u64()))
        .unwrap_or(0) as usize
}

fn sentinel_frame(nonce: &str) -> Vec<u8> {
    serde_json::to_vec(&json!({"method": format!("{}.Run", SENTINEL_IFACE),
        "parameters": {"script": [{"op": "reply", "p": {"sentinel": nonce}}], "token": "sentinel"}}))
    .unwrap()
}

fn find_sub(h: &[u8], n: &[u8]) -> Option<usize> {
    if n.is_empty() || h.len() < n.len() {
        return None;
    }
    (0..=h.len() - n.len()).find(|i| &h[*i..*i + n.len()] == n)
}

/// cut the sentinel's reply (a whole NUL-terminated frame) out of the stream
fn strip_sentinel(b: &[u8], nonce: &str) -> (Vec<u8>, bool) {
    let needle = format!("\"sentinel\":\"{}\"", nonce);
    match find_sub(b, needle.as_bytes()) {
        None => (b.to_vec(), false),
        Some(p) => {
            let start = b[..p].iter().rposition(|x| *x == 0).map(|i| i + 1).unwrap_or(0);
            let end = b[p..].iter().position(|x| *x == 0).map(|i| p + i + 1).unwrap_or(b.len());
            let mut v = b[..start].to_vec();
            v.extend_from_slice(&b[end..]);
            (v, true)
        }
    }
}

/// a writer that never blocks the harness: the bytes are written by a thread of their own (a bridge
/// that has stopped reading must show up as a timeout of the session, not as a hung check); dropping
/// the `AsyncWriter` closes the descriptor once everything queued has been written
struct AsyncWriter {
    tx: std::sync::mpsc::Sender<Vec<u8>>,
}

impl AsyncWriter {
    fn new<W: Write + Send + 'static>(mut w: W) -> AsyncWriter {
        let (tx, rx) = std::sync::mpsc::channel::<Vec<u8>>();
        std::thread::spawn(move || {
            while let Ok(b) = rx.recv() {
                if w.write_all(&b).is_err() {
                    break;
                }
                let _ = w.flush();
            }
            // `w` is dropped here: the descriptor is closed
        });
        AsyncWriter { tx }
    }
}

impl Write for AsyncWriter {
    fn write(&mut self, b: &[u8]) -> std::io::Result<usize> {
        let _ = self.tx.send(b.to_vec());
        Ok(b.len())
    }
    fn flush(&mut self) -> std::io::Result<()> {
        Ok(())
    }
}

struct SessionResult {
    boundary: Option<usize>, // where the raw (upgraded) part of the output starts, when known
    end: &'static str,       // open | closed | timeout
}

/// drive one session over (writer, collector): used for the bridge's stdio and for direct sockets
fn drive<W: Write>(
    w: &mut Option<W>,
    coll: &Collector,
    frames: &[Vec<u8>],
    payload: &Option<Vec<Vec<u8>>>,
    client: &str,
    use_sentinel: bool,
    pipeline_payload: bool,
    tail: &[u8],
) -> SessionResult {
    let nonce = format!("n{}", std::process::id());
    let ends_upgraded = frames.last().map(|f| frame_flags(f).1).unwrap_or(false);
    let write = |w: &mut Option<W>, b: &[u8]| {
        if let Some(wr) = w.as_mut() {
            let _ = wr.write_all(b);
            let _ = wr.flush();
        }
    };
    let mut boundary: Option<usize> = None; // where the raw part starts
    let mut timed_out = false;
    match client {
        "stepwise" => {
            let mut pos = 0usize;
            for f in frames {
                let mut m = f.clone();
                m.push(0);
                write(w, &m);
                let (oneway, upgrade) = frame_flags(f);
                if oneway {
                    continue;
                }
                let p0 = pos;
                let ok = coll.wait(STEP_WAIT, |b| group_end(b, p0, upgrade).is_some());
                if !ok {
                    timed_out = !coll.is_eof();
                    break;
                }
                pos = group_end(&coll.snapshot(), p0, upgrade).unwrap();
            }
            if ends_upgraded && !timed_out && !coll.is_eof() {
                boundary = Some(pos);
                // the service may speak first: the client sends nothing before the greeting is there
                let greet = greeting_len(frames);
                if greet > 0 && !coll.wait(STEP_WAIT, |b| b.len() >= pos + greet) {
                    timed_out = !coll.is_eof();
                }
                if let (Some(chunks), false) = (payload, timed_out) {
                    let mut sent = 0usize;
                    for c in chunks {
                        write(w, c);
                        sent += c.len();
                        // the echo service answers byte for byte
                        let want = pos + greet + sent;
                        coll.wait(Duration::from_millis(400), |b| b.len() >= want);
                    }
                }
            }
        }
        _ => {
            // pipelined / closeearly: everything in one write
            let mut all = Vec::new();
            for f in frames {
                all.extend_from_slice(f);
                all.push(0);
            }
            if pipeline_payload {
                if let Some(chunks) = payload {
                    for c in chunks {
                        all.extend_from_slice(c);
                    }
                }
            }
            if use_sentinel && !ends_upgraded && client != "closeearly" {
                all.extend_from_slice(&sentinel_frame(&nonce));
                all.push(0);
            }
            if client == "closeearly" {
                all.extend_from_slice(tail);
            }
            write(w, &all);
        }
    }
    if client == "closeearly" {
        *w = None; // close right after the last request
        let t0 = Instant::now();
        while !coll.is_eof() && t0.elapsed() < STEP_WAIT {
            std::thread::sleep(Duration::from_millis(1));
        }
        return SessionResult { boundary: None, end: if coll.is_eof() { "closed" } else { "timeout" } };
    }
    let end;
    if ends_upgraded {
        if client != "stepwise" && !pipeline_payload {
            // requests pipelined, but the payload only once the upgrade is acknowledged
            let want = frames.iter().filter(|f| !frame_flags(f).0).count();
            if coll.wait(STEP_WAIT, |b| nul_count(b) >= want) {
                let b = coll.snapshot();
                let mut pos = 0usize;
                for _ in 0..want {
                    pos += b[pos..].iter().position(|x| *x == 0).unwrap() + 1;
                }
                boundary = Some(pos);
                let greet = greeting_len(frames);
                if greet > 0 && !coll.wait(STEP_WAIT, |b| b.len() >= pos + greet) {
                    timed_out = !coll.is_eof();
                }
                if let (Some(chunks), false) = (payload, timed_out) {
                    let mut sent = 0usize;
                    for c in chunks {
                        write(w, c);
                        sent += c.len();
                        let want_len = pos + greet + sent;
                        coll.wait(Duration::from_millis(400), |b| b.len() >= want_len);
                    }
                }
            } else {
                timed_out = !coll.is_eof();
            }
        }
        // no sentinel possible: when the payload went out after the upgrade was acknowledged the echo
        // service answers byte for byte, so the length to wait for is known; then quiescence
        if let (Some(b0), Some(chunks), false, false) = (boundary, payload.as_ref(), pipeline_payload, timed_out) {
            let want_len = b0 + greeting_len(frames) + chunks.iter().map(|c| c.len()).sum::<usize>();
            coll.wait(STEP_WAIT, |b| b.len() >= want_len);
        }
        coll.settle(Duration::from_millis(150), STEP_WAIT);
        end = if timed_out {
            "timeout"
        } else if coll.is_eof() {
            "closed"
        } else {
            "open"
        };
        let b = coll.snapshot();
        if boundary.is_none() && client != "stepwise" {
            // pipelined: the replies before the upgrade are single (the generator guarantees it)
            let want = frames.iter().filter(|f| !frame_flags(f).0).count();
            let mut pos = 0usize;
            let mut n = 0;
            while n < want {
                match b[pos..].iter().position(|x| *x == 0) {
                    Some(i) => {
                        pos += i + 1;
                        n += 1;
                    }
                    None => break,
                }
            }
            if n == want {
                boundary = Some(pos);
            }
        }
        return SessionResult { boundary, end };
    }
    if client == "stepwise" && use_sentinel && !timed_out {
        let mut m = sentinel_frame(&nonce);
        m.push(0);
        write(w, &m);
    }
    let needle = format!("\"sentinel\":\"{}\"", nonce);
    let seen = if use_sentinel && !timed_out {
        coll.wait(STEP_WAIT, |b| find_sub(b, needle.as_bytes()).map(|p| b[p..].contains(&0)).unwrap_or(false))
    } else {
        false
    };
    let (_, found) = strip_sentinel(&coll.snapshot(), &nonce);
    end = if found && seen {
        "open"
    } else if coll.is_eof() {
        "closed"
    } else {
        "timeout"
    };
    SessionResult { boundary: None, end }
}

// ---------------------------------------------------------------------------

fn exit_sx(st: Option<std::process::ExitStatus>) -> Sx {
    use std::os::unix::process::ExitStatusExt;
    match st {
        None => sx::atom("timeout"),
        Some(s) => match (s.code(), s.signal()) {
            (Some(c), _) => sx::int(c as i64),
            (None, Some(sig)) => sx::atom(format!("sig{}", sig)),
            _ => sx::atom("unknown"),
        },
    }
}

fn log_sx(h: &ServiceHandle, from: usize) -> (Vec<Sx>, usize) {
    let calls = h.calls.lock().unwrap();
    let mut v = Vec::new();
    for c in calls.iter().skip(from) {
        let l = c.as_list().unwrap();
        if l[0].as_str().as_deref() == Some(SENTINEL_IFACE) {
            continue;
        }
        v.push(l[2].clone());
    }
    // a oneway call travels on its own connection and may be executed after the call that follows
    // it: the log is compared as a multiset
    v.sort_by(|a, b| a.render().as_bytes().cmp(b.render().as_bytes()));
    (v, calls.len())
}

/// wait until the services have logged `want` calls (all forwarded calls are known to be on their way)
fn wait_logged(handles: &[ServiceHandle], want: usize) {
    let t0 = Instant::now();
    loop {
        let n: usize = handles.iter().map(|h| h.calls.lock().unwrap().iter().filter(|c| c.as_list().unwrap()[0].as_str().as_deref() != Some(SENTINEL_IFACE)).count()).sum();
        if n >= want || t0.elapsed() > Duration::from_millis(2000) {
            return;
        }
        std::thread::sleep(Duration::from_millis(2));
    }
}

fn script_names(w: &WorldSpec) -> Vec<String> {
    let l = w.svc.as_list().unwrap();
    l[5].as_list().unwrap()[1..]
        .iter()
        .filter_map(|i| {
            let il = i.as_list()?;
            let k = il[0].as_atom()?;
            if k == "script" || k == "script-avail" {
                il[1].as_str()
            } else {
                None
            }
        })
        .filter(|n| n != SENTINEL_IFACE)
        .collect()
}

fn settle_logs(handles: &[ServiceHandle], quiet_ms: u64) {
    let total = |hs: &[ServiceHandle]| -> usize { hs.iter().map(|h| h.calls.lock().unwrap().len() + h.up_seen.lock().unwrap().len()).sum() };
    let mut last = total(handles);
    let mut since = Instant::now();
    let t0 = Instant::now();
    loop {
        std::thread::sleep(Duration::from_millis(3));
        let n = total(handles);
        if n != last {
            last = n;
            since = Instant::now();
        }
        if since.elapsed() > Duration::from_millis(quiet_ms) || t0.elapsed() > Duration::from_millis(800) {
            return;
        }
    }
}

struct DirectRun {
    out: Vec<u8>,
    raw: Vec<u8>,
    /// did the service still answer a call appended after the session (`open`) or had it closed the connection?
    end: &'static str,
}

/// one direct connection: the frames, then (after the replies are in) the payload, then half-close
fn direct_run(address: &str, frames: &[Vec<u8>], payload: &Option<Vec<Vec<u8>>>, is_resolver: bool) -> Option<DirectRun> {
    let mut stream = connect_retry(address, Duration::from_secs(2))?;
    let (r, mut w) = stream.split().ok()?;
    let coll = Collector::start(r);
    let raw_fd = stream.as_raw_fd();
    let ends_upgraded = frames.last().map(|f| frame_flags(f).1).unwrap_or(false);
    let mut all = Vec::new();
    for f in frames {
        all.extend_from_slice(f);
        all.push(0);
    }
    // a last call whose reply is recognisable: is the connection still served after the session?
    let nonce = format!("d{}", std::process::id());
    let needle: String;
    if is_resolver {
        needle = format!("\"interface\":\"zz.probe.{}\"", nonce);
        if !ends_upgraded {
            all.extend_from_slice(&serde_json::to_vec(&json!({"method":"org.varlink.resolver.Resolve","parameters":{"interface":format!("zz.probe.{}", nonce)}})).unwrap());
            all.push(0);
        }
    } else {
        needle = format!("\"sentinel\":\"{}\"", nonce);
        if !ends_upgraded {
            all.extend_from_slice(&sentinel_frame(&nonce));
            all.push(0);
        }
    }
    let _ = w.write_all(&all);
    let _ = w.flush();
    let mut boundary = None;
    if ends_upgraded {
        // wait for the reply groups, then send the payload (never pipelined behind the upgrade:
        // the listen loop of the library drops bytes it has buffered at that point)
        let mut pos = 0usize;
        let mut ok = true;
        for f in frames {
            let (oneway, upgrade) = frame_flags(f);
            if oneway {
                continue;
            }
            let p0 = pos;
            if !coll.wait(STEP_WAIT, |b| group_end(b, p0, upgrade).is_some()) {
                ok = false;
                break;
            }
            pos = group_end(&coll.snapshot(), p0, upgrade).unwrap();
        }
        if ok {
            boundary = Some(pos);
            if let Some(chunks) = payload {
                let mut sent = 0;
                for c in chunks {
                    let _ = w.write_all(c);
                    let _ = w.flush();
                    sent += c.len();
                    let want = pos + sent;
                    coll.wait(Duration::from_millis(400), |b| b.len() >= want);
                }
            }
        }
    }
    unsafe {
        libc::shutdown(raw_fd, libc::SHUT_WR);
    }
    let t0 = Instant::now();
    while !coll.is_eof() && t0.elapsed() < Duration::from_secs(4) {
        std::thread::sleep(Duration::from_millis(1));
    }
    let b = coll.snapshot();
    if ends_upgraded {
        let cut = boundary.unwrap_or(b.len());
        return Some(DirectRun { out: b[..cut].to_vec(), raw: b[cut..].to_vec(), end: "open" });
    }
    // cut the probe's reply out
    let (out, seen) = match find_sub(&b, needle.as_bytes()) {
        None => (b.clone(), false),
        Some(p) => {
            let start = b[..p].iter().rposition(|x| *x == 0).map(|i| i + 1).unwrap_or(0);
            let end = b[p..].iter().position(|x| *x == 0).map(|i| p + i + 1).unwrap_or(b.len());
            let mut v = b[..start].to_vec();
            v.extend_from_slice(&b[end..]);
            (v, true)
        }
    };
    Some(DirectRun { out, raw: Vec::new(), end: if seen { "open" } else { "closed" } })
}

fn run_proxy(ctx: &Ctx, l: &[Sx]) -> Sx {
    let c = parse_case(l);
    let sub = Subst::new(ctx, "b");
    let tag = mode_tag(&c.mode);
    let helper = helper_path();
    let cli = varlink_cli_path();

    // the world
    let table: Vec<(String, Vec<String>)> = c.rtable.iter().map(|(i, a)| (i.clone(), a.iter().map(|x| sub.apply(x)).collect())).collect();
    let resolver_addr = format!("unix:{}/resolver.sock", sub.dir);
    let mut handles: Vec<ServiceHandle> = Vec::new();
    for (k, w) in c.worlds.iter().enumerate() {
        handles.push(spawn_service(w, &service_address(&sub, k)));
    }
    let resolver = spawn_service(&resolver_world(&table), &resolver_addr);
    for (k, w) in c.worlds.iter().enumerate() {
        std::fs::write(format!("{}/spec{}", sub.dir, k), w.to_sx().render() + "\n").unwrap();
    }

    // the bridge
    let mut cmd = Command::new(&cli);
    cmd.arg("-R").arg(&resolver_addr);
    let mut extra_pid_files: Vec<String> = Vec::new();
    match tag.as_str() {
        "resolver" => {
            cmd.arg("bridge");
        }
        "bridge2" => {
            cmd.arg("-b").arg(format!("exec {} -R {} bridge", cli, resolver_addr)).arg("bridge");
        }
        "connect" => {
            let a = sub.apply(&c.mode.as_list().unwrap()[1].as_str().unwrap());
            cmd.arg("bridge").arg("--connect").arg(a);
        }
        "activate" => {
            let k = c.mode.as_list().unwrap()[1].as_usize().unwrap();
            let dump = format!("{}/dump{}.json", sub.dir, k);
            // the service prints a banner on its stdout: that must never reach the client's reply stream
            cmd.arg("-A").arg(format!("{} serve {}/spec{} $VARLINK_ADDRESS --idle 3 --dump {} --banner", helper, sub.dir, k, dump)).arg("bridge");
            extra_pid_files.push(dump);
        }
        "bridgecmd" => {
            let k = c.mode.as_list().unwrap()[1].as_usize().unwrap();
            let dump = format!("{}/dump{}.json", sub.dir, k);
            cmd.arg("-b").arg(format!("exec {} stdio {}/spec{} --dump {}", helper, sub.dir, k, dump)).arg("bridge");
            extra_pid_files.push(dump);
        }
        other => panic!("mode {}", other),
    }
    cmd.env_remove("RUST_BACKTRACE");
    cmd.stdin(Stdio::piped()).stdout(Stdio::piped()).stderr(Stdio::null());
    let mut child = cmd.spawn().expect("spawn varlink");
    let mut stdin = child.stdin.take().map(AsyncWriter::new);
    let coll = if c.client == "slowread" {
        Collector::start_delayed(child.stdout.take().unwrap(), Duration::from_millis(700))
    } else {
        Collector::start(child.stdout.take().unwrap())
    };
    let mut guard = ChildGuard::new(child);

    let direct_mode = tag == "connect" || tag == "activate" || tag == "bridgecmd";
    let pipeline_payload = c.client == "pipelined" && (tag == "resolver" || tag == "bridge2");
    let mut res = drive(&mut stdin, &coll, &c.frames, &c.payload, &c.client, true, pipeline_payload, &c.tail);
    if c.client == "sigcont" && res.end == "open" && !c.frames.last().map(|f| frame_flags(f).1).unwrap_or(false) {
        // stop and continue the idle bridge (job control): its blocked reads and waits are interrupted
        // (EINTR); it must go on serving
        if let Some(pid) = guard.child.as_ref().map(|c| c.id() as i32) {
            unsafe {
                libc::kill(pid, libc::SIGSTOP);
            }
            std::thread::sleep(Duration::from_millis(30));
            unsafe {
                libc::kill(pid, libc::SIGCONT);
            }
            std::thread::sleep(Duration::from_millis(30));
        }
        let nonce2 = format!("m{}", std::process::id());
        let mut m = sentinel_frame(&nonce2);
        m.push(0);
        if let Some(w) = stdin.as_mut() {
            let _ = w.write_all(&m);
        }
        let needle = format!("\"sentinel\":\"{}\"", nonce2);
        let seen = coll.wait(STEP_WAIT, |b| find_sub(b, needle.as_bytes()).map(|p| b[p..].contains(&0)).unwrap_or(false));
        if !seen {
            res.end = if coll.is_eof() { "closed" } else { "timeout" };
        }
    }
    let st = if c.client == "svcexit" {
        // the service goes away while the client keeps its side open: the bridge must stop by itself
        for f in &extra_pid_files {
            if let Some(d) = read_dump(f, Duration::from_millis(500)) {
                if let Some(p) = d["pid"].as_i64() {
                    if p > 1 {
                        unsafe {
                            libc::kill(p as i32, libc::SIGKILL);
                        }
                    }
                }
            }
        }
        let st = guard.wait_timeout(EXIT_WAIT);
        drop(stdin);
        if st.is_none() {
            let _ = guard.wait_timeout(Duration::from_millis(500));
        }
        st // None is reported as `timeout`: the bridge outlived its service
    } else {
        // the client closes its side
        drop(stdin);
        guard.wait_timeout(EXIT_WAIT)
    };
    // grandchildren (the activated / bridge-command service) are not killed by anybody else
    for f in &extra_pid_files {
        if let Some(d) = read_dump(f, Duration::from_millis(if st.is_some() { 50 } else { 500 })) {
            if let Some(p) = d["pid"].as_i64() {
                guard.extra_pids.push(p as i32);
            }
        }
    }
    let mut exit = exit_sx(st);
    if st.is_some() {
        // everything the bridge wrote before it exited
        let t0 = Instant::now();
        while !coll.is_eof() && t0.elapsed() < Duration::from_millis(500) {
            std::thread::sleep(Duration::from_millis(1));
        }
    }
    drop(guard);

    // the final output (after exit more may have arrived), cut at the boundary found during the session
    let (bridged_out, bridged_raw) = {
        let nonce = format!("n{}", std::process::id());
        let (b, _) = strip_sentinel(&coll.snapshot(), &nonce);
        let (b, _) = strip_sentinel(&b, &format!("m{}", std::process::id()));
        let cut = std::cmp::min(res.boundary.unwrap_or(b.len()), b.len());
        (unapply_bytes(&sub, &b[..cut]), b[cut..].to_vec())
    };

    // what the services saw through the bridge (a oneway call is executed some time after it was forwarded)
    let quiet_ms = if c.frames.iter().any(|f| frame_flags(f).0) { 120 } else { 25 };
    let routes = route_all(&c, &sub);
    if res.end == "open" && !direct_mode {
        // every request was forwarded: the number of calls the scripted interfaces will log is known
        let want = routes
            .iter()
            .filter(|(t, f)| match t {
                Target::Svc(k) => serde_json::from_slice::<varlink::Request>(f)
                    .ok()
                    .and_then(|r| r.method.rfind('.').map(|n| r.method[..n].to_string()))
                    .map(|i| script_names(&c.worlds[*k]).contains(&i))
                    .unwrap_or(false),
                Target::Resolver => false,
            })
            .count();
        wait_logged(&handles, want);
    }
    settle_logs(&handles, quiet_ms);
    let mut marks = Vec::new();
    let mut blog = Vec::new();
    for (k, h) in handles.iter().enumerate() {
        let (v, n) = log_sx(h, 0);
        marks.push(n);
        if !v.is_empty() {
            let mut e = vec![sx::nat(k)];
            e.extend(v);
            blog.push(sx::list(e));
        }
    }
    let up_bridged: Vec<u8> = handles.iter().flat_map(|h| h.up_seen.lock().unwrap().clone()).collect();
    let up_marks: Vec<usize> = handles.iter().map(|h| h.up_seen.lock().unwrap().len()).collect();

    // the direct runs
    let nsvc = c.worlds.len();
    let mut direct = Vec::new();
    let mut direct_replies: Vec<Sx> = Vec::new(); // of the single target of the pump modes
    let mut direct_closed = false; // did a service close its direct connection?
    for t in 0..=nsvc {
        let target = if t == nsvc { Target::Resolver } else { Target::Svc(t) };
        let mine: Vec<Vec<u8>> = routes.iter().filter(|r| r.0 == target).map(|r| r.1.clone()).collect();
        if mine.is_empty() {
            continue;
        }
        let address = if t == nsvc { resolver_addr.clone() } else { service_address(&sub, t) };
        // the payload belongs to the service the last (upgrading) request goes to
        let pl = if routes.last().map(|r| r.0 == target).unwrap_or(false) { c.payload.clone() } else { None };
        let r = direct_run(&address, &mine, &pl, t == nsvc);
        if let Some(d) = &r {
            direct_replies.extend(wire::split_replies(&unapply_bytes(&sub, &d.out)));
            if d.end == "closed" {
                direct_closed = true;
            }
        }
        direct.push(match r {
            Some(d) => sx::list(vec![sx::nat(t), sx::tagged("out", wire::split_replies(&unapply_bytes(&sub, &d.out))), sx::bs(&d.raw), sx::atom(d.end)]),
            None => sx::list(vec![sx::nat(t), sx::tagged("fail", vec![]), sx::bs(&[]), sx::atom("closed")]),
        });
    }
    settle_logs(&handles, quiet_ms);
    let mut dlog = Vec::new();
    for (k, h) in handles.iter().enumerate() {
        let (v, _) = log_sx(h, marks[k]);
        if !v.is_empty() {
            let mut e = vec![sx::nat(k)];
            e.extend(v);
            dlog.push(sx::list(e));
        }
    }
    let up_direct: Vec<u8> = handles.iter().enumerate().flat_map(|(k, h)| h.up_seen.lock().unwrap()[up_marks[k]..].to_vec()).collect();

    let log = if direct_mode {
        sx::atom("-") // the service behind -A / -b is another process
    } else {
        sx::tagged("log", vec![sx::tagged("bridged", blog), sx::tagged("direct", dlog)])
    };
    let upseen = if direct_mode {
        sx::tagged("upseen", vec![sx::atom("-"), sx::atom("-")])
    } else {
        sx::tagged("upseen", vec![sx::bs(&up_bridged), sx::bs(&up_direct)])
    };
    drop(handles);
    drop(resolver);
    let _ = std::fs::remove_dir_all(&sub.dir);
    if direct_mode && direct_closed {
        // the service closes the connection (the direct run shows it): the pump stops; whether it
        // then sees the end of the stream (status 0) or a reset / broken pipe because the service left
        // input unread (status 1, an I/O error) is a race between its read/write and the service's close()
        if let Sx::Atom(a) = &exit {
            if a == "0" || a == "1" {
                exit = sx::atom("closed-by-service");
            }
        }
    }
    if tag == "bridge2" && c.client != "closeearly" && res.end == "closed" {
        // the inner bridge stopped by itself (a service dropped its connection): the outer pump ends
        // with status 0, or with 1 when it was still writing pipelined requests into the inner bridge's
        // stdin at that moment (broken pipe) — the same race, folded into the same token
        if let Sx::Atom(a) = &exit {
            if a == "0" || a == "1" {
                exit = sx::atom("closed-by-service");
            }
        }
    }
    let panicked = matches!(&exit, Sx::Atom(a) if a == "101");
    // kept for replaying old observations: since aebf686 (half-close) the replies of a closeearly
    // session behind a pump are complete and deterministic, the full list is printed
    let prefix_form = false;
    let prefix_ok = {
        let got: Vec<String> = wire::split_replies(&bridged_out).iter().map(|r| r.render()).collect();
        let want: Vec<String> = direct_replies.iter().map(|r| r.render()).collect();
        bridged_raw.is_empty() && got.len() <= want.len() && got[..] == want[..got.len()]
    };
    sx::tagged(
        "obs",
        vec![
            if panicked {
                // the main thread died while the copy threads were running: what got through is a race
                sx::tagged("bridged", vec![sx::atom("panicked")])
            } else if prefix_form {
                sx::tagged("bridged", vec![sx::tagged("prefix", vec![sx::boolean(prefix_ok)]), sx::atom(res.end)])
            } else {
                sx::tagged("bridged", vec![sx::tagged("out", wire::split_replies(&bridged_out)), sx::bs(&bridged_raw), sx::atom(res.end)])
            },
            sx::tagged("exit", vec![exit]),
            sx::tagged("direct", direct),
            log,
            upseen,
        ],
    )
}

fn run_raceprobe(ctx: &Ctx, l: &[Sx]) -> Sx {
    let n = l[1].as_usize().unwrap();
    let sub = Subst::new(ctx, "r");
    let w = WorldSpec { svc: wire::svc_cfg("race", &[], false).sx, resolver: None, up: true, seq: false };
    let addr = service_address(&sub, 0);
    let h = spawn_service(&w, &addr);
    let table = vec![("org.example.abort".to_string(), vec![addr.clone()])];
    let resolver_addr = format!("unix:{}/resolver.sock", sub.dir);
    let r = spawn_service(&resolver_world(&table), &resolver_addr);
    let mut lost = 0;
    for i in 0..n {
        let mut child = Command::new(varlink_cli_path())
            .arg("-R")
            .arg(&resolver_addr)
            .arg("bridge")
            .stdin(Stdio::piped())
            .stdout(Stdio::piped())
            .stderr(Stdio::null())
            .spawn()
            .expect("spawn varlink");
        let mut stdin = child.stdin.take();
        let coll = Collector::start(child.stdout.take().unwrap());
        let mut guard = ChildGuard::new(child);
        let mut f = serde_json::to_vec(&json!({"method":"org.example.abort.ReplyThenAbort","parameters":{"delay_ms":0,"token":format!("p{}", i)}})).unwrap();
        f.push(0);
        if let Some(s) = stdin.as_mut() {
            let _ = s.write_all(&f);
            let _ = s.flush();
        }
        coll.wait(Duration::from_millis(800), |b| b.contains(&0));
        drop(stdin);
        let _ = guard.wait_timeout(Duration::from_millis(800));
        if !coll.snapshot().contains(&0) {
            lost += 1;
        }
    }
    drop(h);
    drop(r);
    let _ = std::fs::remove_dir_all(&sub.dir);
    sx::tagged("raceprobe", vec![sx::atom(if lost > 0 { "lost" } else { "kept" })])
}

fn run_closeprobe(ctx: &Ctx, l: &[Sx]) -> Sx {
    let n = l[1].as_usize().unwrap();
    let sub = Subst::new(ctx, "q");
    let w = WorldSpec { svc: wire::svc_cfg("close", &[("org.example.a", "a")], false).sx, resolver: None, up: false, seq: false };
    std::fs::write(format!("{}/spec", sub.dir), w.to_sx().render() + "\n").unwrap();
    let mut cut = 0;
    for i in 0..n {
        let dump = format!("{}/dump{}.json", sub.dir, i);
        let mut child = Command::new(varlink_cli_path())
            .arg("-A")
            .arg(format!("{} serve {}/spec $VARLINK_ADDRESS --idle 2 --dump {}", helper_path(), sub.dir, dump))
            .arg("bridge")
            .stdin(Stdio::piped())
            .stdout(Stdio::piped())
            .stderr(Stdio::null())
            .spawn()
            .expect("spawn varlink");
        let mut stdin = child.stdin.take();
        let coll = Collector::start(child.stdout.take().unwrap());
        let mut guard = ChildGuard::new(child);
        let mut f = serde_json::to_vec(&json!({"method":"org.example.a.Run","parameters":{"script":[{"op":"reply","p":{"i":i}}],"token":"probe"}})).unwrap();
        f.push(0);
        if let Some(s) = stdin.as_mut() {
            let _ = s.write_all(&f);
            let _ = s.flush();
        }
        drop(stdin); // right after the request
        let _ = guard.wait_timeout(EXIT_WAIT);
        let t0 = Instant::now();
        while !coll.is_eof() && t0.elapsed() < Duration::from_millis(500) {
            std::thread::sleep(Duration::from_millis(1));
        }
        if !coll.snapshot().contains(&0) {
            cut += 1;
        }
        if let Some(d) = read_dump(&dump, Duration::from_millis(50)) {
            if let Some(p) = d["pid"].as_i64() {
                guard.extra_pids.push(p as i32);
            }
        }
    }
    let _ = std::fs::remove_dir_all(&sub.dir);
    sx::tagged("closeprobe", vec![sx::atom(if cut > 0 { "cut" } else { "complete" })])
}

/// `(goneprobe <variant>)`: the client talks to the bridge over two PIPES (a parent process, a shell
/// pipeline; not a socket) and goes away while the service is silent and a call is pending:
///   resolver-stream   `-R … bridge`, a `more` call whose first reply has arrived; the client closes both pipes
///   resolver-slow     `-R … bridge`, a call that is not answered yet; the client closes both pipes
///   connect-readside  `bridge --connect`, pending call; the client closes only the pipe it READS from
///   activate-readside `-A … bridge`, the same
/// When either side closes the bridge stops: it must have exited long before the service says anything.
///   -> (goneprobe stopped|running)
fn run_goneprobe(ctx: &Ctx, l: &[Sx]) -> Sx {
    let variant = l[1].as_atom().unwrap_or("").to_string();
    let sub = Subst::new(ctx, "g");
    let w = WorldSpec { svc: wire::svc_cfg("gone", &[], false).sx, resolver: None, up: true, seq: false };
    let addr = service_address(&sub, 0);
    let table = vec![("org.example.abort".to_string(), vec![addr.clone()])];
    let resolver_addr = format!("unix:{}/resolver.sock", sub.dir);
    let mut services = Vec::new();
    let mut cmd = Command::new(varlink_cli_path());
    let mut dump = None;
    match variant.as_str() {
        "connect-readside" => {
            services.push(spawn_service(&w, &addr));
            cmd.arg("bridge").arg("--connect").arg(&addr);
        }
        "activate-readside" => {
            std::fs::write(format!("{}/spec", sub.dir), w.to_sx().render() + "\n").unwrap();
            let d = format!("{}/dump.json", sub.dir);
            cmd.arg("-A").arg(format!("{} serve {}/spec $VARLINK_ADDRESS --idle 3 --dump {}", helper_path(), sub.dir, d)).arg("bridge");
            dump = Some(d);
        }
        _ => {
            services.push(spawn_service(&w, &addr));
            services.push(spawn_service(&resolver_world(&table), &resolver_addr));
            cmd.arg("-R").arg(&resolver_addr).arg("bridge");
        }
    }
    const SILENCE_MS: u64 = 2500;
    let mut child = cmd.stdin(Stdio::piped()).stdout(Stdio::piped()).stderr(Stdio::null()).spawn().expect("spawn varlink");
    let mut stdin = child.stdin.take();
    let mut stdout = child.stdout.take();
    let mut guard = ChildGuard::new(child);
    let stream = variant == "resolver-stream";
    let mut f = if stream {
        serde_json::to_vec(&json!({"method":"org.example.abort.SlowStream","more":true,"parameters":{"delay_ms":SILENCE_MS,"token":"gone"}})).unwrap()
    } else {
        serde_json::to_vec(&json!({"method":"org.example.abort.SlowReply","parameters":{"delay_ms":SILENCE_MS,"token":"gone"}})).unwrap()
    };
    f.push(0);
    if let Some(s) = stdin.as_mut() {
        let _ = s.write_all(&f);
        let _ = s.flush();
    }
    let mut started = true;
    if stream {
        // wait for the first reply
        started = false;
        if let Some(o) = stdout.as_mut() {
            let fd = o.as_raw_fd();
            let mut pfd = libc::pollfd { fd, events: libc::POLLIN, revents: 0 };
            let mut got = Vec::new();
            let t0 = Instant::now();
            while t0.elapsed() < Duration::from_millis(2000) && !got.contains(&0) {
                let r = unsafe { libc::poll(&mut pfd, 1, 100) };
                if r > 0 {
                    let mut buf = [0u8; 4096];
                    match o.read(&mut buf) {
                        Ok(0) | Err(_) => break,
                        Ok(n) => got.extend_from_slice(&buf[..n]),
                    }
                }
            }
            started = got.contains(&0);
        }
    } else {
        // the request is with the service by now (the activated service has to start first)
        std::thread::sleep(Duration::from_millis(if dump.is_some() { 500 } else { 300 }));
    }
    // the client goes away
    drop(stdout.take());
    if variant.starts_with("resolver") {
        drop(stdin.take());
    }
    let stopped = guard.wait_timeout(Duration::from_millis(1200)).is_some();
    if let Some(d) = &dump {
        if let Some(v) = read_dump(d, Duration::from_millis(50)) {
            if let Some(p) = v["pid"].as_i64() {
                guard.extra_pids.push(p as i32);
            }
        }
    }
    drop(stdin);
    drop(guard);
    drop(services);
    let _ = std::fs::remove_dir_all(&sub.dir);
    sx::tagged("goneprobe", vec![sx::atom(if !started { "no-first-reply" } else if stopped { "stopped" } else { "running" })])
}

/// `(sessprobe <variant>)`: resolver-mode sessions that need a special world
///   long      one session of 150 calls with the bridge limited to 128 open descriptors (RLIMIT_NOFILE):
///             nothing may be used up per call              -> (sessprobe (answered 150) (exit 0))
///   downup    a call to an interface whose service is down (answered InterfaceNotFound by the bridge), then
///             the service comes up and the SAME interface is called again (no other interface in between):
///             a direct client is answered now               -> (sessprobe (replies notfound ok) (exit 0))
///   reset     the service closes the connection with the request unread (connection reset): an I/O error,
///             the bridge stops by itself and does not report success -> (sessprobe (stops t) (exit 1))
fn run_sessprobe(ctx: &Ctx, l: &[Sx]) -> Sx {
    let variant = l[1].as_atom().unwrap_or("").to_string();
    let sub = Subst::new(ctx, "y");
    let w = WorldSpec { svc: wire::svc_cfg("sess", &[], false).sx, resolver: None, up: true, seq: false };
    let addr = service_address(&sub, 0);
    let table = vec![("org.example.abort".to_string(), vec![addr.clone()])];
    let resolver_addr = format!("unix:{}/resolver.sock", sub.dir);
    let mut services = Vec::new();
    services.push(spawn_service(&resolver_world(&table), &resolver_addr));
    let mut raw_listener = None;
    match variant.as_str() {
        "downup" => {}
        "reset" => {
            // not a varlink service: accepts and closes without reading
            let l = std::os::unix::net::UnixListener::bind(addr.trim_start_matches("unix:")).expect("bind raw");
            let l2 = l.try_clone().unwrap();
            std::thread::spawn(move || {
                while let Ok((s, _)) = l2.accept() {
                    std::thread::sleep(Duration::from_millis(150));
                    drop(s);
                }
            });
            raw_listener = Some(l);
        }
        _ => services.push(spawn_service(&w, &addr)),
    }
    let mut cmd = Command::new(varlink_cli_path());
    cmd.arg("-R").arg(&resolver_addr).arg("bridge");
    cmd.stdin(Stdio::piped()).stdout(Stdio::piped()).stderr(Stdio::null());
    if variant == "long" {
        use std::os::unix::process::CommandExt;
        unsafe {
            cmd.pre_exec(|| {
                let lim = libc::rlimit { rlim_cur: 128, rlim_max: 128 };
                if libc::setrlimit(libc::RLIMIT_NOFILE, &lim) != 0 {
                    return Err(std::io::Error::last_os_error());
                }
                Ok(())
            });
        }
    }
    let mut child = cmd.spawn().expect("spawn varlink");
    let mut stdin = child.stdin.take();
    let coll = Collector::start(child.stdout.take().unwrap());
    let mut guard = ChildGuard::new(child);
    let call = |i: usize| {
        let mut f = serde_json::to_vec(&json!({"method":"org.example.abort.SlowReply","parameters":{"delay_ms":0,"token":format!("s{}", i)}})).unwrap();
        f.push(0);
        f
    };
    let send = |stdin: &mut Option<std::process::ChildStdin>, b: &[u8]| {
        if let Some(s) = stdin.as_mut() {
            let _ = s.write_all(b);
            let _ = s.flush();
        }
    };
    let exit_sx = |st: Option<std::process::ExitStatus>| match st {
        None => sx::atom("timeout"),
        Some(st) => match st.code() {
            Some(c) => sx::atom(&format!("{}", c)),
            None => sx::atom("signal"),
        },
    };
    let res = match variant.as_str() {
        "long" => {
            const N: usize = 150;
            for i in 0..N {
                send(&mut stdin, &call(i));
                // in step: every call is a connection of its own
                coll.wait(STEP_WAIT, |b| nul_count(b) > i);
                if coll.is_eof() {
                    break;
                }
            }
            let b = coll.snapshot();
            let good = wire::split_replies(&b).iter().filter(|r| r.render().contains(&sx::xs("slow").render())).count();
            drop(stdin.take());
            let st = guard.wait_timeout(EXIT_WAIT);
            vec![sx::tagged("answered", vec![sx::nat(good)]), sx::tagged("exit", vec![exit_sx(st)])]
        }
        "downup" => {
            send(&mut stdin, &call(0));
            coll.wait(STEP_WAIT, |b| nul_count(b) >= 1);
            services.push(spawn_service(&w, &addr));
            // the service is up when it can be connected to
            drop(connect_retry(&addr, Duration::from_secs(3)));
            send(&mut stdin, &call(2));
            coll.wait(STEP_WAIT, |b| nul_count(b) >= 2);
            let b = coll.snapshot();
            let kinds: Vec<Sx> = wire::split_replies(&b)
                .iter()
                .map(|r| {
                    let t = r.render();
                    if t.contains(&sx::xs("org.varlink.service.InterfaceNotFound").render()) {
                        sx::atom("notfound")
                    } else if t.contains(&sx::xs("slow").render()) {
                        sx::atom("ok")
                    } else {
                        sx::atom("other")
                    }
                })
                .collect();
            drop(stdin.take());
            let st = guard.wait_timeout(EXIT_WAIT);
            vec![sx::tagged("replies", kinds), sx::tagged("exit", vec![exit_sx(st)])]
        }
        _ => {
            send(&mut stdin, &call(0));
            // the bridge must stop by itself: the client keeps its side open
            let st = guard.wait_timeout(Duration::from_millis(2000));
            let stopped = st.is_some();
            drop(stdin.take());
            let st = if stopped { st } else { guard.wait_timeout(EXIT_WAIT) };
            vec![sx::tagged("stops", vec![sx::boolean(stopped)]), sx::tagged("exit", vec![exit_sx(st)])]
        }
    };
    drop(guard);
    drop(services);
    drop(raw_listener);
    let _ = std::fs::remove_dir_all(&sub.dir);
    sx::tagged("sessprobe", res)
}

// ---------------------------------------------------------------------------
// generators

fn with_sentinel(cfg: &wire::SvcCfg) -> Sx {
    // append the sentinel interface to a wire service configuration
    let l = cfg.sx.as_list().unwrap();
    let mut ifaces = l[5].as_list().unwrap().to_vec();
    ifaces.insert(1, sx::tagged("script", vec![sx::xs(SENTINEL_IFACE), sx::xs("sentinel")]));
    sx::list(vec![l[0].clone(), l[1].clone(), l[2].clone(), l[3].clone(), l[4].clone(), sx::list(ifaces)])
}

struct GenWorld {
    worlds: Vec<WorldSpec>,
    rtable: Vec<(String, Vec<String>)>,
    /// (interface, service index) of the script interfaces that can be called
    scripts: Vec<(String, usize)>,
    gen_at: Option<usize>,
}

fn gen_world(rng: &mut Rng) -> GenWorld {
    // service 0: scripted A + vtest + up/abort; service 1: scripted B (+ shared prefix names); service 2 optional
    let c0 = wire::svc_cfg("w0", &[("org.example.a", "interface org.example.a\nmethod Run() -> ()\n"), ("a.b", "desc a.b")], true);
    let c1 = wire::svc_cfg("w1", &[("org.example.b", "desc b"), ("a.b.c", "desc a.b.c")], false);
    let c2 = wire::svc_cfg("w2", &[("x.y1", "desc x.y1")], false);
    let n = if rng.chance(1, 3) { 3 } else { 2 };
    let cfgs = [c0, c1, c2];
    let mut worlds = Vec::new();
    let mut rtable: Vec<(String, Vec<String>)> = Vec::new();
    let mut scripts = Vec::new();
    for k in 0..n {
        // one service in four is a single-threaded server (one connection at a time)
        worlds.push(WorldSpec { svc: with_sentinel(&cfgs[k]), resolver: None, up: k == 0, seq: rng.chance(1, 4) });
        for s in &cfgs[k].scripts {
            rtable.push((s.clone(), vec![format!("unix:%D/s{}.sock", k)]));
            scripts.push((s.clone(), k));
        }
    }
    rtable.push(("org.example.vtest".into(), vec!["unix:%D/s0.sock".into()]));
    rtable.push(("org.example.up".into(), vec!["unix:%D/s0.sock".into()]));
    rtable.push(("org.example.abort".into(), vec!["unix:%D/s0.sock".into()]));
    rtable.push((SENTINEL_IFACE.into(), vec!["unix:%D/s0.sock".into()]));
    rtable.push(("org.example.dead".into(), vec!["unix:%D/dead.sock".into()]));
    rtable.push(("org.example.badaddr".into(), vec!["bogus:%D/x".into()]));
    GenWorld { worlds, rtable, scripts, gen_at: Some(0) }
}

fn mk_case(mode: Sx, gw: &GenWorld, client: &str, frames: &[Vec<u8>], payload: Option<&[Vec<u8>]>) -> Sx {
    let mut ws = vec![sx::atom("services")];
    ws.extend(gw.worlds.iter().map(|w| w.to_sx()));
    let mut rt = vec![sx::atom("rtable")];
    for (i, a) in &gw.rtable {
        let mut e = vec![sx::xs(i)];
        e.extend(a.iter().map(|x| sx::xs(x)));
        rt.push(sx::list(e));
    }
    let mut items = vec![sx::atom("session")];
    let mut total = Vec::new();
    for f in frames {
        items.push(sx::tagged("rq", vec![sx::bs(f)]));
        total.extend_from_slice(f);
        total.push(0);
    }
    if let Some(p) = payload {
        let mut l = vec![sx::atom("payload")];
        l.extend(p.iter().map(|c| sx::bs(c)));
        items.push(sx::list(l));
    }
    sx::tagged("proxy", vec![mode, sx::list(ws), sx::list(rt), sx::atom(client), sx::list(items), wire::dec_table(&total)])
}

/// a request that a *proper* service answers deterministically (continues* + final, or nothing when
/// oneway) and that keeps the connection open — the hypotheses of C18_transparent_partial
fn gen_good_request(rng: &mut Rng, gw: &GenWorld, tok: &str, tags: &mut Vec<String>) -> Vec<u8> {
    let p = |i: usize| json!({"token": tok, "i": i});
    let mut v: Value;
    match rng.below(17) {
        0 => {
            tags.push("req:getinfo".into());
            v = json!({"method":"org.varlink.service.GetInfo"});
        }
        15 => {
            // the calls the bridge redirects / answers itself, with flags: a oneway call is never answered,
            // `more` changes nothing for a method with one reply
            let flag = *rng.pick(&["oneway", "oneway", "more"]);
            tags.push(format!("req:builtin-{}", flag));
            v = match rng.below(3) {
                0 | 1 => json!({"method":"org.varlink.service.GetInfo"}),
                _ => {
                    let names: Vec<String> = gw.scripts.iter().map(|s| s.0.clone()).chain(std::iter::once("org.example.vtest".to_string())).collect();
                    json!({"method":"org.varlink.service.GetInterfaceDescription","parameters":{"interface":rng.pick(&names).clone()}})
                }
            };
            v[flag] = json!(true);
            if rng.chance(1, 4) {
                v["parameters"] = json!({});
            }
        }
        16 => {
            // a stream with an error reply in the middle: `continues` together with `error` is not the end
            tags.push("req:script-stream-mid-error".into());
            let s = rng.pick(&gw.scripts);
            let k = rng.range(1, 4);
            let at = rng.below(k);
            let mut sc = vec![json!({"op":"cont","v":true})];
            for i in 0..k {
                if i == at {
                    sc.push(json!({"op":"errtry","name":"org.example.Glitch","p":p(i)}));
                } else {
                    sc.push(json!({"op":"replytry","p":p(i)}));
                }
            }
            sc.push(json!({"op":"cont","v":false}));
            if rng.chance(1, 3) {
                sc.push(json!({"op":"err","name":"org.example.Custom","p":p(k)}));
            } else {
                sc.push(json!({"op":"reply","p":p(k)}));
            }
            v = json!({"method": format!("{}.Run", s.0), "more": true, "parameters": {"script": sc, "token": tok}});
        }
        12 => {
            // a final reply whose OUT parameters have a member called `continues` (a paging method):
            // only the top-level member of the reply is the protocol's flag
            tags.push("req:script-continues-param".into());
            let s = rng.pick(&gw.scripts);
            if rng.chance(1, 2) {
                v = json!({"method": format!("{}.Run", s.0), "parameters": {"script": [{"op":"reply","p":{"continues": true, "items": [tok], "token": tok}}], "token": tok}});
            } else {
                v = json!({"method": format!("{}.Run", s.0), "more": true, "parameters": {"script": [
                    {"op":"cont","v":true}, {"op":"reply","p":{"continues": false, "token": tok}}, {"op":"cont","v":false},
                    {"op":"reply","p":{"continues": true, "token": tok}}], "token": tok}});
            }
        }
        13 => {
            // a reply larger than the 8 KiB buffers of the bridge, written by the service in one go
            tags.push("req:big-reply".into());
            let s = rng.pick(&gw.scripts);
            let n = *rng.pick(&[8100usize, 9000, 20000, 70000]);
            v = json!({"method": format!("{}.Run", s.0), "parameters": {"script": [{"op":"reply","p":{"pad": "r".repeat(n), "token": tok}}], "token": tok}});
        }
        14 => {
            // a request larger than the 8 KiB buffers
            tags.push("req:big-request".into());
            let s = rng.pick(&gw.scripts);
            let n = *rng.pick(&[8100usize, 9000, 20000, 70000]);
            v = json!({"method": format!("{}.Run", s.0), "parameters": {"pad": "q".repeat(n), "script": [{"op":"reply","p":p(0)}], "token": tok}});
        }
        1 => {
            tags.push("req:getdesc".into());
            let names: Vec<String> = gw.scripts.iter().map(|s| s.0.clone()).chain(std::iter::once("org.example.vtest".to_string())).collect();
            let n = rng.pick(&names).clone();
            v = if rng.chance(1, 4) {
                json!({"method":"org.varlink.service.GetInterfaceDescription","parameters":[n]})
            } else {
                json!({"method":"org.varlink.service.GetInterfaceDescription","parameters":{"interface":n,"extra":tok}})
            };
        }
        2 => {
            tags.push("req:gen".into());
            let m = *rng.pick(&["Echo", "Stream", "Fail", "Opt", "NoArgs", "Missing"]);
            v = json!({"method": format!("org.example.vtest.{}", m), "parameters": {"token": tok, "n": rng.below(4)}});
            if m == "Stream" && rng.chance(2, 3) {
                v["more"] = json!(true);
            }
        }
        3 => {
            tags.push("req:script-nx".into());
            let s = rng.pick(&gw.scripts);
            v = json!({"method": format!("{}.Nx{}", s.0, tok)});
        }
        4 => {
            tags.push("req:script-err".into());
            let s = rng.pick(&gw.scripts);
            v = json!({"method": format!("{}.Run", s.0), "parameters": {"script": [{"op":"err","name":"org.example.Custom","p":p(0)}], "token": tok}});
        }
        5 | 6 => {
            tags.push("req:script-stream".into());
            let s = rng.pick(&gw.scripts);
            let k = rng.below(4);
            let mut sc = vec![json!({"op":"cont","v":true})];
            for i in 0..k {
                sc.push(json!({"op":"reply","p":p(i)}));
            }
            sc.push(json!({"op":"cont","v":false}));
            sc.push(json!({"op":"reply","p":p(k)}));
            v = json!({"method": format!("{}.Run", s.0), "more": true, "parameters": {"script": sc, "token": tok}});
        }
        7 => {
            tags.push("req:script-oneway".into());
            let s = rng.pick(&gw.scripts);
            v = json!({"method": format!("{}.Run", s.0), "oneway": true, "parameters": {"script": [{"op":"reply","p":p(0)}], "token": tok}});
        }
        8 => {
            tags.push("req:svc-unknown-method".into());
            // an unknown method of a *resolvable* interface
            let s = rng.pick(&gw.scripts);
            v = json!({"method": format!("{}.Nxq{}", s.0, tok), "parameters": {"token": tok}});
        }
        _ => {
            tags.push("req:script".into());
            let s = rng.pick(&gw.scripts);
            v = json!({"method": format!("{}.Run", s.0), "parameters": {"script": [{"op":"reply","p":p(0)}], "token": tok}});
            if rng.chance(1, 6) {
                v["more"] = json!(false);
            }
            if rng.chance(1, 8) {
                v["oneway"] = json!(false);
            }
        }
    }
    if rng.chance(1, 10) {
        serde_json::to_vec_pretty(&v).unwrap()
    } else {
        serde_json::to_vec(&v).unwrap()
    }
}

/// requests outside the hypotheses (one class each)
fn gen_hard_request(rng: &mut Rng, gw: &GenWorld, tok: &str, tags: &mut Vec<String>) -> Vec<u8> {
    let v = match rng.below(8) {
        0 => {
            tags.push("hard:unknown-interface".into());
            json!({"method": format!("no.such{}.M", tok), "parameters": {"token": tok}})
        }
        1 => {
            tags.push("hard:nodot".into());
            json!({"method": format!("nodot{}", tok)})
        }
        2 => {
            tags.push("hard:unreachable".into());
            json!({"method": format!("org.example.{}.M", rng.pick(&["dead", "badaddr"]))})
        }
        3 => {
            tags.push("hard:getdesc-noparams".into());
            json!({"method":"org.varlink.service.GetInterfaceDescription"})
        }
        4 => {
            tags.push("hard:getdesc-illtyped".into());
            json!({"method":"org.varlink.service.GetInterfaceDescription","parameters":{"interface":5}})
        }
        5 => {
            tags.push("hard:abort-silent".into());
            json!({"method":"org.example.abort.Silent"})
        }
        6 => {
            tags.push("hard:abort-delayed".into());
            json!({"method":"org.example.abort.ReplyThenAbort","parameters":{"delay_ms":300,"token":tok}})
        }
        _ => {
            tags.push("hard:getdesc-unknown".into());
            json!({"method":"org.varlink.service.GetInterfaceDescription","parameters":{"interface":format!("no.such.{}", tok)}})
        }
    };
    let _ = gw;
    let mut v = v;
    // a oneway call is never answered — also not by the bridge when it would have to answer itself
    let self_answered = tags.iter().any(|t| ["hard:unknown-interface", "hard:nodot", "hard:unreachable", "hard:getdesc-noparams", "hard:getdesc-unknown"].contains(&t.as_str()));
    if self_answered && rng.chance(1, 3) {
        v["oneway"] = json!(true);
        tags.push("hard:oneway".into());
    }
    serde_json::to_vec(&v).unwrap()
}

fn up_frame() -> Vec<u8> {
    serde_json::to_vec(&json!({"method":"org.example.up.Start","upgrade":true})).unwrap()
}

/// an upgrading call after which the SERVICE speaks first: a greeting whose length is (around) a multiple
/// of the 8 KiB copy buffers, with a line feed somewhere in its last KiB (the bridge's stdout is line buffered)
fn up_frame_greeting(rng: &mut Rng) -> Vec<u8> {
    let n = match rng.below(6) {
        0 => 5usize,
        1 => 300,
        2 => {
            let k = rng.range(1, 3);
            (8192 * k as i64 + *rng.pick(&[-1i64, 0, 0, 0, 1])) as usize
        }
        _ => {
            // behind a pump the reply to the upgrading call (27 bytes with its NUL) and the greeting
            // are ONE burst: make that burst a multiple of the copy buffer
            let k = rng.range(1, 3);
            (8192 * k as i64 - 27 + *rng.pick(&[-1i64, 0, 0, 0, 1])) as usize
        }
    };
    let lf_back = *rng.pick(&[0usize, 2, 500, 1022]);
    serde_json::to_vec(&json!({"method":"org.example.up.Start","upgrade":true,"parameters":{"greeting":n,"lf_back":lf_back}})).unwrap()
}

fn gen_payload(rng: &mut Rng) -> Vec<Vec<u8>> {
    if rng.chance(1, 4) {
        // one chunk of exactly k copy buffers whose echo (every byte + 1) has a line feed in its last KiB
        let len = 8192 * rng.range(1, 2);
        let mut c = vec![b'a'; len];
        c[len - *rng.pick(&[2usize, 500, 1022])] = 9;
        return vec![c];
    }
    let n = rng.range(1, 3);
    (0..n)
        .map(|_| {
            let len = rng.range(1, 40);
            (0..len).map(|_| rng.below(256) as u8).collect()
        })
        .collect()
}

impl Suite for ProxySuite {
    fn generate(&self, ctx: &Ctx) -> Vec<Case> {
        let mut rng = Rng::new(ctx.seed ^ 0xb41d6e);
        let mut cases = Vec::new();
        if let Ok(txt) = std::fs::read_to_string(concat!(env!("CARGO_MANIFEST_DIR"), "/corpus/proxy.txt")) {
            for l in txt.lines() {
                if let Some(s) = sx::parse(l) {
                    cases.push(Case { input: s, tags: vec!["corpus".into()] });
                }
            }
        }
        let n = if ctx.thorough { 1500 } else { 200 };
        let mut tok = 0usize;
        for _ in 0..n {
            let gw = gen_world(&mut rng);
            let mut tags: Vec<String> = Vec::new();
            let mode = match rng.below(10) {
                0..=5 => sx::atom("resolver"),
                6 => sx::tagged("activate", vec![sx::nat(rng.below(gw.worlds.len()))]),
                7 => sx::tagged("bridgecmd", vec![sx::nat(rng.below(gw.worlds.len()))]),
                8 => sx::atom("bridge2"),
                _ => sx::tagged("connect", vec![sx::xs(if rng.chance(1, 2) { "unix:%D/s0.sock" } else { "org.example.b" })]),
            };
            let mtag = mode_tag(&mode);
            tags.push(format!("mode:{}", mtag));
            let mut client = *rng.pick(&["pipelined", "pipelined", "stepwise", "stepwise", "closeearly"]);
            if (mtag == "activate" || mtag == "bridgecmd") && rng.chance(1, 5) {
                client = "svcexit";
            }
            if client == "pipelined" && rng.chance(1, 5) {
                client = "sigcont";
            }
            let len = match rng.below(8) {
                0 => 0,
                1..=2 => 1,
                3..=5 => rng.range(2, 5),
                _ => rng.range(6, if ctx.thorough { 30 } else { 12 }),
            };
            if mtag == "bridge2" && client == "closeearly" {
                // what the inner bridge still gets to answer before the outer pump shuts its socket down is a race
                client = "pipelined";
            }
            let hard_at = if rng.chance(1, 4) && len > 0 { rng.below(len) } else { usize::MAX };
            let mut frames = Vec::new();
            let mut upgrade_flag_at: Option<usize> = None;
            for i in 0..len {
                tok += 1;
                let t = format!("k{}z", tok);
                if i == hard_at {
                    let f = gen_hard_request(&mut rng, &gw, &t, &mut tags);
                    // a stepwise client would wait for the reply to a call that the service drops silently
                    // (through the resolver-mode bridge the session goes on, so no EOF ends the wait)
                    let silent = tags.iter().any(|t| t == "hard:abort-silent");
                    if silent && (mtag == "resolver" || mtag == "bridge2") && client == "stepwise" {
                        client = "pipelined";
                    }
                    // behind a pump, a service that closes after a delay while the stepwise client has
                    // already written its next call resets the connection (exit status 1): keep most of
                    // these sessions pipelined, where the whole session is in the service's buffer by then
                    let delayed = tags.iter().any(|t| t == "hard:abort-delayed");
                    if delayed && (mtag == "activate" || mtag == "bridgecmd" || mtag == "connect") && client == "stepwise" && rng.chance(3, 4) {
                        client = "pipelined";
                    }
                    // the `upgrade` flag on a call the bridge answers itself with an error: nothing is
                    // upgraded, the session goes on in varlink mode with the calls behind it
                    let self_answered = tags.iter().any(|t| ["hard:unknown-interface", "hard:nodot", "hard:unreachable", "hard:getdesc-noparams", "hard:getdesc-unknown"].contains(&t.as_str()));
                    let oneway = frame_flags(&f).0;
                    let mut f = f;
                    if self_answered && !oneway && (mtag == "resolver" || mtag == "bridge2") && rng.chance(1, 2) {
                        let mut v: Value = serde_json::from_slice(&f).unwrap();
                        v["upgrade"] = json!(true);
                        f = serde_json::to_vec(&v).unwrap();
                        tags.push("hard:upgrade-flag-on-bridge-answered-error".into());
                        upgrade_flag_at = Some(i);
                    }
                    frames.push(f);
                } else {
                    frames.push(gen_good_request(&mut rng, &gw, &t, &mut tags));
                }
            }
            if let Some(i) = upgrade_flag_at {
                // ordinary calls behind it: one to a service, one more of any kind
                for _ in 0..(if i + 1 == frames.len() { 2 } else { 1 }) {
                    tok += 1;
                    let t = format!("k{}z", tok);
                    let sc = rng.pick(&gw.scripts).clone();
                    frames.push(serde_json::to_vec(&json!({"method": format!("{}.Run", sc.0), "parameters": {"script": [{"op":"reply","p":{"token": t}}], "token": t}})).unwrap());
                }
            }
            // the same interface before and after a call that is routed to the resolver: the cached
            // (interface, address) pair must survive the detour
            if rng.chance(1, 5) {
                let sc = rng.pick(&gw.scripts).clone();
                let at = rng.below(frames.len() + 1);
                let mk = |t: &str| serde_json::to_vec(&json!({"method": format!("{}.Run", sc.0), "parameters": {"script": [{"op":"reply","p":{"token": t}}], "token": t}})).unwrap();
                tok += 3;
                let middle = if rng.chance(2, 3) {
                    serde_json::to_vec(&json!({"method":"org.varlink.service.GetInfo"})).unwrap()
                } else {
                    serde_json::to_vec(&json!({"method":"org.varlink.resolver.Resolve","parameters":{"interface": sc.0}})).unwrap()
                };
                frames.splice(at..at, vec![mk(&format!("k{}z", tok - 2)), middle, mk(&format!("k{}z", tok))]);
                tags.push("resolver-detour".into());
            }
            // a slow reader behind a pump whose service drops the connection right after a last reply that is
            // larger than every buffer in between: when either side closes, everything received is forwarded
            let svc0 = match &mode {
                Sx::List(l) if mtag == "activate" || mtag == "bridgecmd" => l[1].as_usize() == Some(0),
                Sx::List(l) if mtag == "connect" => l[1].as_str().map(|a| a.contains("s0.sock")).unwrap_or(false),
                _ => false,
            };
            if svc0 && hard_at == usize::MAX && rng.chance(1, 4) {
                client = "slowread";
                frames.truncate(3);
                tok += 1;
                let n = *rng.pick(&[100_000usize, 163_000, 400_000]);
                frames.push(serde_json::to_vec(&json!({"method":"org.example.abort.ReplyThenAbort","parameters":{"delay_ms":0,"pad_bytes":n,"token":format!("k{}z", tok)}})).unwrap());
                tags.push("slowread-big-last-reply".into());
            }
            tags.push(format!("client:{}", client));
            // upgraded sessions: single-reply requests first, then the upgrade, then a payload
            let mut payload = None;
            // the upgrade echo interface lives in service 0
            let up_possible = match &mode {
                Sx::List(l) if mtag == "activate" || mtag == "bridgecmd" => l[1].as_usize() == Some(0),
                Sx::List(l) if mtag == "connect" => l[1].as_str().map(|a| a.contains("s0.sock")).unwrap_or(false),
                _ => true,
            };
            if hard_at == usize::MAX && client != "closeearly" && client != "slowread" && up_possible && rng.chance(1, 5) {
                frames.retain(|f| {
                    let (o, _) = frame_flags(f);
                    let more = serde_json::from_slice::<varlink::Request>(f).ok().and_then(|r| r.more).unwrap_or(false);
                    !o && !more
                });
                frames.truncate(3);
                if rng.chance(1, 3) {
                    frames.push(up_frame_greeting(&mut rng));
                    tags.push("upgrade:service-speaks-first".into());
                } else {
                    frames.push(up_frame());
                }
                payload = Some(gen_payload(&mut rng));
                tags.push("upgrade".into());
                tags.push(format!("upgrade:{}", client));
            }
            tags.push(format!("len:{}", match frames.len() { 0 => "0", 1 => "1", 2..=5 => "2-5", _ => "6+" }));
            tags.sort();
            tags.dedup();
            cases.push(Case { input: mk_case(mode, &gw, client, &frames, payload.as_deref()), tags });
        }
        cases
    }

    fn run(&self, ctx: &Ctx, input: &Sx) -> Sx {
        let l = input.as_list().expect("case");
        match l[0].as_atom().unwrap_or("") {
            "proxy" => run_proxy(ctx, l),
            "raceprobe" => run_raceprobe(ctx, l),
            "closeprobe" => run_closeprobe(ctx, l),
            "goneprobe" => run_goneprobe(ctx, l),
            "sessprobe" => run_sessprobe(ctx, l),
            other => panic!("case kind {}", other),
        }
    }
}

#[allow(dead_code)]
fn unused(_: &Ctx) {
    let _ = fresh_dir;
}
