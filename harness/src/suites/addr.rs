//! Suite `addr` (C16): address strings, socket activation environments and the six transports,
//! all through the real `varlink` crate.
//!
//! Placeholders in case lines (so that a case is self-contained and independent of where the
//! checkout lives): `%D` = a scratch directory under `<out>/sock`, `%P` = a TCP port on which the
//! harness listens, `%Q` = a TCP port nobody listens on, `%A` = a unique abstract-name prefix.
//! Observations are printed with the placeholders substituted back.
//!
//! Case kinds:
//!
//!   (parse x<address> (live (<scheme> x<target>)*) (bindable (tcp x<target>)*))
//!       scheme = tcp | abstract | path.  The harness listens on every `live` target while the
//!       client connects (nothing else it could reach listens), and closes them before the server
//!       binds.  What can be bound is a fact about the environment the case runs in: every abstract
//!       name; a filesystem path exactly when it is `%D/<name>` with <name> in [A-Za-z0-9._-]+ (the
//!       working directory is /proc during the call, so relative paths cannot be bound); a TCP
//!       target exactly when listed under `bindable`.
//!       -> (parse (client <r>) (server <r>)),  r = invalid | io | (ok <scheme> x<target>)
//!          client: `varlink_connect`, target = peer name of the returned stream;
//!          server: `Listener::new`, target = local name of the returned listener
//!
//!   (actenv <fds> <pid> <names> <passed> x<address>)
//!   (actenv2 (<fds> <pid> <names> x<address>) (<fds> <pid> <names> x<address>) <passed>)
//!       two listeners created one after the other in ONE process, the environment changed in between
//!       -> (listener2 <R> <R>)
//!       fds, names = - | x<value>;  pid = - | (lit x<value>) | (self x<prefix> x<suffix>);
//!       `passed` listening unix sockets `%D/fd3.sock`, `%D/fd4.sock`, … are inherited as 3, 4, …;
//!       `Listener::new(address)` runs in a fresh child (`sh -c 'LISTEN_PID=<prefix>$$<suffix> exec …'`)
//!       -> (listener invalid | io | (ok <tcp|unix> <activated> <fd|-> x<local name>))
//!
//!   (xport <world> (reads b<chunk>*) <dec>)
//!       the request stream over unix path, unix path `;mode=0666`, `unix:@abstract`,
//!       `tcp:127.0.0.1:port`, `Connection::with_activate`, `Connection::with_bridge`
//!       and `Connection::with_bridge("varlink bridge --connect unix:…")` (the CLI bridge as a bridge command)
//!       -> (xport (unix <R>) (unixmode <R>) (abstract <R>) (tcp <R>) (activate <R>) (bridge <R>) (bridgecli <R>) <act>)
//!          R = (out <reply>*) | (timeout) | (fail x<why>);
//!          act = (act x<LISTEN_FDS> x<LISTEN_FDNAMES> <LISTEN_PID is the child's pid>
//!                     <VARLINK_ADDRESS is unix:<name of fd 3>> <fd 3 is a listening unix socket, inheritable>
//!                     <the connection's address equals VARLINK_ADDRESS>) | (noact)
//!
//!   (act3 <world> [x<closed>])
//!       `Connection::with_activate` from a process whose descriptors from 3 up, and those of 0,1,2 listed
//!       in <closed> (e.g. `0,1,2`), are closed, so that the listener of `varlink_exec` lands on the
//!       lowest free descriptor — 3: the branch that clears close-on-exec; 0, 1 or 2: moved up with
//!       dup2 — then one GetInfo call
//!       -> (act3 (reply x<vendor>) <act> (banner <where>)) | (act3 (fail x<why>) <act> (banner <where>))
//!          where = stderr | stdout | both | none: on which of the caller's (distinct) pipes the banner
//!          arrived that the activated service prints on its stdout
use crate::rng::Rng;
use crate::suites::wire;
use crate::sx::{self, Sx};
use crate::{Case, Ctx, Suite};
use std::io::{Read, Write};
use std::os::unix::io::AsRawFd;
use std::os::unix::process::CommandExt;
use std::sync::atomic::{AtomicUsize, Ordering};
use std::time::Duration;

#[path = "addr_world.rs"]
pub mod world;

use world::*;

pub struct AddrSuite;

static COUNTER: AtomicUsize = AtomicUsize::new(0);

pub fn fresh_dir(ctx: &Ctx, tag: &str) -> String {
    let n = COUNTER.fetch_add(1, Ordering::SeqCst);
    let d = format!("{}/sock/{}{}-{}", ctx.out_dir, tag, std::process::id(), n);
    let _ = std::fs::remove_dir_all(&d);
    std::fs::create_dir_all(&d).expect("scratch dir");
    d
}

pub struct Subst {
    pub dir: String,
    pub live_port: String,
    pub dead_port: String,
    pub abs: String,
}

impl Subst {
    pub fn new(ctx: &Ctx, tag: &str) -> Subst {
        let n = COUNTER.fetch_add(1, Ordering::SeqCst);
        Subst {
            dir: fresh_dir(ctx, tag),
            live_port: String::new(),
            dead_port: format!("{}", free_port()),
            abs: format!("vv{}x{}", std::process::id(), n),
        }
    }
    pub fn apply(&self, s: &str) -> String {
        s.replace("%D", &self.dir).replace("%P", &self.live_port).replace("%Q", &self.dead_port).replace("%A", &self.abs)
    }
    pub fn unapply(&self, s: &str) -> String {
        let mut r = s.replace(&self.dir, "%D").replace(&self.abs, "%A");
        if !self.live_port.is_empty() {
            r = r.replace(&format!(":{}", self.live_port), ":%P");
        }
        r.replace(&format!(":{}", self.dead_port), ":%Q")
    }
}

// ---------------------------------------------------------------------------
// socket names

fn inet_name(fd: i32, peer: bool) -> Option<String> {
    let mut ss: libc::sockaddr_storage = unsafe { std::mem::zeroed() };
    let mut sl = std::mem::size_of::<libc::sockaddr_storage>() as libc::socklen_t;
    let r = unsafe {
        if peer {
            libc::getpeername(fd, &mut ss as *mut _ as *mut libc::sockaddr, &mut sl)
        } else {
            libc::getsockname(fd, &mut ss as *mut _ as *mut libc::sockaddr, &mut sl)
        }
    };
    if r != 0 || ss.ss_family as i32 != libc::AF_INET {
        return None;
    }
    let sin: &libc::sockaddr_in = unsafe { &*(&ss as *const _ as *const libc::sockaddr_in) };
    let ip = u32::from_be(sin.sin_addr.s_addr);
    Some(format!("{}.{}.{}.{}:{}", ip >> 24, (ip >> 16) & 255, (ip >> 8) & 255, ip & 255, u16::from_be(sin.sin_port)))
}

fn unix_peer_name(fd: i32) -> Option<String> {
    let mut ss: libc::sockaddr_storage = unsafe { std::mem::zeroed() };
    let mut sl = std::mem::size_of::<libc::sockaddr_storage>() as libc::socklen_t;
    let r = unsafe { libc::getpeername(fd, &mut ss as *mut _ as *mut libc::sockaddr, &mut sl) };
    if r != 0 || ss.ss_family as i32 != libc::AF_UNIX {
        return None;
    }
    let su: &libc::sockaddr_un = unsafe { &*(&ss as *const _ as *const libc::sockaddr_un) };
    let n = (sl as usize).saturating_sub(2);
    let bytes: Vec<u8> = su.sun_path[..n.min(su.sun_path.len())].iter().map(|c| *c as u8).collect();
    Some(if !bytes.is_empty() && bytes[0] == 0 {
        format!("@{}", String::from_utf8_lossy(&bytes[1..]))
    } else {
        String::from_utf8_lossy(bytes.split(|b| *b == 0).next().unwrap_or(&[])).to_string()
    })
}

/// (scheme, target) of a socket: its peer (client side) or its own name (server side)
fn socket_target(fd: i32, peer: bool) -> Option<(String, String)> {
    if let Some(n) = inet_name(fd, peer) {
        return Some(("tcp".into(), n));
    }
    let n = if peer { unix_peer_name(fd)? } else { unix_name(fd) };
    if let Some(a) = n.strip_prefix('@') {
        Some(("abstract".into(), a.to_string()))
    } else {
        Some(("path".into(), n))
    }
}

fn result_sx(sub: &Subst, r: Result<Option<(String, String)>, bool>) -> Sx {
    match r {
        Err(true) => sx::atom("invalid"),
        Err(false) => sx::atom("io"),
        Ok(None) => sx::atom("io"),
        Ok(Some((scheme, target))) => sx::tagged("ok", vec![sx::atom(scheme), sx::xs(&sub.unapply(&target))]),
    }
}

// ---------------------------------------------------------------------------
// kind `parse`

enum Live {
    Tcp(std::net::TcpListener),
    Unix(std::os::unix::net::UnixListener),
}

fn bind_abstract(name: &str) -> std::io::Result<std::os::unix::net::UnixListener> {
    use std::os::linux::net::SocketAddrExt;
    let a = std::os::unix::net::SocketAddr::from_abstract_name(name)?;
    std::os::unix::net::UnixListener::bind_addr(&a)
}

fn run_parse(ctx: &Ctx, l: &[Sx]) -> Sx {
    let mut sub = Subst::new(ctx, "p");
    // a live TCP listener first: its port is the meaning of %P
    let tcp = std::net::TcpListener::bind("127.0.0.1:0").expect("tcp bind");
    sub.live_port = format!("{}", tcp.local_addr().unwrap().port());
    let mut keep: Vec<Live> = vec![Live::Tcp(tcp)];
    let address = sub.apply(&l[1].as_str().unwrap());
    for e in &l[2].as_list().unwrap()[1..] {
        let e = e.as_list().unwrap();
        let target = sub.apply(&e[1].as_str().unwrap());
        match e[0].as_atom().unwrap() {
            "tcp" => {} // only 127.0.0.1:%P, already listening
            "abstract" => keep.push(Live::Unix(bind_abstract(&target).expect("abstract bind"))),
            "path" => keep.push(Live::Unix(std::os::unix::net::UnixListener::bind(&target).expect("path bind"))),
            other => panic!("scheme {}", other),
        }
    }
    let old_cwd = std::env::current_dir().ok();
    let _ = std::env::set_current_dir("/proc");
    let a1 = address.clone();
    let client = with_watchdog(Duration::from_secs(5), move || match varlink::varlink_connect(&a1) {
        Ok((s, back)) => {
            if back != a1 {
                return Ok(Some(("address-changed".to_string(), back)));
            }
            if !no_socket_timeouts(s.as_raw_fd()) {
                return Ok(Some(("socket-timeout-set".to_string(), String::new())));
            }
            Ok(socket_target(s.as_raw_fd(), true))
        }
        Err(e) => Err(matches!(e.kind(), varlink::ErrorKind::InvalidAddress)),
    });
    let client_sx = match client {
        None => sx::atom("timeout"),
        Some(r) => result_sx(&sub, r),
    };
    // the live listeners must not be in the way of the server's bind
    drop(keep);
    let a2 = address.clone();
    let server = with_watchdog(Duration::from_secs(5), move || match varlink::Listener::new(&a2) {
        Ok(l) => {
            let fd = l.as_raw_fd().unwrap_or(-1);
            let t = socket_target(fd, false);
            drop(l);
            Ok(t)
        }
        Err(e) => Err(matches!(e.kind(), varlink::ErrorKind::InvalidAddress)),
    });
    let server_sx = match server {
        None => sx::atom("timeout"),
        Some(r) => result_sx(&sub, r),
    };
    if let Some(d) = old_cwd {
        let _ = std::env::set_current_dir(d);
    }
    let _ = std::fs::remove_dir_all(&sub.dir);
    sx::tagged("parse", vec![sx::tagged("client", vec![client_sx]), sx::tagged("server", vec![server_sx])])
}

// ---------------------------------------------------------------------------
// kind `actenv`

fn opt_field(s: &Sx) -> Option<String> {
    match s {
        Sx::Atom(a) if a == "-" => None,
        other => other.as_str(),
    }
}

fn shell_safe(s: &str) -> bool {
    s.chars().all(|c| c.is_ascii_alphanumeric() || c == '+' || c == '-')
}

fn run_actenv(ctx: &Ctx, l: &[Sx]) -> Sx {
    let r = run_listeners(ctx, &l[1..4], &l[5], l[4].as_usize().unwrap(), None);
    sx::tagged("listener", r)
}

/// `(actenv2 (<fds> <pid> <names> x<address>) (<fds> <pid> <names> x<address>) <passed>)`: ONE process creates
/// two listeners in a row; it is started with the first environment and sets the second one itself in
/// between.  Every `Listener::new` looks at the environment as it is then.
///   -> (listener2 <R> <R> (fds ok|closed-<n>…|own-descriptors-damaged))   the descriptors handed over and two
///      pipes the process opens between the two listeners are untouched afterwards
fn run_actenv2(ctx: &Ctx, l: &[Sx]) -> Sx {
    let a = l[1].as_list().unwrap();
    let b = l[2].as_list().unwrap();
    let r = run_listeners(ctx, &a[0..3], &a[3], l[3].as_usize().unwrap(), Some(b));
    sx::tagged("listener2", r)
}

fn opt_arg(v: &Option<String>) -> String {
    match v {
        None => "-".to_string(),
        Some(s) => format!("={}", s),
    }
}

fn run_listeners(ctx: &Ctx, env1: &[Sx], address1: &Sx, passed: usize, second: Option<&[Sx]>) -> Vec<Sx> {
    let sub = Subst::new(ctx, "e");
    let fds = opt_field(&env1[0]);
    let names = opt_field(&env1[2]);
    let address = sub.apply(&address1.as_str().unwrap());
    let out = format!("{}/report", sub.dir);
    let helper = helper_path();
    let l = [Sx::Atom("actenv".into()), env1[0].clone(), env1[1].clone(), env1[2].clone()];
    // the second environment travels as arguments
    let mut extra: Vec<String> = Vec::new();
    if let Some(b) = second {
        extra.push(sub.apply(&b[3].as_str().unwrap()));
        extra.push(opt_arg(&opt_field(&b[0])));
        match &b[1] {
            Sx::List(p) if p[0].as_atom() == Some("self") => {
                extra.push("self".into());
                extra.push(p[1].as_str().unwrap());
                extra.push(p[2].as_str().unwrap());
            }
            Sx::List(p) if p[0].as_atom() == Some("lit") => {
                extra.push("lit".into());
                extra.push(p[1].as_str().unwrap());
                extra.push(String::new());
            }
            _ => {
                extra.push("-".into());
                extra.push(String::new());
                extra.push(String::new());
            }
        }
        extra.push(opt_arg(&opt_field(&b[2])));
    }
    let sub_cmd = if second.is_some() { "listener2" } else { "listener" };

    let mut listeners = Vec::new();
    for i in 0..passed {
        listeners.push(std::os::unix::net::UnixListener::bind(format!("{}/fd{}.sock", sub.dir, 3 + i)).expect("bind fdN"));
    }
    let raw: Vec<i32> = listeners.iter().map(|l| l.as_raw_fd()).collect();

    let mut cmd;
    match &l[2] {
        Sx::List(p) if p[0].as_atom() == Some("self") => {
            let pre = p[1].as_str().unwrap();
            let suf = p[2].as_str().unwrap();
            assert!(shell_safe(&pre) && shell_safe(&suf), "pid template not shell safe");
            cmd = std::process::Command::new("sh");
            cmd.arg("-c")
                .arg(format!("LISTEN_PID={}$${} exec \"$0\" \"$@\"", pre, suf))
                .arg(&helper)
                .arg(sub_cmd)
                .arg(&address)
                .arg(&out)
                .args(&extra);
        }
        other => {
            cmd = std::process::Command::new(&helper);
            cmd.arg(sub_cmd).arg(&address).arg(&out).args(&extra);
            match other {
                Sx::List(p) if p[0].as_atom() == Some("lit") => {
                    cmd.env("LISTEN_PID", p[1].as_str().unwrap());
                }
                _ => {
                    cmd.env_remove("LISTEN_PID");
                }
            }
        }
    }
    match &fds {
        Some(v) => {
            cmd.env("LISTEN_FDS", v);
        }
        None => {
            cmd.env_remove("LISTEN_FDS");
        }
    }
    match &names {
        Some(v) => {
            cmd.env("LISTEN_FDNAMES", v);
        }
        None => {
            cmd.env_remove("LISTEN_FDNAMES");
        }
    }
    cmd.stdin(std::process::Stdio::null());
    unsafe {
        cmd.pre_exec(move || {
            // park the sources high, then place them at 3, 4, …; everything else from 3 up is closed
            let mut high = Vec::new();
            for fd in &raw {
                let h = libc::fcntl(*fd, libc::F_DUPFD, 200);
                if h < 0 {
                    return Err(std::io::Error::last_os_error());
                }
                high.push(h);
            }
            for fd in 3..200 {
                libc::close(fd);
            }
            for (i, h) in high.iter().enumerate() {
                if libc::dup2(*h, 3 + i as i32) < 0 {
                    return Err(std::io::Error::last_os_error());
                }
                libc::close(*h);
            }
            Ok(())
        });
    }
    let child = cmd.spawn().expect("spawn helper");
    let mut guard = ChildGuard::new(child);
    let st = guard.wait_timeout(Duration::from_secs(8));
    let canon = |line: &str| -> Sx {
        match sx::parse(line) {
            Some(Sx::List(r)) => match r[0].as_atom() {
                Some("ok") => {
                    let mut name = sub.unapply(&r[4].as_str().unwrap_or_default());
                    if r[1].as_atom() == Some("tcp") && r[2].as_atom() == Some("f") {
                        name = "*".into(); // the kernel picked the port
                    }
                    sx::tagged("ok", vec![r[1].clone(), r[2].clone(), r[3].clone(), sx::xs(&name)])
                }
                Some(tag) => sx::atom(tag),
                None => sx::atom("garbled"),
            },
            _ => sx::atom("garbled"),
        }
    };
    let want = if second.is_some() { 3 } else { 1 };
    let res: Vec<Sx> = match st {
        None => vec![sx::atom("timeout"); want],
        Some(_) => match std::fs::read_to_string(&out) {
            Ok(text) => {
                let mut v: Vec<Sx> = text.lines().take(2).map(canon).collect();
                if let Some(f) = text.lines().nth(2) {
                    v.push(sx::parse(f).unwrap_or_else(|| sx::atom("garbled")));
                }
                v.resize(want, sx::atom("garbled"));
                v
            }
            Err(_) => vec![sx::atom("crashed"); want],
        },
    };
    drop(guard);
    drop(listeners);
    let _ = std::fs::remove_dir_all(&sub.dir);
    res
}

// ---------------------------------------------------------------------------
// kind `xport`

/// write the chunks, half-close, read everything; the split replies or what went wrong
pub fn exchange(mut r: Box<dyn Read + Send>, mut w: Box<dyn Write + Send>, shut: Box<dyn FnOnce() + Send>, chunks: Vec<Vec<u8>>) -> Sx {
    let reader = std::thread::spawn(move || {
        let mut all = Vec::new();
        let mut buf = [0u8; 8192];
        loop {
            match r.read(&mut buf) {
                Ok(0) => break,
                Ok(n) => all.extend_from_slice(&buf[..n]),
                Err(_) => break, // a reset after the data is the same as EOF here
            }
        }
        all
    });
    let res = with_watchdog(Duration::from_secs(14), move || {
        for c in chunks {
            if w.write_all(&c).is_err() {
                break;
            }
            let _ = w.flush();
        }
        shut();
        drop(w);
        reader.join().unwrap_or_default()
    });
    match res {
        None => sx::tagged("timeout", vec![]),
        Some(out) => sx::tagged("out", wire::split_replies(&out)),
    }
}

fn exchange_conn(conn: std::sync::Arc<std::sync::RwLock<varlink::Connection>>, chunks: Vec<Vec<u8>>) -> Sx {
    let (r, w, raw) = {
        let mut c = conn.write().unwrap();
        let raw = c.stream.as_ref().map(|s| s.as_raw_fd()).unwrap_or(-1);
        (c.reader.take(), c.writer.take(), raw)
    };
    if raw >= 0 && !no_socket_timeouts(raw) {
        return sx::tagged("fail", vec![sx::xs("socket-timeout-set")]);
    }
    match (r, w) {
        (Some(r), Some(w)) => {
            let res = exchange(
                Box::new(r),
                Box::new(w),
                Box::new(move || unsafe {
                    libc::shutdown(raw, libc::SHUT_WR);
                }),
                chunks,
            );
            drop(conn);
            res
        }
        _ => sx::tagged("fail", vec![sx::xs("no reader/writer")]),
    }
}

fn over_address(address: &str, chunks: Vec<Vec<u8>>) -> Sx {
    let a = address.to_string();
    match with_watchdog(Duration::from_secs(5), move || varlink::Connection::with_address(&a)) {
        None => sx::tagged("timeout", vec![]),
        Some(Err(e)) => sx::tagged("fail", vec![sx::xs(&format!("{:?}", e.kind()))]),
        Some(Ok(c)) => exchange_conn(c, chunks),
    }
}

fn act_sx(dump: Option<serde_json::Value>, conn_address: &str, child_pid: u32) -> Sx {
    let d = match dump {
        None => return sx::tagged("noact", vec![]),
        Some(d) => d,
    };
    let env = |k: &str| d["env"][k].as_str().unwrap_or("<unset>").to_string();
    let pid = d["pid"].as_u64().unwrap_or(0);
    let fd3 = &d["fds"]["3"];
    let fd3_ok = fd3["kind"] == "socket" && fd3["listening"] == true && fd3["family"] == "unix" && fd3["cloexec"] == false;
    let fd3_name = fd3["name"].as_str().unwrap_or("?");
    sx::tagged(
        "act",
        vec![
            sx::xs(&env("LISTEN_FDS")),
            sx::xs(&env("LISTEN_FDNAMES")),
            sx::boolean(env("LISTEN_PID") == format!("{}", pid) && pid == child_pid as u64),
            sx::boolean(env("VARLINK_ADDRESS") == format!("unix:{}", fd3_name)),
            sx::boolean(fd3_ok),
            sx::boolean(env("VARLINK_ADDRESS") == conn_address),
        ],
    )
}

fn kill_child_of(conn: &std::sync::Arc<std::sync::RwLock<varlink::Connection>>) -> Option<ChildGuard> {
    conn.write().unwrap().child.take().map(ChildGuard::new)
}

fn xport_plain(spec: &WorldSpec, tag: &str, listen: &str, connect: &str, chunks: Vec<Vec<u8>>) -> Sx {
    let h = spawn_service(spec, listen);
    let r = over_address(connect, chunks);
    let failed = h.failed.lock().unwrap().clone();
    drop(h);
    sx::tagged(tag, vec![match failed {
        Some(f) => sx::tagged("fail", vec![sx::xs(&format!("listen: {}", f))]),
        None => r,
    }])
}

/// socket activation: (result, activation facts)
fn xport_activate(helper: &str, specfile: &str, dump: &str, chunks: Vec<Vec<u8>>) -> (Sx, Sx) {
    let cmdline = format!("{} serve {} $VARLINK_ADDRESS --idle 2 --dump {}", helper, specfile, dump);
    match with_watchdog(Duration::from_secs(8), move || varlink::Connection::with_activate(&cmdline)) {
        None => (sx::tagged("activate", vec![sx::tagged("timeout", vec![])]), sx::tagged("noact", vec![])),
        Some(Err(e)) => (
            sx::tagged("activate", vec![sx::tagged("fail", vec![sx::xs(&format!("{:?}", e.kind()))])]),
            sx::tagged("noact", vec![]),
        ),
        Some(Ok(conn)) => {
            let guard = kill_child_of(&conn);
            let child_pid = guard.as_ref().and_then(|g| g.child.as_ref().map(|c| c.id())).unwrap_or(0);
            let address = conn.read().unwrap().address();
            let r = exchange_conn(conn, chunks);
            let act = act_sx(read_dump(dump, Duration::from_secs(3)), &address, child_pid);
            drop(guard);
            (sx::tagged("activate", vec![r]), act)
        }
    }
}

/// a bridge command: the service on stdin/stdout of `sh -c`
fn xport_bridge(helper: &str, specfile: &str, chunks: Vec<Vec<u8>>) -> Sx {
    let cmdline = format!("exec {} stdio {}", helper, specfile);
    match with_watchdog(Duration::from_secs(8), move || varlink::Connection::with_bridge(&cmdline)) {
        None => sx::tagged("bridge", vec![sx::tagged("timeout", vec![])]),
        Some(Err(e)) => sx::tagged("bridge", vec![sx::tagged("fail", vec![sx::xs(&format!("{:?}", e.kind()))])]),
        Some(Ok(conn)) => {
            let guard = kill_child_of(&conn);
            let r = exchange_conn(conn, chunks);
            drop(guard);
            sx::tagged("bridge", vec![r])
        }
    }
}

/// the CLI bridge as a bridge command: `Connection::with_bridge("varlink bridge --connect ADDRESS")` in
/// front of the same service.  The bridge's stdin and stdout are one socket here, so the client does not
/// half-close: it reads until it has as many frames as the plain unix transport delivered (or EOF).
fn xport_bridgecli(spec: &WorldSpec, dir: &str, chunks: Vec<Vec<u8>>, expect_frames: usize, patience: Duration) -> Sx {
    let address = format!("unix:{}/c.sock", dir);
    let h = spawn_service(spec, &address);
    let cmdline = format!("exec {} bridge --connect {}", varlink_cli_path(), address);
    let res = match with_watchdog(Duration::from_secs(8), move || varlink::Connection::with_bridge(&cmdline)) {
        None => sx::tagged("timeout", vec![]),
        Some(Err(e)) => sx::tagged("fail", vec![sx::xs(&format!("{:?}", e.kind()))]),
        Some(Ok(conn)) => {
            let guard = kill_child_of(&conn);
            let (r, w) = {
                let mut c = conn.write().unwrap();
                (c.reader.take(), c.writer.take())
            };
            let out = match (r, w) {
                (Some(mut r), Some(mut w)) => {
                    let buf = std::sync::Arc::new(std::sync::Mutex::new(Vec::new()));
                    let eof = std::sync::Arc::new(std::sync::atomic::AtomicBool::new(false));
                    let (b2, e2) = (buf.clone(), eof.clone());
                    std::thread::spawn(move || {
                        let mut tmp = [0u8; 8192];
                        loop {
                            match r.read(&mut tmp) {
                                Ok(0) | Err(_) => break,
                                Ok(n) => b2.lock().unwrap().extend_from_slice(&tmp[..n]),
                            }
                        }
                        e2.store(true, Ordering::SeqCst);
                    });
                    // job control must not be visible in the session: the bridge is stopped and continued
                    // (SIGSTOP / SIGCONT: its blocking waits return EINTR) while it waits for the first
                    // request and between the client's writes
                    let bridge_pid = guard.as_ref().and_then(|g| g.child.as_ref()).map(|c| c.id() as i32).unwrap_or(0);
                    let stop_cont = move |settle_ms: u64| {
                        if bridge_pid > 1 {
                            std::thread::sleep(Duration::from_millis(settle_ms));
                            unsafe {
                                libc::kill(bridge_pid, libc::SIGSTOP);
                            }
                            std::thread::sleep(Duration::from_millis(5));
                            unsafe {
                                libc::kill(bridge_pid, libc::SIGCONT);
                            }
                            std::thread::sleep(Duration::from_millis(5));
                        }
                    };
                    std::thread::spawn(move || {
                        stop_cont(60);
                        for (i, c) in chunks.into_iter().enumerate() {
                            if i > 0 && i < 4 {
                                stop_cont(10);
                            }
                            if w.write_all(&c).is_err() {
                                break;
                            }
                            let _ = w.flush();
                        }
                        // keep `w` (a duplicate of the socket) until the session is over
                        std::thread::sleep(Duration::from_secs(20));
                    });
                    let t0 = std::time::Instant::now();
                    loop {
                        let n = buf.lock().unwrap().iter().filter(|b| **b == 0).count();
                        if n >= expect_frames || eof.load(Ordering::SeqCst) || t0.elapsed() > patience {
                            break;
                        }
                        std::thread::sleep(Duration::from_millis(2));
                    }
                    // a little patience for anything that should NOT come
                    std::thread::sleep(Duration::from_millis(20));
                    let b = buf.lock().unwrap().clone();
                    sx::tagged("out", wire::split_replies(&b))
                }
                _ => sx::tagged("fail", vec![sx::xs("no reader/writer")]),
            };
            drop(conn);
            drop(guard);
            out
        }
    };
    drop(h);
    sx::tagged("bridgecli", vec![res])
}

fn run_xport(ctx: &Ctx, l: &[Sx]) -> Sx {
    let spec = WorldSpec::from_sx(&l[1]).expect("world");
    let chunks: Vec<Vec<u8>> = l[2].as_list().unwrap()[1..].iter().map(|c| c.as_bytes().unwrap()).collect();
    let sub = Subst::new(ctx, "x");
    let specfile = format!("{}/spec", sub.dir);
    std::fs::write(&specfile, spec.to_sx().render() + "\n").unwrap();
    let helper = helper_path();
    let dump = format!("{}/dump.json", sub.dir);
    let port = free_port();
    // the four plain addresses are served by threads of this process
    let listen_addrs: Vec<(&'static str, String, String)> = vec![
        ("unix", format!("unix:{}/u.sock", sub.dir), format!("unix:{}/u.sock", sub.dir)),
        ("unixmode", format!("unix:{}/m.sock;mode=0666", sub.dir), format!("unix:{}/m.sock;mode=0666", sub.dir)),
        ("abstract", format!("unix:@{}", sub.abs), format!("unix:@{};x=y", sub.abs)),
        ("tcp", format!("tcp:127.0.0.1:{}", port), format!("tcp:127.0.0.1:{}", port)),
    ];
    // a socket file left over from an earlier run at both path addresses: it is replaced, whatever
    // parameters follow the path
    for name in ["u.sock", "m.sock"] {
        drop(std::os::unix::net::UnixListener::bind(format!("{}/{}", sub.dir, name)));
    }
    let mut res = Vec::new();
    let act;
    if spec.up {
        // a world with the slow interface: the transports run side by side (a reply that takes seconds
        // must arrive on every transport; a transport with a timeout of its own shows up as a difference)
        let mut handles = Vec::new();
        for (tag, listen, connect) in listen_addrs.into_iter() {
            let (spec, chunks) = (spec.clone(), chunks.clone());
            handles.push(std::thread::spawn(move || xport_plain(&spec, tag, &listen, &connect, chunks)));
        }
        let (h2, s2, d2, c2) = (helper.clone(), specfile.clone(), dump.clone(), chunks.clone());
        let ha = std::thread::spawn(move || xport_activate(&h2, &s2, &d2, c2));
        let (h3, s3, c3) = (helper.clone(), specfile.clone(), chunks.clone());
        let hb = std::thread::spawn(move || xport_bridge(&h3, &s3, c3));
        for h in handles {
            res.push(h.join().unwrap_or_else(|_| sx::tagged("fail", vec![sx::xs("panic")])));
        }
        let (ra, a) = ha.join().unwrap_or_else(|_| (sx::tagged("activate", vec![sx::tagged("fail", vec![])]), sx::tagged("noact", vec![])));
        res.push(ra);
        act = a;
        res.push(hb.join().unwrap_or_else(|_| sx::tagged("bridge", vec![sx::tagged("fail", vec![])])));
    } else {
        for (tag, listen, connect) in listen_addrs.iter() {
            res.push(xport_plain(&spec, tag, listen, connect, chunks.clone()));
        }
        let (ra, a) = xport_activate(&helper, &specfile, &dump, chunks.clone());
        res.push(ra);
        act = a;
        res.push(xport_bridge(&helper, &specfile, chunks.clone()));
    }
    // complete NUL-terminated frames the plain unix transport delivered
    let expect_frames = res[0]
        .as_list()
        .and_then(|l| l.get(1))
        .and_then(|o| o.as_list())
        .map(|o| o.len().saturating_sub(1))
        .unwrap_or(0);
    res.push(xport_bridgecli(&spec, &sub.dir, chunks.clone(), expect_frames, Duration::from_secs(if spec.up { 12 } else { 5 })));
    res.push(act);
    let _ = std::fs::remove_dir_all(&sub.dir);
    sx::tagged("xport", res)
}

/// `(cliact)`: the CLI's own transports in front of the bridge sub-command, `varlink --activate CMD bridge`
/// and `varlink --bridge CMD bridge`, driven like a shell pipeline: two requests (the second one answered
/// after 400 ms) are written and the input is closed at once; everything is read until EOF.  As on every
/// other transport (half-close in `exchange`), both replies arrive.
///   -> (cliact (activate <n replies>) (bridge <n replies>))
fn run_cliact(ctx: &Ctx) -> Sx {
    use serde_json::json;
    let sub = Subst::new(ctx, "k");
    let w = WorldSpec { svc: wire::configs()[1].sx.clone(), resolver: None, up: true, seq: false };
    let specfile = format!("{}/spec", sub.dir);
    std::fs::write(&specfile, w.to_sx().render() + "\n").unwrap();
    let helper = helper_path();
    let mut res = Vec::new();
    for tag in ["activate", "bridge"] {
        let dump = format!("{}/dump-{}.json", sub.dir, tag);
        let mut cmd = std::process::Command::new(varlink_cli_path());
        if tag == "activate" {
            cmd.arg("-A").arg(format!("{} serve {} $VARLINK_ADDRESS --idle 2 --dump {}", helper, specfile, dump));
        } else {
            cmd.arg("-b").arg(format!("exec {} stdio {} --dump {}", helper, specfile, dump));
        }
        cmd.arg("bridge");
        cmd.stdin(std::process::Stdio::piped()).stdout(std::process::Stdio::piped()).stderr(std::process::Stdio::null());
        let mut child = cmd.spawn().expect("spawn varlink");
        let mut stdin = child.stdin.take();
        let mut stdout = child.stdout.take().unwrap();
        let mut guard = ChildGuard::new(child);
        let mut all = serde_json::to_vec(&json!({"method":"org.varlink.service.GetInfo"})).unwrap();
        all.push(0);
        all.extend_from_slice(&serde_json::to_vec(&json!({"method":"org.example.abort.SlowReply","parameters":{"delay_ms":400,"token":"c"}})).unwrap());
        all.push(0);
        if let Some(s) = stdin.as_mut() {
            let _ = s.write_all(&all);
            let _ = s.flush();
        }
        drop(stdin.take());
        let reader = std::thread::spawn(move || {
            let mut b = Vec::new();
            let _ = stdout.read_to_end(&mut b);
            b
        });
        let _ = guard.wait_timeout(Duration::from_secs(6));
        if let Ok(txt) = std::fs::read_to_string(&dump) {
            if let Ok(v) = serde_json::from_str::<serde_json::Value>(&txt) {
                if let Some(p) = v["pid"].as_i64() {
                    guard.extra_pids.push(p as i32);
                }
            }
        }
        drop(guard);
        let b = reader.join().unwrap_or_default();
        res.push(sx::tagged(tag, vec![sx::nat(b.iter().filter(|x| **x == 0).count())]));
    }
    let _ = std::fs::remove_dir_all(&sub.dir);
    sx::tagged("cliact", res)
}

/// `(errend)`: the same client sequence over a filesystem socket, an abstract socket and tcp, against a
/// service that gives up on the connection while a pipelined request of the client is still unread:
/// `ReplyThenAbort.call()` (the handler fails 300 ms after its reply), 100 ms later a second call is sent
/// (`more()`), 700 ms later the client looks for its reply (`recv()`).  How the connection's end is
/// reported must not depend on the transport (AF_UNIX resets, TCP delivers the FIN first).
///   -> (errend (unix x<outcome>) (abstract x<outcome>) (tcp x<outcome>))
fn run_errend(ctx: &Ctx) -> Sx {
    use serde_json::{json, Value};
    let sub = Subst::new(ctx, "z");
    let w = WorldSpec { svc: wire::configs()[1].sx.clone(), resolver: None, up: true, seq: false };
    let port = free_port();
    let addrs = vec![
        ("unix", format!("unix:{}/e.sock", sub.dir)),
        ("abstract", format!("unix:@{}e", sub.abs)),
        ("tcp", format!("tcp:127.0.0.1:{}", port)),
    ];
    let mut handles = Vec::new();
    for (tag, addr) in addrs {
        let w = w.clone();
        handles.push((tag, std::thread::spawn(move || -> String {
            let h = spawn_service(&w, &addr);
            drop(connect_retry(&addr, Duration::from_secs(3)));
            let out = match varlink::Connection::with_address(&addr) {
                Err(e) => format!("connect: {:?}", e.kind()),
                Ok(conn) => {
                    let mut c1 = varlink::MethodCall::<Value, Value, varlink::Error>::new(
                        conn.clone(),
                        "org.example.abort.ReplyThenAbort",
                        json!({"delay_ms": 300, "token": "e"}),
                    );
                    match c1.call() {
                        Err(e) => format!("first call: {:?}", e.kind()),
                        Ok(_) => {
                            std::thread::sleep(Duration::from_millis(100));
                            let mut c2 = varlink::MethodCall::<Value, Value, varlink::Error>::new(
                                conn.clone(),
                                "org.example.abort.SlowReply",
                                json!({"delay_ms": 0, "token": "f"}),
                            );
                            match c2.more() {
                                Err(e) => format!("send: {:?}", e.kind()),
                                Ok(c2) => {
                                    std::thread::sleep(Duration::from_millis(700));
                                    match c2.recv() {
                                        Ok(v) => format!("reply: {}", v),
                                        Err(e) => format!("{:?}", e.kind()),
                                    }
                                }
                            }
                        }
                    }
                }
            };
            drop(h);
            out
        })));
    }
    let res: Vec<Sx> = handles
        .into_iter()
        .map(|(tag, h)| sx::tagged(tag, vec![sx::xs(&h.join().unwrap_or_else(|_| "panic".to_string()))]))
        .collect();
    let _ = std::fs::remove_dir_all(&sub.dir);
    sx::tagged("errend", res)
}

/// `(actlisten <nonblock t|f> <idle> <rounds>)`: a supervisor (the harness) owns a listening unix socket
/// `%D/act.sock`, optionally with O_NONBLOCK set on it (as systemd hands sockets over), and starts
/// `vhelper serve` on it with the activation variables (`LISTEN_PID=$$`), `rounds` times in a row: each
/// time one client connects to the path and calls GetInfo; between rounds the service is left to end on
/// its idle timeout (or is killed when `idle` is 0).  After each round: does the path still exist?
///   -> (actlisten (round <R> <t|f>)*)
fn run_actlisten(ctx: &Ctx, l: &[Sx]) -> Sx {
    let nonblock = l[1].as_atom() == Some("t");
    let idle = l[2].as_usize().unwrap_or(0);
    let rounds = l[3].as_usize().unwrap_or(1);
    let sub = Subst::new(ctx, "l");
    let path = format!("{}/act.sock", sub.dir);
    let specfile = format!("{}/spec", sub.dir);
    let spec = WorldSpec::plain(wire::configs()[0].sx.clone());
    std::fs::write(&specfile, spec.to_sx().render() + "\n").unwrap();
    let listener = std::os::unix::net::UnixListener::bind(&path).expect("bind act.sock");
    if nonblock {
        let _ = listener.set_nonblocking(true); // O_NONBLOCK lives in the open file description: the child inherits it
    }
    let lfd = listener.as_raw_fd();
    let mut res = Vec::new();
    let mut req = serde_json::to_vec(&serde_json::json!({"method":"org.varlink.service.GetInfo"})).unwrap();
    req.push(0);
    for _ in 0..rounds {
        let mut cmd = std::process::Command::new("sh");
        cmd.arg("-c")
            .arg("LISTEN_PID=$$ exec \"$0\" \"$@\"")
            .arg(helper_path())
            .arg("serve")
            .arg(&specfile)
            .arg(format!("unix:{}", path))
            .arg("--idle")
            .arg(format!("{}", idle))
            .env("LISTEN_FDS", "1")
            .env("LISTEN_FDNAMES", "varlink")
            .stdin(std::process::Stdio::null());
        unsafe {
            cmd.pre_exec(move || {
                let h = libc::fcntl(lfd, libc::F_DUPFD, 200);
                if h < 0 {
                    return Err(std::io::Error::last_os_error());
                }
                for fd in 3..200 {
                    libc::close(fd);
                }
                if libc::dup2(h, 3) < 0 {
                    return Err(std::io::Error::last_os_error());
                }
                libc::close(h);
                Ok(())
            });
        }
        let child = cmd.spawn().expect("spawn helper");
        let mut guard = ChildGuard::new(child);
        // the client comes when the service is already waiting in accept()
        std::thread::sleep(Duration::from_millis(300));
        let r = over_address(&format!("unix:{}", path), vec![req.clone()]);
        if idle > 0 && rounds > 1 {
            // let the service end by itself: its listener is dropped, the socket must survive
            let _ = guard.wait_timeout(Duration::from_millis(idle as u64 * 1000 + 2500));
        }
        drop(guard);
        let exists = std::path::Path::new(&path).exists();
        res.push(sx::tagged("round", vec![r, sx::boolean(exists)]));
    }
    drop(listener);
    let _ = std::fs::remove_dir_all(&sub.dir);
    sx::tagged("actlisten", res)
}

fn run_act3(ctx: &Ctx, l: &[Sx]) -> Sx {
    let spec = WorldSpec::from_sx(&l[1]).expect("world");
    let sub = Subst::new(ctx, "a");
    let specfile = format!("{}/spec", sub.dir);
    std::fs::write(&specfile, spec.to_sx().render() + "\n").unwrap();
    let dump = format!("{}/dump.json", sub.dir);
    let out = format!("{}/out", sub.dir);
    let closed = l.get(2).and_then(|c| c.as_str()).unwrap_or_default();
    let child = std::process::Command::new(helper_path())
        .arg("actclient")
        .arg(&specfile)
        .arg(&dump)
        .arg(&out)
        .arg(&closed)
        .stdin(std::process::Stdio::null())
        .stdout(std::process::Stdio::piped())
        .stderr(std::process::Stdio::piped())
        .spawn()
        .expect("spawn helper");
    // the caller (actclient) has distinct stdout and stderr pipes: the activated service prints a
    // banner on ITS stdout, which must be the caller's stderr
    let mut child = child;
    let grab = |r: Option<Box<dyn Read + Send>>| {
        let buf = std::sync::Arc::new(std::sync::Mutex::new(Vec::new()));
        if let Some(mut r) = r {
            let b2 = buf.clone();
            std::thread::spawn(move || {
                let mut tmp = [0u8; 4096];
                loop {
                    match r.read(&mut tmp) {
                        Ok(0) | Err(_) => break,
                        Ok(n) => b2.lock().unwrap().extend_from_slice(&tmp[..n]),
                    }
                }
            });
        }
        buf
    };
    let out_buf = grab(child.stdout.take().map(|x| Box::new(x) as Box<dyn Read + Send>));
    let err_buf = grab(child.stderr.take().map(|x| Box::new(x) as Box<dyn Read + Send>));
    let mut guard = ChildGuard::new(child);
    let st = guard.wait_timeout(Duration::from_secs(8));
    let d = read_dump(&dump, Duration::from_millis(100));
    if let Some(d) = &d {
        if let Some(p) = d["pid"].as_i64() {
            guard.extra_pids.push(p as i32);
        }
    }
    let res = match (st, std::fs::read_to_string(&out).ok().and_then(|t| sx::parse(&t))) {
        (None, _) => vec![sx::tagged("fail", vec![sx::xs("timeout")]), sx::tagged("noact", vec![])],
        (_, Some(Sx::List(r))) if r[0].as_atom() == Some("ok") => {
            let pid = r[2].as_usize().unwrap_or(0) as u32;
            let address = r[3].as_str().unwrap_or_default();
            vec![sx::tagged("reply", vec![r[1].clone()]), act_sx(d, &address, pid)]
        }
        (_, Some(Sx::List(r))) if r[0].as_atom() == Some("callfail") => {
            let pid = r[2].as_usize().unwrap_or(0) as u32;
            let address = r[3].as_str().unwrap_or_default();
            vec![sx::tagged("fail", vec![r[1].clone()]), act_sx(d, &address, pid)]
        }
        (_, Some(Sx::List(r))) => vec![sx::tagged("fail", vec![r.get(1).cloned().unwrap_or(sx::atom("-"))]), sx::tagged("noact", vec![])],
        _ => vec![sx::tagged("fail", vec![sx::xs("no report")]), sx::tagged("noact", vec![])],
    };
    drop(guard);
    std::thread::sleep(Duration::from_millis(30));
    let has = |b: &std::sync::Arc<std::sync::Mutex<Vec<u8>>>| {
        let v = b.lock().unwrap();
        v.windows(BANNER.len()).any(|w| w == BANNER.as_bytes())
    };
    let banner = match (has(&out_buf), has(&err_buf)) {
        (true, true) => "both",
        (true, false) => "stdout",
        (false, true) => "stderr",
        (false, false) => "none",
    };
    let mut res = res;
    res.push(sx::tagged("banner", vec![sx::atom(banner)]));
    let _ = std::fs::remove_dir_all(&sub.dir);
    sx::tagged("act3", res)
}

// ---------------------------------------------------------------------------
// generators

fn parse_case(address: &str, live: &[(&str, &str)], bindable: &[(&str, &str)]) -> Sx {
    let mk = |tag: &str, v: &[(&str, &str)]| {
        let mut l = vec![sx::atom(tag)];
        for (s, t) in v {
            l.push(sx::list(vec![sx::atom(*s), sx::xs(t)]));
        }
        sx::list(l)
    };
    sx::tagged("parse", vec![sx::xs(address), mk("live", live), mk("bindable", bindable)])
}

fn gen_parse(rng: &mut Rng) -> (Sx, Vec<String>) {
    // the environment of every parse case: three live targets, and the same three bindable
    let live = [("path", "%D/s.sock"), ("abstract", "%Alive"), ("tcp", "127.0.0.1:%P")];
    let bindable = [("tcp", "127.0.0.1:%Q"), ("tcp", "127.0.0.1:%P")];
    let params = ["", ";mode=0666", ";", ";;", ";mode=0666;x=y", ";@", ";unix:", "; "];
    let mut tags = Vec::new();
    let addr: String = match rng.below(20) {
        0..=2 => {
            tags.push("scheme:path");
            format!("unix:%D/{}{}", rng.pick(&["s.sock", "t.sock", "none.sock"]), rng.pick(&params))
        }
        3..=5 => {
            tags.push("scheme:abstract");
            format!("unix:@%A{}{}", rng.pick(&["live", "free", "other"]), rng.pick(&params))
        }
        6..=7 => {
            tags.push("scheme:tcp");
            format!("tcp:127.0.0.1:{}{}", rng.pick(&["%P", "%Q"]), rng.pick(&["", "", "", ";mode=0666", ";"]))
        }
        8 => {
            tags.push("scheme:tcp-garbage");
            rng.pick(&["tcp:", "tcp:;", "tcp:nohost", "tcp:127.0.0.1", "tcp:127.0.0.1:notaport", "tcp:@x", "tcp:unix:%D/s.sock"]).to_string()
        }
        9 => {
            tags.push("scheme:unix-edge");
            rng.pick(&["unix:%D/no/such/dir/s.sock", "unix:%D/s.sock\u{0}x", "unix:%D", "unix:%D/", "unix:@tcp:127.0.0.1:%P", "unix:tcp:127.0.0.1:%P", "unix:@unix:%D/s.sock", "unix:/proc/version"]).to_string()
        }
        10..=12 => {
            tags.push("scheme:case-or-space");
            let base = *rng.pick(&["unix:%D/s.sock", "unix:@%Alive", "tcp:127.0.0.1:%P"]);
            match rng.below(6) {
                0 => base.to_uppercase().replace("%D", "%D").replace("%P", "%P"),
                1 => format!(" {}", base),
                2 => base.replacen(':', "", 1),
                3 => base.replacen(':', "::", 1),
                4 => base.replacen(':', " :", 1),
                _ => {
                    let mut c: Vec<char> = base.chars().collect();
                    c[0] = c[0].to_ascii_uppercase();
                    c.into_iter().collect()
                }
            }
        }
        13..=15 => {
            tags.push("scheme:other");
            rng.pick(&[
                "", "unix", "tcp", "udp:127.0.0.1:%P", "http://127.0.0.1:%P", "file:%D/s.sock", "%D/s.sock", "@%Alive", "uni:x", "unixx:%D/s.sock",
                "tcpp:127.0.0.1:%P", "exec:ls", "ssh://host", ":", ";", "unix;%D/s.sock", "tcp;127.0.0.1:%P", "\u{fc}nix:%D/s.sock", "unix\u{ff1a}%D/s.sock",
                "tc:p:127.0.0.1:%P", "bridge", "device:/dev/null",
            ])
            .to_string()
        }
        16..=17 => {
            tags.push("scheme:prefix-mutation");
            // drop / duplicate / replace one character of a valid prefix
            let base = *rng.pick(&["unix:@%Alive", "unix:%D/s.sock", "tcp:127.0.0.1:%P"]);
            let plen = base.find(':').unwrap() + 1;
            let mut c: Vec<char> = base.chars().collect();
            let i = rng.below(plen);
            match rng.below(3) {
                0 => {
                    c.remove(i);
                }
                1 => {
                    let x = c[i];
                    c.insert(i, x);
                }
                _ => c[i] = *rng.pick(&['x', ':', '@', ';', 'U', ' ']),
            }
            c.into_iter().collect()
        }
        _ => {
            tags.push("scheme:random");
            let alphabet: Vec<char> = "unix:tcp@;/DAPQ. 0123\u{e9}".chars().collect();
            let n = rng.below(14);
            let mut s: String = (0..n).map(|_| *rng.pick(&alphabet)).collect();
            // a random string that happens to be a unix address would name a path outside the
            // scratch directory: point it into the abstract namespace instead (always bindable, never live)
            if let Some(rest) = s.strip_prefix("unix:") {
                if !rest.starts_with('@') {
                    s = format!("unix:@%A{}", rest);
                }
            } else if let Some(rest) = s.strip_prefix("tcp:") {
                // never a host name (no resolver in the sandbox): a numeric target made unparsable
                s = format!("tcp:127.0.0.1:%Q;{}", rest);
            }
            s
        }
    };
    (parse_case(&addr, &live, &bindable), tags.into_iter().map(|t| t.to_string()).collect())
}

fn actenv_case(fds: Option<&str>, pid: Sx, names: Option<&str>, passed: usize, address: &str) -> Sx {
    sx::tagged("actenv", vec![sx::opt_str(fds), pid, sx::opt_str(names), sx::nat(passed), sx::xs(address)])
}

fn pid_self(pre: &str, suf: &str) -> Sx {
    sx::tagged("self", vec![sx::xs(pre), sx::xs(suf)])
}
fn pid_lit(v: &str) -> Sx {
    sx::tagged("lit", vec![sx::xs(v)])
}

fn gen_actenv(rng: &mut Rng) -> (Sx, Vec<String>) {
    let fds_vals = [None, Some("0"), Some("1"), Some("1"), Some("1"), Some("2"), Some("3"), Some("+1"), Some("01"), Some("x"), Some("-1"), Some(" 1"), Some(""), Some("1 "), Some("18446744073709551616"), Some("4")];
    let names_vals = [None, Some("varlink"), Some("varlink"), Some("a:varlink"), Some("a:b:varlink"), Some("a:b"), Some("varlink:varlink"), Some(""), Some("Varlink"), Some(":varlink"), Some("varlink:"), Some("a:b:c:varlink"), Some("x:varlinky:varlink")];
    let fds = *rng.pick(&fds_vals);
    let names = *rng.pick(&names_vals);
    let pid = match rng.below(12) {
        0 => sx::atom("-"),
        1 => pid_lit("1"),
        2 => pid_lit("x"),
        3 => pid_lit(""),
        4 => pid_self("", "0"),
        5 => pid_self("1", ""),
        6 => pid_self("0", ""),
        7 => pid_self("+", ""),
        8 => pid_self("-", ""),
        _ => pid_self("", ""),
    };
    let address = *rng.pick(&["unix:%D/own.sock", "unix:%D/own.sock", "unix:@%Aown", "tcp:127.0.0.1:0", "unix:%D/own.sock;mode=0600", "bogus:%D/own.sock", "", "unix", "tcp"]);
    let mut tags = vec![
        format!("fds:{}", fds.unwrap_or("absent")),
        format!("names:{}", names.unwrap_or("absent")),
        format!("addr:{}", address.split(':').next().unwrap_or("")),
    ];
    tags.push(format!("pid:{}", match &pid {
        Sx::Atom(_) => "absent".to_string(),
        Sx::List(l) => format!("{}{}", l[0].as_atom().unwrap(), l[1..].iter().map(|x| format!("/{}", x.as_str().unwrap())).collect::<String>()),
    }));
    (actenv_case(fds, pid, names, 4, address), tags)
}

pub fn xport_case(spec: &WorldSpec, chunks: &[Vec<u8>], total: &[u8]) -> Sx {
    let mut rl = vec![sx::atom("reads")];
    rl.extend(chunks.iter().map(|c| sx::bs(c)));
    sx::tagged("xport", vec![spec.to_sx(), sx::list(rl), wire::dec_table(total)])
}

fn gen_xport(rng: &mut Rng, tok: &mut usize, thorough: bool) -> (Sx, Vec<String>) {
    let cfgs = wire::configs();
    let cfg = rng.pick(&cfgs);
    let len = match rng.below(10) {
        0 => 0,
        1..=3 => 1,
        4..=7 => rng.range(2, 5),
        _ => rng.range(6, if thorough { 40 } else { 14 }),
    };
    let mut reqs = Vec::new();
    let mut tags: Vec<String> = vec!["kind:xport".into()];
    let bad_at = if rng.chance(1, 6) && len > 0 { rng.below(len) } else { usize::MAX };
    for i in 0..len {
        *tok += 1;
        let t = format!("t{}z", tok);
        let r = if i == bad_at { wire::gen_malformed(rng, cfg, &t) } else { wire::gen_request(rng, cfg, &t) };
        tags.push(format!("req:{}", r.kind.split(':').next().unwrap_or("").split('+').next().unwrap_or("")));
        for part in r.kind.split('+').skip(1) {
            tags.push(format!("flag:{}", part));
        }
        reqs.push(r);
    }
    let mut total = wire::stream_of(&reqs);
    if rng.chance(1, 8) {
        total.extend_from_slice(b"{\"method\":\"org.varlink.serv");
        tags.push("dangling".into());
    }
    if rng.chance(1, 25) {
        let pad = "x".repeat(*rng.pick(&[8190usize, 8193, 70000]));
        let big = serde_json::json!({"method":"org.varlink.service.GetInfo","parameters":{"pad":pad}});
        total.extend_from_slice(&serde_json::to_vec(&big).unwrap());
        total.push(0);
        tags.push("oversize".into());
    }
    let chunks: Vec<Vec<u8>> = match rng.below(4) {
        0 => vec![total.clone()],
        1 => {
            let a = rng.below(total.len() + 1);
            let b = rng.below(total.len() + 1);
            wire::cut(&total, &[a, b])
        }
        2 => {
            let nuls: Vec<usize> = total.iter().enumerate().filter(|(_, b)| **b == 0).map(|(i, _)| i + 1).collect();
            wire::cut(&total, &nuls)
        }
        _ => {
            let k = rng.range(1, 6);
            let cs: Vec<usize> = (0..k).map(|_| rng.below(total.len() + 1)).collect();
            wire::cut(&total, &cs)
        }
    };
    tags.sort();
    tags.dedup();
    (xport_case(&WorldSpec::plain(cfg.sx.clone()), &chunks, &total), tags)
}

impl Suite for AddrSuite {
    fn generate(&self, ctx: &Ctx) -> Vec<Case> {
        let mut rng = Rng::new(ctx.seed ^ 0xadd2);
        let mut cases = Vec::new();
        if let Ok(txt) = std::fs::read_to_string(concat!(env!("CARGO_MANIFEST_DIR"), "/corpus/addr.txt")) {
            for l in txt.lines() {
                if let Some(s) = sx::parse(l) {
                    cases.push(Case { input: s, tags: vec!["corpus".into()] });
                }
            }
        }
        let (n_parse, n_env, n_xport) = if ctx.thorough { (3000, 1000, 600) } else { (500, 100, 140) };
        for _ in 0..n_parse {
            let (c, mut tags) = gen_parse(&mut rng);
            tags.push("kind:parse".into());
            cases.push(Case { input: c, tags });
        }
        for _ in 0..n_env {
            let (c, mut tags) = gen_actenv(&mut rng);
            tags.push("kind:actenv".into());
            cases.push(Case { input: c, tags });
        }
        // the systematic activation matrix
        for fds in [None, Some("0"), Some("1"), Some("3")] {
            for pid in [sx::atom("-"), pid_self("", ""), pid_lit("1"), pid_self("", "0"), pid_self("0", "")] {
                for names in [None, Some("varlink"), Some("a:varlink"), Some("a:b")] {
                    for address in ["unix:%D/own.sock", "tcp:127.0.0.1:0", "bogus:%D/own.sock"] {
                        cases.push(Case {
                            input: actenv_case(fds, pid.clone(), names, 4, address),
                            tags: vec!["kind:actenv".into(), "actenv:matrix".into()],
                        });
                    }
                }
            }
        }
        // a reply that takes longer than any plausible per-transport timeout, on all six transports at once
        {
            let cfgs = wire::configs();
            let slow_world = WorldSpec { svc: cfgs[1].sx.clone(), resolver: None, up: true, seq: false };
            let mut slow = vec![serde_json::json!({"method":"org.example.abort.SlowReply","parameters":{"delay_ms":5600,"token":"slow1"}})];
            if ctx.thorough {
                slow.push(serde_json::json!({"method":"org.example.abort.SlowStream","more":true,"parameters":{"delay_ms":5600,"token":"slow2"}}));
            }
            for v in slow {
                let mut total = serde_json::to_vec(&v).unwrap();
                total.push(0);
                let mut extra = serde_json::to_vec(&serde_json::json!({"method":"org.varlink.service.GetInfo"})).unwrap();
                extra.push(0);
                total.extend_from_slice(&extra);
                cases.push(Case { input: xport_case(&slow_world, &[total.clone()], &total), tags: vec!["kind:xport".into(), "xport:slow-reply".into()] });
            }
        }
        // a supervisor's socket: O_NONBLOCK on the inherited descriptor, no idle timeout; and a second
        // activation round on the same socket after the first service has ended on its idle timeout
        for (nb, idle, rounds) in [(true, 0usize, 1usize), (false, 0, 1), (true, 1, 2)].iter().chain(if ctx.thorough { [(false, 1usize, 2usize)].iter() } else { [].iter() }) {
            cases.push(Case {
                input: sx::tagged("actlisten", vec![sx::boolean(*nb), sx::nat(*idle), sx::nat(*rounds)]),
                tags: vec!["kind:actlisten".into()],
            });
        }
        // the listener already is descriptor 3 (C16-F2)
        for cfg in wire::configs().iter().take(if ctx.thorough { 4 } else { 2 }) {
            cases.push(Case {
                input: sx::tagged("act3", vec![WorldSpec::plain(cfg.sx.clone()).to_sx()]),
                tags: vec!["kind:act3".into()],
            });
        }
        // … or lands below 3 because the caller has (some of) its standard descriptors closed
        for closed in ["0", "0,1,2", "2", "1,2", "0,2", "1"] {
            cases.push(Case {
                input: sx::tagged("act3", vec![WorldSpec::plain(wire::configs()[0].sx.clone()).to_sx(), sx::xs(closed)]),
                tags: vec!["kind:act3".into(), format!("act3:closed-{}", closed)],
            });
        }
        // how the end of a connection is reported, per transport
        cases.push(Case { input: sx::tagged("errend", vec![]), tags: vec!["kind:errend".into()] });
        // the CLI's --activate / --bridge in front of the bridge sub-command, input closed right after the requests
        cases.push(Case { input: sx::tagged("cliact", vec![]), tags: vec!["kind:cliact".into()] });
        // two listeners in one process, the activation environment changed in between: every
        // `Listener::new` decides on the environment as it is at that moment
        {
            // (fds, pid, names): activated on 3, activated on 4 by name, and three ways of not being activated
            let act3 = (Some("1"), pid_self("", ""), None);
            let act3n = (Some("1"), pid_self("", ""), Some("varlink"));
            let act4 = (Some("2"), pid_self("", ""), Some("x:varlink"));
            let act5 = (Some("3"), pid_self("", ""), Some("a:b:varlink"));
            let none = (None, sx::atom("-"), None);
            let foreign = (Some("1"), pid_lit("1"), Some("varlink"));
            let zero = (Some("0"), pid_self("", ""), None);
            let child = (Some("1"), pid_self("", "0"), None); // the pid of somebody else (e.g. after fork)
            let pairs = vec![
                (act3.clone(), none.clone(), "act-not"),
                (act3n.clone(), foreign.clone(), "act-not"),
                (act3.clone(), child.clone(), "act-not"),
                (act4.clone(), zero.clone(), "act-not"),
                (none.clone(), act3.clone(), "not-act"),
                (foreign.clone(), act4.clone(), "not-act"),
                (child.clone(), act3n.clone(), "not-act"),
                (act3.clone(), act4.clone(), "act-act"),
                (act4.clone(), act3.clone(), "act-act"),
                (act4.clone(), act5.clone(), "act-act"),
                (act3.clone(), act3n.clone(), "act-act"),
                (none.clone(), foreign.clone(), "not-not"),
                (zero.clone(), none.clone(), "not-not"),
            ];
            let addrs = [("unix:%D/own1.sock", "unix:%D/own2.sock"), ("unix:%D/own1.sock", "tcp:127.0.0.1:0"), ("tcp:127.0.0.1:0", "unix:@%Aown2")];
            for (i, (a, b, tag)) in pairs.into_iter().enumerate() {
                let (a1, a2) = addrs[i % addrs.len()];
                let e = |t: &(Option<&str>, Sx, Option<&str>), addr: &str| sx::list(vec![sx::opt_str(t.0), t.1.clone(), sx::opt_str(t.2), sx::xs(addr)]);
                cases.push(Case {
                    input: sx::tagged("actenv2", vec![e(&a, a1), e(&b, a2), sx::nat(4)]),
                    tags: vec!["kind:actenv2".into(), format!("actenv2:{}", tag)],
                });
            }
        }
        // empty names around `varlink` in LISTEN_FDNAMES (positions count empty pieces)
        for names in ["::varlink", "a::varlink", "varlink::", ":varlink", "a:varlink:", ":a:varlink"] {
            for fds in ["2", "4"] {
                cases.push(Case {
                    input: actenv_case(Some(fds), pid_self("", ""), Some(names), 4, "unix:%D/own.sock"),
                    tags: vec!["kind:actenv".into(), "actenv:empty-names".into()],
                });
            }
        }
        let mut tok = 0usize;
        for _ in 0..n_xport {
            let (c, tags) = gen_xport(&mut rng, &mut tok, ctx.thorough);
            cases.push(Case { input: c, tags });
        }
        cases
    }

    fn run(&self, ctx: &Ctx, input: &Sx) -> Sx {
        let l = input.as_list().expect("case");
        match l[0].as_atom().unwrap_or("") {
            "parse" => run_parse(ctx, l),
            "actenv" => run_actenv(ctx, l),
            "actenv2" => run_actenv2(ctx, l),
            "errend" => run_errend(ctx),
            "cliact" => run_cliact(ctx),
            "xport" => run_xport(ctx, l),
            "act3" => run_act3(ctx, l),
            "actlisten" => run_actlisten(ctx, l),
            other => panic!("case kind {}", other),
        }
    }
}
