//! Suite `listen`: the REAL `varlink::listen` on real sockets (C13, C15; also the
//! socket half of C01/C02: the per-connection worker closure of server.rs).
//!
//! Concurrency mode (C13):
//!   (listen-conc <transport> <initial> <svc> (clients <client>*))
//!     transport = unix | abstract | tcp
//!     client    = (client <kind> <start-ms> (chunks b<chunk>*) <dec>)
//!     kind      = half      send all chunks (small pauses), half-close, read to EOF
//!               | dropmid   like half (the stream ends in the middle of a message)
//!               | idle      connect, send nothing, close after a while
//!   Observation: (obs (c <closed> (out <reply>*) b<upgraded-echo> <ref>)*) one `c` per client, where
//!   <ref> = the in-memory reference (handle() on the same bytes, fresh service).
//!
//! Timing mode (C15):
//!   (listen-timing <idle-s> <stop> <initial> <max> (conns (conn <at-ms> <hold-ms>)*))
//!     stop = - | <set-at-ms>
//!   Observation: (tobs <result> <return-ms> <socket-removed> (c <accepted-ms> <complete> <closed-ms>)*)
//!     result = ok | timeout | err
use crate::rng::Rng;
use crate::suites::wire::{self, build_service_opts, configs, dec_table, gen_malformed, gen_request, socket_configs, split_replies, stream_of, SvcCfg};
use crate::sx::{self, Sx};
use crate::{Case, Ctx, Suite};
use std::io::{Read, Write};
use std::net::{Shutdown, TcpStream};
use std::os::unix::net::UnixStream;
use std::sync::atomic::{AtomicBool, AtomicUsize, Ordering};
use std::sync::Arc;
use std::thread;
use std::time::{Duration, Instant};
use varlink::ConnectionHandler;

pub struct ListenSuite;

static COUNTER: AtomicUsize = AtomicUsize::new(0);

fn work_dir() -> String {
    let d = format!("{}/../work/sock", env!("CARGO_MANIFEST_DIR"));
    let _ = std::fs::create_dir_all(&d);
    d
}

enum Conn {
    Unix(UnixStream),
    Tcp(TcpStream),
}

impl Conn {
    fn write_all(&mut self, b: &[u8]) -> std::io::Result<()> {
        match self {
            Conn::Unix(s) => s.write_all(b),
            Conn::Tcp(s) => s.write_all(b),
        }
    }
    fn shutdown_write(&mut self) {
        let _ = match self {
            Conn::Unix(s) => s.shutdown(Shutdown::Write),
            Conn::Tcp(s) => s.shutdown(Shutdown::Write),
        };
    }
    fn set_write_timeout(&mut self, d: Duration) {
        let _ = match self {
            Conn::Unix(s) => s.set_write_timeout(Some(d)),
            Conn::Tcp(s) => s.set_write_timeout(Some(d)),
        };
    }
    fn set_timeout(&mut self, d: Duration) {
        let _ = match self {
            Conn::Unix(s) => s.set_read_timeout(Some(d)),
            Conn::Tcp(s) => s.set_read_timeout(Some(d)),
        };
    }
    fn read(&mut self, buf: &mut [u8]) -> std::io::Result<usize> {
        match self {
            Conn::Unix(s) => s.read(buf),
            Conn::Tcp(s) => s.read(buf),
        }
    }
}

fn connect(addr: &str) -> Option<Conn> {
    for _ in 0..200 {
        let r = if let Some(a) = addr.strip_prefix("tcp:") {
            TcpStream::connect(a).ok().map(Conn::Tcp)
        } else if let Some(a) = addr.strip_prefix("unix:@") {
            use std::os::linux::net::SocketAddrExt;
            let sa = std::os::unix::net::SocketAddr::from_abstract_name(a).ok()?;
            UnixStream::connect_addr(&sa).ok().map(Conn::Unix)
        } else if let Some(a) = addr.strip_prefix("unix:") {
            UnixStream::connect(a.split(';').next().unwrap()).ok().map(Conn::Unix)
        } else {
            None
        };
        if r.is_some() {
            return r;
        }
        thread::sleep(Duration::from_millis(10));
    }
    None
}

fn fresh_addr(transport: &str) -> String {
    let n = COUNTER.fetch_add(1, Ordering::SeqCst);
    let pid = std::process::id();
    match transport {
        "tcp" => {
            let l = std::net::TcpListener::bind("127.0.0.1:0").unwrap();
            let p = l.local_addr().unwrap().port();
            drop(l);
            format!("tcp:127.0.0.1:{}", p)
        }
        "abstract" => format!("unix:@vverif-{}-{}", pid, n),
        _ => format!("unix:{}/l-{}-{}", work_dir(), pid, n),
    }
}

/// split the echo of the upgraded handler (`UP:<bytes>` after the last reply) off the byte stream
fn split_up(bytes: &[u8]) -> (Vec<u8>, Vec<u8>) {
    // replies are JSON objects followed by NUL; the echo starts at a message boundary with `UP:`
    let mut p = 0;
    loop {
        if bytes[p..].starts_with(b"UP:") {
            // a segment-wise handler echoes several times: drop every marker
            let mut up = Vec::new();
            let mut q = p;
            while q < bytes.len() {
                if bytes[q..].starts_with(b"UP:") {
                    q += 3;
                } else {
                    up.push(bytes[q]);
                    q += 1;
                }
            }
            return (bytes[..p].to_vec(), up);
        }
        match bytes[p..].iter().position(|b| *b == 0) {
            Some(i) => p += i + 1,
            None => return (bytes.to_vec(), Vec::new()),
        }
        if p >= bytes.len() {
            return (bytes.to_vec(), Vec::new());
        }
    }
}

fn reference(svc: &Sx, total: &[u8]) -> Sx {
    let built = build_service_opts(svc, true);
    let mut out = Vec::new();
    let mut rd: &[u8] = total;
    let r = built.service.handle(&mut rd, &mut out, None);
    // the worker closure: on upgrade, everything after the request goes to the upgraded handler
    let (status, up): (&str, Vec<u8>) = match &r {
        Err(_) => ("err", Vec::new()),
        Ok((_, None)) => ("eof", Vec::new()),
        Ok((t, Some(iface))) => {
            let mut v = t.clone();
            v.extend_from_slice(rd);
            if iface == wire::LINE_WISE_IFACE || iface == wire::SEG_LINE_IFACE {
                // that fixture echoes the complete lines only
                let cut = v.iter().rposition(|b| *b == b'\n').map(|i| i + 1).unwrap_or(0);
                v.truncate(cut);
            }
            ("up", v)
        }
    };
    sx::tagged("ref", vec![sx::atom(status), sx::tagged("out", split_replies(&out)), sx::bs(&up)])
}

/// How long does a trivial round trip to this server take right now?  (On a loaded machine every latency
/// threshold of a case is widened by a multiple of it: a verdict "late" is about waiting for another
/// connection, not about the scheduler.)
fn probe_ms(addr: &str) -> u64 {
    let t = Instant::now();
    if let Some(mut c) = connect(addr) {
        c.set_timeout(Duration::from_millis(5000));
        let _ = c.write_all(b"{\"method\":\"org.varlink.service.GetInfo\"}\0");
        let mut b = [0u8; 4096];
        let mut got = Vec::new();
        while !got.contains(&0) {
            match c.read(&mut b) {
                Ok(0) | Err(_) => break,
                Ok(k) => got.extend_from_slice(&b[..k]),
            }
        }
    }
    t.elapsed().as_millis() as u64
}

fn run_conc(l: &[Sx]) -> Sx {
    let transport = l[1].as_atom().unwrap().to_string();
    let initial = l[2].as_usize().unwrap();
    let svc = l[3].clone();
    let clients: Vec<Sx> = l[4].as_list().unwrap()[1..].to_vec();
    let max_override: Option<usize> = l.get(5).and_then(|m| m.as_list()).and_then(|m| m.get(1)).and_then(|m| m.as_usize());
    // long enough that a peer which is merely slow (a loaded machine) is told apart from one that waited for the
    // stalled peer to go on
    let stall_ms: u64 = 1500;
    let has_stall = clients.iter().any(|c| matches!(c.as_list().unwrap()[1].as_atom(), Some("stall") | Some("flood") | Some("mute")));
    let addr = fresh_addr(&transport);
    let stop = Arc::new(AtomicBool::new(false));
    let built = build_service_opts(&svc, true);
    let server = {
        let addr = addr.clone();
        let stop = stop.clone();
        let max = max_override.unwrap_or(clients.len() + 2);
        thread::spawn(move || {
            varlink::listen(
                built.service,
                &addr,
                &varlink::ListenConfig {
                    initial_worker_threads: initial,
                    max_worker_threads: max,
                    idle_timeout: 0,
                    stop_listening: Some(stop),
                },
            )
            .is_ok()
        })
    };
    let slack = (probe_ms(&addr).saturating_sub(5) * 8).min(4000);
    let mut handles = Vec::new();
    for c in &clients {
        let cl = c.as_list().unwrap().to_vec();
        let addr = addr.clone();
        handles.push(thread::spawn(move || {
            let kind = cl[1].as_atom().unwrap().to_string();
            let start = cl[2].as_usize().unwrap() as u64;
            let chunks: Vec<Vec<u8>> = cl[3].as_list().unwrap()[1..].iter().map(|x| x.as_bytes().unwrap()).collect();
            thread::sleep(Duration::from_millis(start));
            let t_begin = Instant::now();
            let mut conn = match connect(&addr) {
                Some(c) => c,
                None => return (false, Vec::new(), 0u64),
            };
            conn.set_timeout(Duration::from_millis(20000));
            if kind == "idle" {
                thread::sleep(Duration::from_millis(30));
                return (true, Vec::new(), 0);
            }
            if kind == "flood" {
                // a peer that pipelines far more requests than fit into the socket buffers and never
                // reads a reply: its own worker ends up blocked in write(), nobody else may be
                conn.set_write_timeout(Duration::from_millis(stall_ms + 300));
                let one = b"{\"method\":\"org.varlink.service.GetInfo\"}\0";
                let mut blob = Vec::with_capacity(one.len() * 40000);
                for _ in 0..40000 {
                    blob.extend_from_slice(one);
                }
                let t = Instant::now();
                let _ = conn.write_all(&blob);
                let spent = t.elapsed();
                if spent < Duration::from_millis(stall_ms + 300) {
                    thread::sleep(Duration::from_millis(stall_ms + 300) - spent);
                }
                return (true, Vec::new(), 0);
            }
            let mut first_reply_ms: Option<u64> = None;
            if kind == "mute" {
                // connected, and not a byte for a long while
                thread::sleep(Duration::from_millis(stall_ms));
            }
            for (i, ch) in chunks.iter().enumerate() {
                if conn.write_all(ch).is_err() {
                    break;
                }
                if kind == "stall" && i == 0 {
                    // a peer that stops in the middle of a message and goes on much later
                    thread::sleep(Duration::from_millis(stall_ms));
                } else if kind == "slow" {
                    thread::sleep(Duration::from_millis(25));
                } else if i % 3 == 2 {
                    thread::sleep(Duration::from_millis(1));
                } else {
                    thread::yield_now();
                }
            }
            if kind == "sendclose" {
                // a peer that hangs up without reading a single reply: the server's writes fail
                drop(conn);
                return (true, Vec::new(), 0);
            }
            let mut got = Vec::new();
            let mut buf = [0u8; 65536];
            if kind == "hold" {
                // wait for the first reply, keep the connection open for a while, then finish
                let dl = Instant::now() + Duration::from_secs(5);
                while !got.contains(&0) && Instant::now() < dl {
                    match conn.read(&mut buf) {
                        Ok(0) | Err(_) => break,
                        Ok(n) => got.extend_from_slice(&buf[..n]),
                    }
                }
                first_reply_ms = Some(t_begin.elapsed().as_millis() as u64);
                thread::sleep(Duration::from_millis(1200));
            }
            if kind != "badhold" {
                conn.shutdown_write();
            }
            let mut closed = false;
            let deadline = Instant::now() + Duration::from_secs(if kind == "badhold" { 5 } else { 20 });
            loop {
                // a server that never stops writing is an observation, not a reason to eat all memory
                if got.len() > (4 << 20) || Instant::now() > deadline {
                    break;
                }
                match conn.read(&mut buf) {
                    Ok(0) => {
                        closed = true;
                        break;
                    }
                    Ok(n) => got.extend_from_slice(&buf[..n]),
                    Err(e) => {
                        // the server closed while bytes of ours were still unread on its side
                        // (after an error it shuts the stream down): the kernel reports a reset
                        // after delivering everything that was queued for us
                        closed = matches!(
                            e.kind(),
                            std::io::ErrorKind::ConnectionReset | std::io::ErrorKind::BrokenPipe | std::io::ErrorKind::ConnectionAborted
                        );
                        break;
                    }
                }
            }
            if kind == "badhold" {
                // a faulty peer that neither closes nor half-closes: it has seen the server give up on it
                // (or not) and just keeps its socket for a while
                thread::sleep(Duration::from_millis(2000));
            }
            (closed, got, first_reply_ms.unwrap_or(t_begin.elapsed().as_millis() as u64))
        }));
    }
    let mut obs = Vec::new();
    for (h, c) in handles.into_iter().zip(clients.iter()) {
        let (closed, got, elapsed) = h.join().unwrap_or((false, Vec::new(), 0));
        let cl = c.as_list().unwrap();
        let kind = cl[1].as_atom().unwrap_or("");
        // while another peer is stalled in the middle of a message, a prompt peer must not wait for it
        // (`hold` peers report the time to their FIRST reply: with free workers below the limit nobody
        // waits for another connection to finish)
        // (a peer that had to wait for the stalled one is done only after it went on, one that had to wait for a
        // long-lived one gets its first reply only after 1.2 s: the thresholds leave a second for a loaded machine)
        let late = (has_stall && (kind == "half" || kind == "dropmid") && elapsed > stall_ms - 400 + slack.min(300))
            || (kind == "hold" && elapsed > 900 + slack.min(250));
        let total: Vec<u8> = cl[3].as_list().unwrap()[1..].iter().flat_map(|x| x.as_bytes().unwrap()).collect();
        let (replies, up) = split_up(&got);
        obs.push(sx::tagged(
            "c",
            vec![sx::boolean(closed), sx::tagged("out", split_replies(&replies)), sx::bs(&up), sx::boolean(late), reference(&svc, &total)],
        ));
    }
    stop.store(true, Ordering::SeqCst);
    // a worker that never finishes (e.g. spinning on a dead connection) must not hang the harness
    let deadline = Instant::now() + Duration::from_secs(6);
    while !server.is_finished() && Instant::now() < deadline {
        thread::sleep(Duration::from_millis(10));
    }
    if server.is_finished() {
        // listen() must return Ok after the stop flag; a panic of a worker thread resurfaces here
        // (ThreadPool::drop joins the workers)
        match server.join() {
            Ok(true) => obs.push(sx::list(vec![sx::atom("server"), sx::atom("ok")])),
            Ok(false) => obs.push(sx::list(vec![sx::atom("server"), sx::atom("err")])),
            Err(_) => obs.push(sx::list(vec![sx::atom("server"), sx::atom("panic")])),
        }
    } else {
        obs.push(sx::list(vec![sx::atom("server-did-not-stop")]));
    }
    if let Some(p) = addr.strip_prefix("unix:") {
        if !p.starts_with('@') {
            let _ = std::fs::remove_file(p);
        }
    }
    sx::tagged("obs", obs)
}

fn run_timing(l: &[Sx]) -> Sx {
    let idle = l[1].as_usize().unwrap() as u64;
    let stop_at: Option<u64> = l[2].as_usize().map(|x| x as u64);
    let initial = l[3].as_usize().unwrap();
    let max = l[4].as_usize().unwrap();
    let conns: Vec<(u64, u64)> = l[5].as_list().unwrap()[1..]
        .iter()
        .map(|c| {
            let c = c.as_list().unwrap();
            (c[1].as_usize().unwrap() as u64, c[2].as_usize().unwrap() as u64)
        })
        .collect();
    let addr = fresh_addr("unix");
    let path = addr.strip_prefix("unix:").unwrap().to_string();
    let stop = Arc::new(AtomicBool::new(false));
    let svc = configs().remove(0).sx;
    let built = build_service_opts(&svc, false);
    let has_opt = |name: &str| l.iter().skip(6).any(|m| m.as_list().map(|m| m.first().and_then(|a| a.as_atom()) == Some(name)).unwrap_or(false));
    // a stale entry at the socket path (left behind by an instance that was killed)
    if has_opt("stale") {
        let stale = std::os::unix::net::UnixListener::bind(&path);
        drop(stale);
    }
    // a second listener on another address sharing the same stop flag
    let twin = if has_opt("twin") && stop_at.is_some() {
        let addr2 = fresh_addr("unix");
        let stop2 = stop.clone();
        let built2 = build_service_opts(&svc, false);
        Some(thread::spawn(move || {
            let r = varlink::listen(
                built2.service,
                &addr2,
                &varlink::ListenConfig { initial_worker_threads: 1, max_worker_threads: 2, idle_timeout: 0, stop_listening: Some(stop2) },
            );
            (r.is_ok(), Instant::now())
        }))
    } else {
        None
    };
    let stale_wait = has_opt("stale");
    // a handled signal delivered to the thread that runs listen() (a wait that is interrupted is not a wait that is over)
    let signal_at: Option<u64> = l.iter().skip(6).filter_map(|m| m.as_list()).find(|m| m.first().and_then(|a| a.as_atom()) == Some("signal"))
        .and_then(|m| m.get(1).and_then(|x| x.as_usize())).map(|x| x as u64);
    // make sure the socket exists before the clock starts: bind happens inside listen(), so start
    // the clock when the path appears
    let t_server = {
        let addr = addr.clone();
        let stop = stop.clone();
        let with_stop = stop_at.is_some();
        thread::spawn(move || {
            let r = varlink::listen(
                built.service,
                &addr,
                &varlink::ListenConfig {
                    initial_worker_threads: initial,
                    max_worker_threads: max,
                    idle_timeout: idle,
                    stop_listening: if with_stop { Some(stop) } else { None },
                },
            );
            let at = Instant::now();
            let kind = match r {
                Ok(()) => "ok",
                Err(e) => match e.kind() {
                    varlink::ErrorKind::Timeout => "timeout",
                    _ => "err",
                },
            };
            (kind, at)
        })
    };
    let wait_start = Instant::now();
    while !std::path::Path::new(&path).exists() && wait_start.elapsed() < Duration::from_secs(3) {
        thread::sleep(Duration::from_millis(1));
    }
    if stale_wait {
        // the path existed before: give the listener a moment to replace the stale entry
        thread::sleep(Duration::from_millis(60));
    }
    let t0 = Instant::now();
    if let Some(at) = signal_at {
        use std::os::unix::thread::JoinHandleExt;
        extern "C" fn noop(_: libc::c_int) {}
        unsafe {
            let mut sa: libc::sigaction = std::mem::zeroed();
            sa.sa_sigaction = noop as usize;
            sa.sa_flags = 0;
            libc::sigemptyset(&mut sa.sa_mask);
            libc::sigaction(libc::SIGUSR1, &sa, std::ptr::null_mut());
        }
        let pt = t_server.as_pthread_t();
        thread::spawn(move || {
            for k in 0..3u64 {
                thread::sleep(Duration::from_millis(if k == 0 { at } else { 150 }));
                unsafe {
                    libc::pthread_kill(pt, libc::SIGUSR1);
                }
            }
        });
    }
    let fired = Arc::new(AtomicBool::new(false));
    if let Some(s) = stop_at {
        let stop = stop.clone();
        let fired = fired.clone();
        thread::spawn(move || {
            thread::sleep(Duration::from_millis(s));
            stop.store(true, Ordering::SeqCst);
            fired.store(true, Ordering::SeqCst);
        });
    }
    let mut hs = Vec::new();
    for (at, hold) in conns.iter().cloned() {
        let addr = addr.clone();
        hs.push(thread::spawn(move || {
            let target = t0 + Duration::from_millis(at);
            let now = Instant::now();
            if target > now {
                thread::sleep(target - now);
            }
            let mut conn = match connect(&addr) {
                Some(c) => c,
                None => return (0u64, false, false, 0u64),
            };
            let accepted = t0.elapsed().as_millis() as u64;
            conn.set_timeout(Duration::from_millis(8000));
            let read_reply = |conn: &mut Conn| -> bool {
                let mut got = Vec::new();
                let mut b = [0u8; 4096];
                loop {
                    match conn.read(&mut b) {
                        Ok(0) => return false,
                        Ok(n) => {
                            got.extend_from_slice(&b[..n]);
                            if got.last() == Some(&0) {
                                return serde_json::from_slice::<serde_json::Value>(&got[..got.len() - 1]).is_ok();
                            }
                        }
                        Err(_) => return false,
                    }
                }
            };
            let first = conn.write_all(b"{\"method\":\"org.varlink.service.GetInfo\"}\0").is_ok() && read_reply(&mut conn);
            if !first {
                // never served: when did the server (or the kernel, for a connection still in the backlog
                // when the listener went away) end it?
                return (accepted, false, false, t0.elapsed().as_millis() as u64);
            }
            let mut complete = first;
            let end = t0 + Duration::from_millis(at + hold);
            let now = Instant::now();
            if end > now {
                thread::sleep(end - now);
            }
            complete = complete
                && conn.write_all(b"{\"method\":\"org.varlink.service.GetInterfaceDescription\",\"parameters\":{\"interface\":\"org.varlink.service\"}}\0").is_ok()
                && read_reply(&mut conn);
            conn.shutdown_write();
            let closed = t0.elapsed().as_millis() as u64;
            (accepted, first, complete, closed)
        }));
    }
    // an observation horizon (cases whose server is expected to outlive the case: it is then left behind,
    // blocked in accept, and goes away with the harness process)
    let horizon: Option<u64> = l.iter().skip(6).filter_map(|m| m.as_list()).find(|m| m.first().and_then(|a| a.as_atom()) == Some("horizon"))
        .and_then(|m| m.get(1).and_then(|x| x.as_usize())).map(|x| x as u64);
    if let Some(h) = horizon {
        let end = t0 + Duration::from_millis(h);
        while !t_server.is_finished() && Instant::now() < end {
            thread::sleep(Duration::from_millis(5));
        }
        if !t_server.is_finished() {
            for hd in hs {
                let _ = hd.join();
            }
            let _ = std::fs::remove_file(&path);
            return sx::tagged("tobs", vec![sx::atom("running"), sx::nat(h as usize), sx::boolean(false)]);
        }
    }
    let (kind, at) = t_server.join().unwrap_or(("err", Instant::now()));
    let ret_ms = at.saturating_duration_since(t0).as_millis() as u64;
    let removed = !std::path::Path::new(&path).exists();
    let mut obs = vec![sx::atom(kind), sx::nat(ret_ms as usize), sx::boolean(removed)];
    for h in hs {
        let (a, f, c, e) = h.join().unwrap_or((0, false, false, 0));
        obs.push(sx::list(vec![sx::atom("c"), sx::nat(a as usize), sx::boolean(f), sx::boolean(c), sx::nat(e as usize)]));
    }
    let _ = std::fs::remove_file(&path);
    // the flag belongs to the caller: listen() only reads it
    obs.push(sx::list(vec![sx::atom("flag"), sx::boolean(!fired.load(Ordering::SeqCst) || stop.load(Ordering::SeqCst))]));
    if let Some(tw) = twin {
        let end = Instant::now() + Duration::from_millis(3000);
        while !tw.is_finished() && Instant::now() < end {
            thread::sleep(Duration::from_millis(5));
        }
        if tw.is_finished() {
            let (ok, at) = tw.join().unwrap_or((false, Instant::now()));
            obs.push(sx::list(vec![sx::atom("twin"), sx::atom(if ok { "ok" } else { "err" }), sx::nat(at.saturating_duration_since(t0).as_millis() as usize)]));
        } else {
            obs.push(sx::list(vec![sx::atom("twin"), sx::atom("running"), sx::nat(t0.elapsed().as_millis() as usize)]));
        }
    }
    sx::tagged("tobs", obs)
}

/// The bound and the no-stranding clause at the level of `listen` itself (C14): `n` long-lived peers arrive
/// `stagger` ms apart; each sends one request, waits for the reply and keeps its connection for `hold` ms.
///   (listen-bound <transport> <initial> <max> <n> <hold> <stagger> <opt>*)
///   opt = (nostop)        no stop flag and no idle timeout (the acceptor blocks in accept); the server is
///                         left behind when the case is over
///       | (upgrade0)      the first peer's request upgrades its connection
///       | (warm <k>)      before the measured phase an earlier `listen` in the same process grew its pool to
///                         k workers and returned through its idle timeout
/// Observation: (bobs (c <first-reply ms | -> <closed ms>)*)
fn run_bound(l: &[Sx]) -> Sx {
    let transport = l[1].as_atom().unwrap().to_string();
    let initial = l[2].as_usize().unwrap();
    let max = l[3].as_usize().unwrap();
    let n = l[4].as_usize().unwrap();
    let hold = l[5].as_usize().unwrap() as u64;
    let stagger = l[6].as_usize().unwrap() as u64;
    let opt = |name: &str| -> Option<Vec<Sx>> {
        l.iter().skip(7).filter_map(|m| m.as_list()).find(|m| m.first().and_then(|a| a.as_atom()) == Some(name)).map(|m| m.to_vec())
    };
    let nostop = opt("nostop").is_some();
    let upgrade0 = opt("upgrade0").is_some();
    let short_last = opt("shortlast").is_some();
    let warm: Option<usize> = opt("warm").and_then(|m| m.get(1).and_then(|x| x.as_usize()));
    // (burst k gap): before the measured phase, k short simultaneous connections to THIS server, then gap ms
    // with no traffic at all (workers started on demand have nothing to do for a while)
    let burst: Option<(usize, u64)> = opt("burst").and_then(|m| Some((m.get(1)?.as_usize()?, m.get(2)?.as_usize()? as u64)));
    let svc = configs().remove(1).sx;
    if let Some(k) = warm {
        // phase 0: a listen() that grows to k workers and leaves through its idle timeout
        let addr0 = fresh_addr("unix");
        let built0 = build_service_opts(&svc, false);
        let a0 = addr0.clone();
        let srv = thread::spawn(move || {
            let _ = varlink::listen(
                built0.service,
                &a0,
                &varlink::ListenConfig { initial_worker_threads: 1, max_worker_threads: k + 1, idle_timeout: 1, stop_listening: None },
            );
        });
        let mut hs = Vec::new();
        for _ in 0..k {
            let a = addr0.clone();
            hs.push(thread::spawn(move || {
                if let Some(mut c) = connect(&a) {
                    c.set_timeout(Duration::from_millis(3000));
                    let _ = c.write_all(b"{\"method\":\"org.varlink.service.GetInfo\"}\0");
                    let mut b = [0u8; 4096];
                    let _ = c.read(&mut b);
                    thread::sleep(Duration::from_millis(300));
                }
            }));
        }
        for h in hs {
            let _ = h.join();
        }
        let end = Instant::now() + Duration::from_millis(4000);
        while !srv.is_finished() && Instant::now() < end {
            thread::sleep(Duration::from_millis(10));
        }
    }
    let addr = fresh_addr(&transport);
    let stop = Arc::new(AtomicBool::new(false));
    let built = build_service_opts(&svc, true);
    let server = {
        let addr = addr.clone();
        let stop = stop.clone();
        thread::spawn(move || {
            varlink::listen(
                built.service,
                &addr,
                &varlink::ListenConfig {
                    initial_worker_threads: initial,
                    max_worker_threads: max,
                    idle_timeout: 0,
                    stop_listening: if nostop { None } else { Some(stop) },
                },
            )
            .is_ok()
        })
    };
    // wait until the service answers connections
    match connect(&addr) {
        Some(c) => drop(c),
        None => return sx::tagged("bobs", vec![sx::atom("no-server")]),
    }
    thread::sleep(Duration::from_millis(80));
    let slack = (probe_ms(&addr).saturating_sub(5) * 8).min(4000);
    if let Some((k, gap)) = burst {
        let mut bs = Vec::new();
        for _ in 0..k {
            let a = addr.clone();
            bs.push(thread::spawn(move || {
                if let Some(mut c) = connect(&a) {
                    c.set_timeout(Duration::from_millis(3000));
                    let _ = c.write_all(b"{\"method\":\"org.varlink.service.GetInfo\"}\0");
                    let mut b = [0u8; 4096];
                    let _ = c.read(&mut b);
                    thread::sleep(Duration::from_millis(150));
                }
            }));
        }
        for h in bs {
            let _ = h.join();
        }
        thread::sleep(Duration::from_millis(gap));
    }
    let t0 = Instant::now();
    let mut hs = Vec::new();
    for i in 0..n {
        let addr = addr.clone();
        hs.push(thread::spawn(move || {
            let target = t0 + Duration::from_millis(stagger * i as u64);
            let now = Instant::now();
            if target > now {
                thread::sleep(target - now);
            }
            let mut conn = match connect(&addr) {
                Some(c) => c,
                None => return (None, t0.elapsed().as_millis() as u64),
            };
            conn.set_timeout(Duration::from_millis(4000));
            let req: Vec<u8> = if upgrade0 && i == 0 {
                let mut v = serde_json::to_vec(&serde_json::json!({"method":"org.example.s.Run","upgrade":true,
                    "parameters":{"token":"t0z","script":[{"op":"upgrade"},{"op":"reply","p":{"token":"t0z"}}]}})).unwrap();
                v.push(0);
                v
            } else {
                b"{\"method\":\"org.varlink.service.GetInfo\"}\0".to_vec()
            };
            if conn.write_all(&req).is_err() {
                return (None, t0.elapsed().as_millis() as u64);
            }
            let mut got = Vec::new();
            let mut b = [0u8; 4096];
            let first = loop {
                match conn.read(&mut b) {
                    Ok(0) | Err(_) => break None,
                    Ok(k) => {
                        got.extend_from_slice(&b[..k]);
                        if got.contains(&0) {
                            break Some(t0.elapsed().as_millis() as u64);
                        }
                    }
                }
            };
            if first.is_some() {
                // (the last peer only needs to be served, not to stay)
                thread::sleep(Duration::from_millis(if short_last && i + 1 == n { 100 } else { hold }));
            }
            conn.shutdown_write();
            drop(conn);
            (first, t0.elapsed().as_millis() as u64)
        }));
    }
    let mut obs = vec![sx::list(vec![sx::atom("slack"), sx::nat(slack as usize)])];
    for h in hs {
        let (first, closed) = h.join().unwrap_or((None, 0));
        obs.push(sx::list(vec![sx::atom("c"), first.map(|f| sx::nat(f as usize)).unwrap_or_else(|| sx::atom("-")), sx::nat(closed as usize)]));
    }
    stop.store(true, Ordering::SeqCst);
    if !nostop {
        let end = Instant::now() + Duration::from_millis(4000);
        while !server.is_finished() && Instant::now() < end {
            thread::sleep(Duration::from_millis(10));
        }
    }
    if let Some(p) = addr.strip_prefix("unix:") {
        if !p.starts_with('@') {
            let _ = std::fs::remove_file(p);
        }
    }
    sx::tagged("bobs", obs)
}

/// A service started with socket activation (descriptor 3 = a filesystem unix socket bound by the
/// harness) serves one client, runs into its idle timeout and exits: the socket path, which the service
/// did not create, must still be there.   Observation: (aobs <served> <exited> <path-still-exists>)
fn run_activated(l: &[Sx]) -> Sx {
    use crate::suites::addr::world;
    use std::os::unix::io::AsRawFd;
    use std::os::unix::process::CommandExt;
    let idle = l[1].as_usize().unwrap_or(1);
    let nonblock = l.get(2).and_then(|a| a.as_atom()) == Some("nonblock");
    let n = COUNTER.fetch_add(1, Ordering::SeqCst);
    let dir = format!("{}/act-{}-{}", work_dir(), std::process::id(), n);
    let _ = std::fs::remove_dir_all(&dir);
    std::fs::create_dir_all(&dir).unwrap();
    let path = format!("{}/s", dir);
    let listener = std::os::unix::net::UnixListener::bind(&path).expect("bind");
    let spec = world::WorldSpec::plain(configs().remove(0).sx);
    let specfile = format!("{}/spec", dir);
    std::fs::write(&specfile, spec.to_sx().render()).unwrap();
    let fd = listener.as_raw_fd();
    if nonblock {
        // as a supervisor may hand it over (the flag lives in the open file description, so the service inherits it)
        let _ = listener.set_nonblocking(true);
    }
    let mut cmd = std::process::Command::new("sh");
    cmd.arg("-c")
        .arg("LISTEN_PID=$$ exec \"$0\" \"$@\"")
        .arg(world::helper_path())
        .arg("serve")
        .arg(&specfile)
        .arg(format!("unix:{}", path))
        .arg("--idle")
        .arg(format!("{}", idle))
        .env("LISTEN_FDS", "1")
        .env_remove("LISTEN_FDNAMES")
        .stdin(std::process::Stdio::null());
    unsafe {
        cmd.pre_exec(move || {
            let h = libc::fcntl(fd, libc::F_DUPFD, 200);
            if h < 0 {
                return Err(std::io::Error::last_os_error());
            }
            for f in 3..200 {
                libc::close(f);
            }
            if libc::dup2(h, 3) < 0 {
                return Err(std::io::Error::last_os_error());
            }
            libc::close(h);
            Ok(())
        });
    }
    let child = cmd.spawn().expect("spawn helper");
    let mut guard = world::ChildGuard::new(child);
    if idle == 0 {
        // let the service reach its accept loop before anybody connects (a pending connection hides a
        // listener that does not wait)
        thread::sleep(Duration::from_millis(400));
    }
    // one client, so that we know the activated socket is really being served
    let served = match connect(&format!("unix:{}", path)) {
        Some(mut c) => {
            c.set_timeout(Duration::from_millis(4000));
            let ok = c.write_all(b"{\"method\":\"org.varlink.service.GetInfo\"}\0").is_ok();
            let mut got = Vec::new();
            let mut b = [0u8; 4096];
            while ok {
                match c.read(&mut b) {
                    Ok(0) | Err(_) => break,
                    Ok(k) => {
                        got.extend_from_slice(&b[..k]);
                        if got.last() == Some(&0) {
                            break;
                        }
                    }
                }
            }
            ok && got.last() == Some(&0)
        }
        None => false,
    };
    // without an idle timeout the service is expected to stay: observed for 1.2 s
    let exited = guard.wait_timeout(Duration::from_millis(if idle == 0 { 1200 } else { idle as u64 * 1000 + 6000 })).is_some();
    let exists = std::path::Path::new(&path).exists();
    drop(guard);
    drop(listener);
    let _ = std::fs::remove_dir_all(&dir);
    sx::tagged("aobs", vec![sx::boolean(served), sx::boolean(exited), sx::boolean(exists)])
}

fn client_sx(kind: &str, start: usize, chunks: &[Vec<u8>], total: &[u8]) -> Sx {
    let mut cl = vec![sx::atom("chunks")];
    cl.extend(chunks.iter().map(|c| sx::bs(c)));
    sx::tagged("client", vec![sx::atom(kind), sx::nat(start), sx::list(cl), dec_table(total)])
}

fn gen_conc(rng: &mut Rng, cfgs: &[SvcCfg], tok: &mut usize, nclients: usize, transport: &str) -> Case {
    let cfg = rng.pick(cfgs);
    let mut clients = Vec::new();
    let mut tags = vec![format!("transport:{}", transport), format!("clients:{}", match nclients { 1 => "1", 2..=4 => "2-4", 5..=16 => "5-16", _ => "17+" })];
    for _ in 0..nclients {
        let kind = match rng.below(10) {
            0 => "idle",
            1 => "dropmid",
            _ => "half",
        };
        tags.push(format!("kind:{}", kind));
        let len = rng.range(1, 8);
        let mut reqs = Vec::new();
        // a faulty peer beside healthy ones: a malformed message somewhere in the pipeline
        let bad_at = if rng.chance(1, 5) { rng.below(len) } else { usize::MAX };
        for i in 0..len {
            *tok += 1;
            if i == bad_at {
                reqs.push(gen_malformed(rng, cfg, &format!("t{}z", *tok)));
                tags.push("malformed-in-pipeline".into());
            } else {
                reqs.push(gen_request(rng, cfg, &format!("t{}z", *tok)));
            }
        }
        let mut total = stream_of(&reqs);
        let mut seg_payload: Option<Vec<Vec<u8>>> = None;
        if kind == "dropmid" && total.len() > 3 {
            let cut = rng.range(1, total.len() - 1);
            total.truncate(cut);
        }
        if rng.chance(1, 8) || cfg.scripts.iter().any(|n| n == "up.seg") {
            // payload for an upgraded handler right behind an upgrade request, same segment
            *tok += 1;
            if !cfg.scripts.is_empty() {
                let name = rng.pick(&cfg.scripts).clone();
                let v = serde_json::json!({"method": format!("{}.Run", name), "upgrade": true,
                    "parameters": {"token": format!("t{}z", *tok), "script": [{"op":"upgrade"},{"op":"reply","p":{"token": format!("t{}z", *tok)}}]}});
                total.extend_from_slice(&serde_json::to_vec(&v).unwrap());
                total.push(0);
                total.extend_from_slice(format!("payload-{}-\n\0binary", *tok).as_bytes());
                tags.push("upgrade-with-payload".into());
                if cfg.scripts.iter().any(|n| n == "up.seg") {
                    seg_payload = Some(vec![format!("second-{}\n", *tok).into_bytes(), format!("third-{}", *tok).into_bytes()]);
                    tags.push("upgrade-segment-wise".into());
                }
            }
        }
        let mut kind = kind;
        let chunks = if bad_at != usize::MAX && kind == "half" && rng.chance(2, 3) {
            // a slow faulty peer: every message is its own segment, with pauses, so that what follows
            // the malformed message arrives after the server has dealt with it
            kind = "slow";
            tags.push("kind:slow".into());
            let mut cs = Vec::new();
            let mut start = 0;
            for (i, b) in total.iter().enumerate() {
                if *b == 0 {
                    cs.push(total[start..=i].to_vec());
                    start = i + 1;
                }
            }
            if start < total.len() {
                cs.push(total[start..].to_vec());
            }
            cs
        } else if kind == "idle" {
            Vec::new()
        } else {
            let k = rng.range(0, 5);
            let cuts: Vec<usize> = (0..k).map(|_| rng.below(total.len() + 1)).collect();
            wire::cut(&total, &cuts)
        };
        let mut chunks = chunks;
        if let Some(extra) = seg_payload {
            if kind != "idle" {
                // first everything up to and including the first payload in ONE segment, then the rest slowly
                chunks = vec![total.clone()];
                chunks.extend(extra);
                kind = "slow";
            }
        }
        let total_sent: Vec<u8> = chunks.concat();
        clients.push(client_sx(kind, rng.below(20), &chunks, &total_sent));
    }
    tags.sort();
    tags.dedup();
    let mut cl = vec![sx::atom("clients")];
    cl.extend(clients);
    Case {
        input: sx::tagged("listen-conc", vec![sx::atom(transport), sx::nat(rng.range(1, 3)), cfg.sx.clone(), sx::list(cl)]),
        tags,
    }
}

fn timing_case(idle: usize, stop: Option<usize>, initial: usize, max: usize, conns: &[(usize, usize)], tag: &str) -> Case {
    let mut cl = vec![sx::atom("conns")];
    for (a, h) in conns {
        cl.push(sx::list(vec![sx::atom("conn"), sx::nat(*a), sx::nat(*h)]));
    }
    Case {
        input: sx::tagged(
            "listen-timing",
            vec![sx::nat(idle), stop.map(sx::nat).unwrap_or_else(|| sx::atom("-")), sx::nat(initial), sx::nat(max), sx::list(cl)],
        ),
        tags: vec![format!("timing:{}", tag), format!("idle:{}", idle), format!("stop:{}", if stop.is_some() { "yes" } else { "no" })],
    }
}

impl Suite for ListenSuite {
    fn parallelism(&self, ctx: &Ctx) -> usize {
        // timing cases spend their time waiting for real seconds
        if ctx.prop == "C15" {
            8
        } else if ctx.prop == "C14" {
            3
        } else {
            1
        }
    }

    fn generate(&self, ctx: &Ctx) -> Vec<Case> {
        let mut rng = Rng::new(ctx.seed ^ 0x6c697374);
        let cfgs = socket_configs();
        let mut cases = Vec::new();
        if ctx.prop == "C14" {
            let bound = |t: &str, initial: usize, max: usize, n: usize, hold: usize, stagger: usize, opts: Vec<Sx>, tag: &str| -> Case {
                let mut v = vec![sx::atom(t), sx::nat(initial), sx::nat(max), sx::nat(n), sx::nat(hold), sx::nat(stagger)];
                v.extend(opts);
                Case { input: sx::tagged("listen-bound", v), tags: vec![format!("bound:{}", tag), format!("cfg:{}x{}", initial, max)] }
            };
            cases.push(bound("unix", 1, 1, 3, 300, 40, vec![], "saturated-one-worker"));
            cases.push(bound("unix", 1, 2, 5, 300, 40, vec![], "saturated-two-workers"));
            cases.push(bound("tcp", 2, 3, 5, 300, 30, vec![], "saturated-three-workers"));
            cases.push(bound("unix", 1, 4, 4, 300, 20, vec![], "below-the-limit"));
            cases.push(bound("unix", 1, 2, 4, 300, 40, vec![sx::tagged("nostop", vec![])], "blocking-acceptor"));
            cases.push(bound("unix", 1, 1, 2, 300, 40, vec![sx::tagged("nostop", vec![])], "blocking-acceptor-one-worker"));
            cases.push(bound("unix", 1, 1, 2, 400, 60, vec![sx::tagged("upgrade0", vec![])], "upgraded-connection-holds-its-worker"));
            cases.push(bound("unix", 1, 2, 4, 300, 40, vec![sx::tagged("upgrade0", vec![])], "upgraded-connection-holds-its-worker"));
            cases.push(bound("unix", 1, 1, 3, 300, 40, vec![sx::tagged("warm", vec![sx::nat(3)])], "after-an-earlier-listen-with-a-larger-pool"));
            // a burst, a quiet period, then a peer that stays for seconds and a second one late in its stay (workers
            // started on demand have had every opportunity to go away; the second peer still needs one at once)
            cases.push(bound("unix", 1, 4, 2, 5600, 5000, vec![sx::tagged("burst", vec![sx::nat(3), sx::nat(3000)]), sx::tagged("shortlast", vec![])], "after-a-burst-and-a-quiet-period"));
            cases.push(bound("unix", 1, 4, 3, 400, 150, vec![sx::tagged("burst", vec![sx::nat(3), sx::nat(2600)])], "after-a-burst-and-a-quiet-period"));
            if ctx.thorough {
                for _ in 0..12 {
                    let max = rng.range(1, 4);
                    let initial = rng.range(1, max);
                    let n = rng.range(2, max + 3);
                    let mut opts = Vec::new();
                    if rng.chance(1, 3) {
                        opts.push(sx::tagged("nostop", vec![]));
                    }
                    if rng.chance(1, 3) {
                        opts.push(sx::tagged("upgrade0", vec![]));
                    }
                    cases.push(bound(if rng.chance(1, 2) { "unix" } else { "tcp" }, initial, max, n, 200 + 50 * rng.below(5), 20 + 10 * rng.below(5), opts, "random"));
                }
            }
            return cases;
        }
        if ctx.prop == "C13" {
            // a long-lived peer must not keep a later one waiting, also after the pool has seen a burst and a quiet period
            cases.push(Case {
                input: sx::tagged("listen-bound", vec![sx::atom("unix"), sx::nat(1), sx::nat(4), sx::nat(2), sx::nat(5600), sx::nat(5000),
                    sx::tagged("burst", vec![sx::nat(3), sx::nat(3000)]), sx::tagged("shortlast", vec![])]),
                tags: vec!["bound:after-a-burst-and-a-quiet-period".into()],
            });
        }
        if ctx.prop == "C15" {
            // configuration x history matrix of the property
            for idle in [1usize, 2] {
                cases.push(timing_case(idle, None, 1, 4, &[], "no-connection"));
                cases.push(timing_case(idle, Some(60_000), 1, 4, &[], "no-connection-flag-never-set"));
                cases.push(timing_case(idle, None, 1, 4, &[(350, 100)], "short-connection"));
                cases.push(timing_case(idle, Some(60_000), 2, 4, &[(350, 100)], "short-connection-sliced"));
                cases.push(timing_case(idle, None, 1, 4, &[(350, idle * 1000 + 450)], "long-lived-across-deadline"));
                cases.push(timing_case(idle, None, 1, 4, &[(idle * 1000 - 250, 100)], "arriving-just-before-deadline"));
                cases.push(timing_case(idle, None, 1, 4, &[(350, idle * 1000 - 20)], "closing-at-the-deadline"));
                cases.push(timing_case(idle, Some(450), 1, 4, &[(150, 1200)], "flag-set-while-connection-open"));
            }
            cases.push(timing_case(0, Some(450), 1, 4, &[(150, 1200), (1000, 100)], "flag-set-while-open-then-late-arrival"));
            cases.push(timing_case(2, Some(450), 2, 4, &[(150, 1200), (1000, 100)], "flag-set-while-open-then-late-arrival"));
            cases.push(timing_case(0, Some(420), 1, 4, &[(150, 1200), (435, 100)], "arrival-inside-the-slice-after-the-flag"));
            cases.push(timing_case(2, Some(420), 1, 4, &[(150, 1200), (435, 100)], "arrival-inside-the-slice-after-the-flag"));
            cases.push(Case { input: sx::tagged("listen-activated", vec![sx::nat(1)]), tags: vec!["activated-socket-path-survives".into()] });
            cases.push(Case { input: sx::tagged("listen-activated", vec![sx::nat(1), sx::atom("nonblock")]), tags: vec!["activated-nonblocking-socket".into()] });
            cases.push(Case { input: sx::tagged("listen-activated", vec![sx::nat(0), sx::atom("nonblock")]), tags: vec!["activated-nonblocking-socket-no-timeout".into()] });
            cases.push(Case { input: sx::tagged("listen-activated", vec![sx::nat(0), sx::atom("block")]), tags: vec!["activated-socket-no-timeout".into()] });
            cases.push(timing_case(0, Some(450), 1, 4, &[], "flag-only"));
            cases.push(timing_case(0, Some(0), 1, 4, &[], "flag-set-before-start"));
            cases.push(timing_case(2, Some(450), 1, 4, &[], "flag-before-timeout"));
            cases.push(timing_case(1, None, 1, 1, &[(100, 600), (200, 100)], "queued-behind-max"));
            // signals while the acceptor waits; a stop flag together with a long idle timeout
            for (idle, stop) in [(2usize, None), (1, Some(60_000usize)), (0, Some(900))] {
                let mut c = timing_case(idle, stop, 1, 4, &[(100, 100)], "signals-while-waiting");
                if let Sx::List(l) = &mut c.input {
                    l.push(sx::tagged("signal", vec![sx::nat(300)]));
                }
                cases.push(c);
            }
            cases.push(timing_case(60, Some(450), 1, 4, &[(150, 100)], "flag-with-a-long-idle-timeout"));
            cases.push(timing_case(3600, Some(450), 1, 4, &[], "flag-with-a-long-idle-timeout"));
            // a stale entry at the socket path; two listeners sharing one stop flag
            for (idle, stop) in [(1usize, None), (0, Some(450usize)), (2, Some(450))] {
                let mut c = timing_case(idle, stop, 1, 4, &[(150, 100)], "stale-entry-at-the-socket-path");
                if let Sx::List(l) = &mut c.input {
                    l.push(sx::tagged("stale", vec![]));
                }
                cases.push(c);
            }
            for idle in [0usize, 2] {
                let mut c = timing_case(idle, Some(450), 1, 4, &[(150, 100)], "two-listeners-sharing-the-stop-flag");
                if let Sx::List(l) = &mut c.input {
                    l.push(sx::tagged("twin", vec![]));
                }
                cases.push(c);
            }
            // overlapping connections of which one ends early: the other one is still being served when the idle
            // period after the first one's end is over
            cases.push(timing_case(1, None, 1, 4, &[(100, 300), (150, 1900), (1550, 100)], "overlapping-one-ends-early"));
            cases.push(timing_case(1, None, 2, 4, &[(100, 1900), (150, 250), (200, 250), (1600, 100)], "overlapping-two-end-early"));
            cases.push(timing_case(1, Some(60_000), 1, 4, &[(100, 300), (150, 1900), (1550, 100)], "overlapping-one-ends-early-sliced"));
            // long idle timeouts (hours, and values whose millisecond count does not fit 32 bits): the service
            // must still be there after two seconds
            for idle in [3600usize, 2_147_484, 4_294_968, 8_000_000] {
                let mut c = timing_case(idle, None, 1, 4, &[(100, 100)], "long-idle-timeout-still-running");
                if let Sx::List(l) = &mut c.input {
                    l.push(sx::tagged("horizon", vec![sx::nat(1800)]));
                }
                cases.push(c);
            }
            let steady: Vec<(usize, usize)> = (0..40).map(|i| (30 + i * 40, 20)).collect();
            cases.push(timing_case(0, Some(450), 1, 8, &steady, "flag-under-steady-arrivals"));
            cases.push(timing_case(1, Some(850), 2, 8, &steady, "flag-under-steady-arrivals-with-idle"));
            if ctx.thorough {
                for _ in 0..12 {
                    let idle = rng.range(1, 2);
                    let n = rng.range(0, 3);
                    let conns: Vec<(usize, usize)> = (0..n).map(|_| (50 + 100 * rng.below(12), 30 + 100 * rng.below(15))).collect();
                    let stop = if rng.chance(1, 2) { Some(50 + 100 * rng.below(20)) } else { None };
                    cases.push(timing_case(idle, stop, rng.range(1, 2), rng.range(1, 4), &conns, "random"));
                }
            }
            return cases;
        }
        let mut tok = 0usize;
        // (a) one worker, connections one after the other: an upgraded connection whose handler hands
        //     back an unfinished line and hangs up, then ordinary connections on the same worker
        for t in ["unix", "tcp"] {
            let cfg = cfgs.iter().find(|c| c.scripts.iter().any(|n| n == wire::LINE_WISE_IFACE)).unwrap();
            let mut clients = Vec::new();
            tok += 1;
            let v = serde_json::json!({"method": format!("{}.Run", wire::LINE_WISE_IFACE), "upgrade": true,
                "parameters": {"token": format!("t{}z", tok), "script": [{"op":"upgrade"},{"op":"reply","p":{"token": format!("t{}z", tok)}}]}});
            let mut total = serde_json::to_vec(&v).unwrap();
            total.push(0);
            total.extend_from_slice(b"line one\nline two\nunfinished {\"method\":");
            clients.push(client_sx("half", 0, &[total.clone()], &total));
            for k in 1..=3usize {
                tok += 1;
                let r = serde_json::to_vec(&serde_json::json!({"method":"org.varlink.service.GetInfo","parameters":{"token": format!("t{}z", tok)}})).unwrap();
                let mut tt = r.clone();
                tt.push(0);
                clients.push(client_sx("half", 150 * k, &[tt.clone()], &tt));
            }
            let mut cl = vec![sx::atom("clients")];
            cl.extend(clients);
            cases.push(Case {
                input: sx::tagged("listen-conc", vec![sx::atom(t), sx::nat(1), cfg.sx.clone(), sx::list(cl), sx::tagged("max", vec![sx::nat(1)])]),
                tags: vec!["sequential-on-one-worker".into(), "upgrade-returns-unfinished-line".into()],
            });
        }
        // (a2) an upgraded connection whose handler returns after every segment and hands back the
        //      unfinished record each time: the pieces must be put together again across segments
        for t in ["unix", "tcp"] {
            let cfg = cfgs.iter().find(|c| c.scripts.iter().any(|n| n == wire::SEG_LINE_IFACE)).unwrap();
            tok += 1;
            let v = serde_json::json!({"method": format!("{}.Run", wire::SEG_LINE_IFACE), "upgrade": true,
                "parameters": {"token": format!("t{}z", tok), "script": [{"op":"upgrade"},{"op":"reply","p":{"token": format!("t{}z", tok)}}]}});
            let mut first = serde_json::to_vec(&v).unwrap();
            first.push(0);
            first.extend_from_slice(b"bra");
            let chunks: Vec<Vec<u8>> = vec![first, b"vo".to_vec(), b"\nsecond li".to_vec(), b"ne\nthi".to_vec(), b"rd".to_vec(), b"\r\n\nfourth\n".to_vec(), b"\nunfinished".to_vec()];
            let total: Vec<u8> = chunks.concat();
            let mut cl = vec![sx::atom("clients")];
            cl.push(client_sx("slow", 0, &chunks, &total));
            cases.push(Case {
                input: sx::tagged("listen-conc", vec![sx::atom(t), sx::nat(1), cfg.sx.clone(), sx::list(cl)]),
                tags: vec!["upgrade-records-split-across-segments".into()],
            });
        }
        // (b) a peer stalled in the middle of a message beside prompt peers
        for t in ["unix", "tcp"] {
            let cfg = &cfgs[1];
            let mut clients = Vec::new();
            tok += 1;
            let r = serde_json::to_vec(&serde_json::json!({"method":"org.varlink.service.GetInfo","parameters":{"token": format!("t{}z", tok)}})).unwrap();
            let mut tt = r.clone();
            tt.push(0);
            let cutpos = tt.len() / 2;
            clients.push(client_sx("stall", 0, &[tt[..cutpos].to_vec(), tt[cutpos..].to_vec()], &tt));
            for k in 0..4usize {
                let mut reqs = Vec::new();
                for _ in 0..3 {
                    tok += 1;
                    reqs.push(gen_request(&mut rng, cfg, &format!("t{}z", tok)));
                }
                let total = stream_of(&reqs);
                clients.push(client_sx("half", 100 + 40 * k, &[total.clone()], &total));
            }
            let mut cl = vec![sx::atom("clients")];
            cl.extend(clients);
            cases.push(Case {
                input: sx::tagged("listen-conc", vec![sx::atom(t), sx::nat(2), cfg.sx.clone(), sx::list(cl)]),
                tags: vec!["stalled-peer-beside-prompt-peers".into()],
            });
        }
        // (b1) a peer that connects and says nothing for a long while, beside prompt peers
        for t in ["tcp", "unix"] {
            let cfg = &cfgs[1];
            let mut clients = Vec::new();
            tok += 1;
            let mut tt = serde_json::to_vec(&serde_json::json!({"method":"org.varlink.service.GetInfo","parameters":{"token": format!("t{}z", tok)}})).unwrap();
            tt.push(0);
            clients.push(client_sx("mute", 0, &[tt.clone()], &tt));
            for k in 0..4usize {
                let mut reqs = Vec::new();
                for _ in 0..2 {
                    tok += 1;
                    reqs.push(gen_request(&mut rng, cfg, &format!("t{}z", tok)));
                }
                let total = stream_of(&reqs);
                clients.push(client_sx("half", 100 + 40 * k, &[total.clone()], &total));
            }
            let mut cl = vec![sx::atom("clients")];
            cl.extend(clients);
            cases.push(Case {
                input: sx::tagged("listen-conc", vec![sx::atom(t), sx::nat(2), cfg.sx.clone(), sx::list(cl)]),
                tags: vec!["silent-peer-beside-prompt-peers".into()],
            });
        }
        // (b2) a peer flooding the server with requests it never reads the replies of, beside prompt peers
        {
            let cfg = &cfgs[1];
            let mut clients = vec![client_sx("flood", 0, &[], &[])];
            for k in 0..4usize {
                let mut reqs = Vec::new();
                tok += 1;
                reqs.push(wire::GenReq { bytes: serde_json::to_vec(&serde_json::json!({"method":"org.varlink.service.GetInfo","parameters":{"token": format!("t{}z", tok)}})).unwrap(), kind: "getinfo".into() });
                for _ in 0..2 {
                    tok += 1;
                    reqs.push(gen_request(&mut rng, cfg, &format!("t{}z", tok)));
                }
                let total = stream_of(&reqs);
                clients.push(client_sx("half", 150 + 40 * k, &[total.clone()], &total));
            }
            let mut cl = vec![sx::atom("clients")];
            cl.extend(clients);
            cases.push(Case {
                input: sx::tagged("listen-conc", vec![sx::atom("unix"), sx::nat(2), cfg.sx.clone(), sx::list(cl)]),
                tags: vec!["flooding-peer-beside-prompt-peers".into()],
            });
        }
        // (b3) a burst of peers that connect at the same moment and keep their connections open
        for (t, initial) in [("unix", 1usize), ("tcp", 2)] {
            let cfg = &cfgs[1];
            let mut clients = Vec::new();
            for _ in 0..8usize {
                tok += 1;
                let r = serde_json::to_vec(&serde_json::json!({"method":"org.varlink.service.GetInfo","parameters":{"token": format!("t{}z", tok)}})).unwrap();
                let mut tt = r.clone();
                tt.push(0);
                clients.push(client_sx("hold", 0, &[tt.clone()], &tt));
            }
            let mut cl = vec![sx::atom("clients")];
            cl.extend(clients);
            cases.push(Case {
                input: sx::tagged("listen-conc", vec![sx::atom(t), sx::nat(initial), cfg.sx.clone(), sx::list(cl)]),
                tags: vec!["burst-of-long-lived-peers".into()],
            });
        }
        // (b4) as many faulty peers as there are workers: each sends a malformed message and then keeps its
        //      socket open; peers that arrive afterwards must be served at once (the server is done with a
        //      connection once it has closed it)
        for (t, nbad) in [("unix", 2usize), ("tcp", 3)] {
            let cfg = &cfgs[1];
            let mut clients = Vec::new();
            for k in 0..nbad {
                tok += 1;
                let g = serde_json::to_vec(&serde_json::json!({"method":"org.varlink.service.GetInfo","parameters":{"token": format!("t{}z", tok)}})).unwrap();
                let mut total = g.clone();
                total.push(0);
                total.extend_from_slice(if k % 2 == 0 { b"{\"method\":5}" } else { b"\xff\xfe{}" });
                total.push(0);
                clients.push(client_sx("badhold", 0, &[total.clone()], &total));
            }
            // (not more long-lived peers than workers: below the limit nobody has to wait)
            for k in 0..nbad {
                tok += 1;
                let r = serde_json::to_vec(&serde_json::json!({"method":"org.varlink.service.GetInfo","parameters":{"token": format!("t{}z", tok)}})).unwrap();
                let mut tt = r.clone();
                tt.push(0);
                clients.push(client_sx("hold", 250 + 30 * k, &[tt.clone()], &tt));
            }
            let mut cl = vec![sx::atom("clients")];
            cl.extend(clients);
            cases.push(Case {
                input: sx::tagged("listen-conc", vec![sx::atom(t), sx::nat(1), cfg.sx.clone(), sx::list(cl), sx::tagged("max", vec![sx::nat(nbad)])]),
                tags: vec!["faulty-peers-holding-every-worker".into()],
            });
        }
        // (b5) oneway calls that fail inside the generated dispatch code (ill-typed or missing parameters):
        //      no reply may appear, whichever layer notices the failure
        if let Some(cfg) = cfgs.iter().find(|c| c.has_gen) {
            for t in ["unix", "tcp"] {
                let mut clients = Vec::new();
                for (k, params) in [serde_json::json!({"token": 7, "n": "x"}), serde_json::json!({"n": 1}), serde_json::Value::Null, serde_json::json!([1, 2, 3])].iter().enumerate() {
                    tok += 1;
                    let first = serde_json::json!({"method":"org.varlink.service.GetInfo","parameters":{"token": format!("t{}z", tok)}});
                    tok += 1;
                    let mut bad = serde_json::json!({"method":"org.example.vtest.Echo","oneway":true});
                    if !params.is_null() {
                        bad["parameters"] = params.clone();
                    }
                    let mut total = serde_json::to_vec(&first).unwrap();
                    total.push(0);
                    total.extend_from_slice(&serde_json::to_vec(&bad).unwrap());
                    total.push(0);
                    clients.push(client_sx("half", 10 * k, &[total.clone()], &total));
                }
                let mut cl = vec![sx::atom("clients")];
                cl.extend(clients);
                cases.push(Case {
                    input: sx::tagged("listen-conc", vec![sx::atom(t), sx::nat(2), cfg.sx.clone(), sx::list(cl)]),
                    tags: vec!["oneway-failing-in-generated-dispatch".into()],
                });
            }
        }
        // (b6) one worker thread serves, one after the other, peers that hang up before reading their replies
        //      and peers that behave: nothing of an earlier connection may reach a later one
        for t in ["unix", "tcp"] {
            let cfg = &cfgs[1];
            let mut clients = Vec::new();
            for k in 0..3usize {
                let mut total = Vec::new();
                for _ in 0..40 {
                    tok += 1;
                    let v = serde_json::json!({"method": format!("no.such.t{}z.M", tok), "parameters": {"token": format!("t{}z", tok)}});
                    total.extend_from_slice(&serde_json::to_vec(&v).unwrap());
                    total.push(0);
                }
                clients.push(client_sx("sendclose", 60 * k, &[total.clone()], &total));
                let mut total = Vec::new();
                for _ in 0..3 {
                    tok += 1;
                    let v = serde_json::json!({"method": format!("no.such.t{}z.M", tok), "parameters": {"token": format!("t{}z", tok)}});
                    total.extend_from_slice(&serde_json::to_vec(&v).unwrap());
                    total.push(0);
                }
                clients.push(client_sx("half", 60 * k + 30, &[total.clone()], &total));
            }
            let mut cl = vec![sx::atom("clients")];
            cl.extend(clients);
            cases.push(Case {
                input: sx::tagged("listen-conc", vec![sx::atom(t), sx::nat(1), cfg.sx.clone(), sx::list(cl), sx::tagged("max", vec![sx::nat(1)])]),
                tags: vec!["peers-hanging-up-unread-then-others-on-the-same-worker".into()],
            });
        }
        // (b7) valid requests whose parameters are nested almost as deeply as serde_json allows (128), beside
        //      ordinary peers: a worker must cope with what the parser accepts
        {
            let cfg = &cfgs[1];
            let mut clients = Vec::new();
            for (k, d) in [60usize, 100, 120, 126].iter().enumerate() {
                tok += 1;
                let mut s = format!("{{\"method\":\"no.such.t{}z.M\",\"parameters\":{{\"token\":\"t{}z\",\"deep\":", tok, tok);
                for _ in 0..(*d - 2) { s.push('['); }
                for _ in 0..(*d - 2) { s.push(']'); }
                s.push_str("}}");
                let mut total = s.into_bytes();
                total.push(0);
                tok += 1;
                total.extend_from_slice(&serde_json::to_vec(&serde_json::json!({"method":"org.varlink.service.GetInfo","parameters":{"token": format!("t{}z", tok)}})).unwrap());
                total.push(0);
                clients.push(client_sx("half", 20 * k, &[total.clone()], &total));
            }
            // … and with a method implementation that uses 256 KiB of stack
            {
                tok += 1;
                let t = format!("t{}z", tok);
                let mut tt = serde_json::to_vec(&serde_json::json!({"method":"org.example.s.Run","parameters":{"token": t,
                    "script":[{"op":"stack","kb":256},{"op":"reply","p":{"token": t}}]}})).unwrap();
                tt.push(0);
                clients.push(client_sx("half", 35, &[tt.clone()], &tt));
            }
            for k in 0..2usize {
                tok += 1;
                let mut tt = serde_json::to_vec(&serde_json::json!({"method":"org.varlink.service.GetInfo","parameters":{"token": format!("t{}z", tok)}})).unwrap();
                tt.push(0);
                clients.push(client_sx("hold", 10 + 50 * k, &[tt.clone()], &tt));
            }
            let mut cl = vec![sx::atom("clients")];
            cl.extend(clients);
            cases.push(Case {
                input: sx::tagged("listen-conc", vec![sx::atom("unix"), sx::nat(2), cfg.sx.clone(), sx::list(cl)]),
                tags: vec!["deeply-nested-valid-requests".into()],
            });
        }
        // (b9) a request of exactly one megabyte (and one byte less and more) with its terminator and two further
        //      requests in the same write: size limits, if any, must not swallow what follows
        if ctx.prop == "C01" || ctx.prop == "C02" || ctx.prop == "C06" {
            let cfg = &cfgs[0];
            let mut clients = Vec::new();
            for (k, size) in [1_048_575usize, 1_048_576, 1_048_577].iter().enumerate() {
                tok += 1;
                let t = format!("t{}z", tok);
                let skeleton = serde_json::to_vec(&serde_json::json!({"method":"org.varlink.service.GetInfo","parameters":{"pad":"","token": t}})).unwrap();
                let pad = "x".repeat(size - skeleton.len());
                let mut total = serde_json::to_vec(&serde_json::json!({"method":"org.varlink.service.GetInfo","parameters":{"pad":pad,"token": t}})).unwrap();
                assert_eq!(total.len(), *size);
                total.push(0);
                for _ in 0..2 {
                    tok += 1;
                    let v = serde_json::json!({"method": format!("no.such.t{}z.M", tok), "parameters": {"token": format!("t{}z", tok)}});
                    total.extend_from_slice(&serde_json::to_vec(&v).unwrap());
                    total.push(0);
                }
                clients.push(client_sx("half", 20 * k, &[total.clone()], &total));
            }
            let mut cl = vec![sx::atom("clients")];
            cl.extend(clients);
            cases.push(Case {
                input: sx::tagged("listen-conc", vec![sx::atom("unix"), sx::nat(2), cfg.sx.clone(), sx::list(cl)]),
                tags: vec!["megabyte-request-then-more-in-one-write".into()],
            });
        }
        // (c) faulty peers sending long malformed messages with non-ASCII bytes at boundary offsets
        {
            let cfg = &cfgs[1];
            let mut clients = Vec::new();
            for base in [256usize, 1024] {
                for d in 0..5usize {
                    let off = base - 3 + d;
                    let mut v: Vec<u8> = std::iter::repeat(b'x').take(off).collect();
                    v.extend_from_slice("é".as_bytes());
                    v.extend_from_slice(b"zz");
                    v.push(0);
                    tok += 1;
                    let g = serde_json::to_vec(&serde_json::json!({"method":"org.varlink.service.GetInfo","parameters":{"token": format!("t{}z", tok)}})).unwrap();
                    let mut total = g.clone();
                    total.push(0);
                    total.extend_from_slice(&v);
                    clients.push(client_sx("half", 5 * d, &[total.clone()], &total));
                }
            }
            let mut cl = vec![sx::atom("clients")];
            cl.extend(clients);
            cases.push(Case {
                input: sx::tagged("listen-conc", vec![sx::atom("unix"), sx::nat(1), cfg.sx.clone(), sx::list(cl)]),
                tags: vec!["faulty-peers-long-nonascii".into()],
            });
        }
        let n = if ctx.thorough { 320 } else { 28 };
        for i in 0..n {
            let transport = ["unix", "tcp", "abstract"][i % 3];
            let nclients = match rng.below(10) {
                0 => 1,
                1..=5 => rng.range(2, 4),
                6..=8 => rng.range(5, 16),
                _ => rng.range(17, if ctx.thorough { 64 } else { 32 }),
            };
            cases.push(gen_conc(&mut rng, &cfgs, &mut tok, nclients, transport));
        }
        cases
    }

    fn run(&self, _ctx: &Ctx, input: &Sx) -> Sx {
        let l = input.as_list().expect("case");
        match l[0].as_atom().unwrap() {
            "listen-conc" => run_conc(l),
            "listen-timing" => run_timing(l),
            "listen-activated" => run_activated(l),
            "listen-bound" => run_bound(l),
            other => panic!("case kind {}", other),
        }
    }
}
