//! Suite `listen` (stub: replaced by the owner of the suite).
use crate::sx::{self, Sx};
use crate::{Case, Ctx, Suite};

pub struct ListenSuite;

impl Suite for ListenSuite {
    fn generate(&self, _ctx: &Ctx) -> Vec<Case> {
        Vec::new()
    }
    fn run(&self, _ctx: &Ctx, _input: &Sx) -> Sx {
        sx::atom("stub")
    }
}
