//! Suite `cli`: the built `varlink` binary (`varlink [--color X] [-R RESOLVER] call [--more] URL [ARGS]`)
//! against a scripted service thread of the harness (C20).
//!
//! Case:
//!   (cli <form> x<listen> x<url> <args> <more t|f> <color> (frames <frame>* [hold]) [(decoy x<addr>)])
//!     hold   = after the frames the service keeps the connection open (a monitor-style stream): the harness
//!              reads the tool's stdout while it runs, waits (<= 3 s) for the documents of the successful
//!              replies sent so far, then kills the tool; exit is `hung`
//!     decoy  = a second scripted service (answers {"who":"decoy"}) on a neighbouring address
//!     form   = path | abstract | tcp | resolver | nolisten | bridge
//!              bridge: `varlink -b CMD call METHOD`; CMD = `head -c <request length> > REQ; cat REPLY`, i.e. it consumes
//!              the request, prints the frames of the case and exits; url is the method alone
//!     option (close-stdout n): the harness closes its end of the tool's stdout after n documents; the service sends
//!              the frames after the n-th only then; the exit status is observed as 0 / 1 (any non-zero)
//!     listen = address template the scripted service listens on; placeholders @DIR@ (fresh temporary
//!              directory), @ABS@ (unique abstract-socket prefix), @PORT@ (free TCP port)
//!     url    = the [ADDRESS/]INTERFACE.METHOD argument, same placeholders
//!     args   = - | (args x<text> <json | bad>)      ARGUMENTS as typed, and what serde_json makes of it
//!     color  = on | off | auto | absent             (absent: no --color argument)
//!     further optional elements: (debug)  the global --debug flag;  (bogus-resolver)  -R with an address nobody
//!              listens on (must be ignored when the argument carries an address);
//!              (hosts)  the tool runs in a private mount namespace (unshare -rm) whose /etc/hosts maps `multihost`
//!              to ::1 AND 127.0.0.1, the url is tcp:multihost:PORT/…, the service listens on one of the two;
//!              (tty <stdout p|t> <stderr p|t>)  pipe or pseudo-terminal for the tool's stdout / stderr;
//!              inside frames: (cuts n*)  byte offsets at which the service pauses between two writes
//!     frame  = as in suite `client` ((f b<bytes> <dec>) | (part b<bytes> <dec>)); sent in answer to the
//!              first request of the connection, then the service shuts down its sending side
//!
//! Observation:
//!   (cli-obs (conns n) (decoy n) (resolver -|x<interface>) (log <req>*) (stdout <json>*) <clean t|f> <esc t|f> <exit> <report>)
//!     esc    = the raw stdout contains an ESC byte (ANSI colouring)
//!     report = - | (std x<short> x<param>) | (named x<name> <json|->) | failed | (msg <class>)
use crate::rng::Rng;
use crate::suites::client::{big_reply_text, char_splitting_offsets, frame_sx, frames_to_bytes, part_sx, req_sx, write_in_pieces};
use crate::sx::{self, Sx};
use crate::{Case, Ctx, Suite};
use serde_json::{json, Value};
use std::io::{BufRead, BufReader, Read, Write};
use std::net::{Shutdown, TcpListener};
use std::os::unix::net::UnixListener;
use std::process::{Command, Stdio};
use std::sync::atomic::{AtomicBool, AtomicUsize, Ordering};
use std::sync::{Arc, Mutex};
use std::time::{Duration, Instant};

pub struct CliSuite;

static COUNTER: AtomicUsize = AtomicUsize::new(0);

enum Listener {
    Unix(UnixListener),
    Tcp(TcpListener),
}

trait Conn: Read + Write {
    fn shut_wr(&self);
    fn set_timeout(&self);
    fn dup(&self) -> Box<dyn Conn + Send>;
}
impl Conn for std::os::unix::net::UnixStream {
    fn shut_wr(&self) {
        let _ = self.shutdown(Shutdown::Write);
    }
    fn set_timeout(&self) {
        let _ = self.set_read_timeout(Some(Duration::from_secs(5)));
        let _ = self.set_nonblocking(false);
    }
    fn dup(&self) -> Box<dyn Conn + Send> {
        Box::new(self.try_clone().unwrap())
    }
}
impl Conn for std::net::TcpStream {
    fn shut_wr(&self) {
        let _ = self.shutdown(Shutdown::Write);
    }
    fn set_timeout(&self) {
        let _ = self.set_read_timeout(Some(Duration::from_secs(5)));
        let _ = self.set_nonblocking(false);
    }
    fn dup(&self) -> Box<dyn Conn + Send> {
        Box::new(self.try_clone().unwrap())
    }
}

impl Listener {
    fn accept(&self) -> Option<Box<dyn Conn + Send>> {
        match self {
            Listener::Unix(l) => l.accept().ok().map(|(s, _)| Box::new(s) as Box<dyn Conn + Send>),
            Listener::Tcp(l) => l.accept().ok().map(|(s, _)| Box::new(s) as Box<dyn Conn + Send>),
        }
    }
}

fn bind(addr: &str) -> Option<Listener> {
    if let Some(rest) = addr.strip_prefix("tcp:") {
        let l = TcpListener::bind(rest).ok()?;
        l.set_nonblocking(true).ok()?;
        Some(Listener::Tcp(l))
    } else if let Some(name) = addr.strip_prefix("unix:@") {
        use std::os::linux::net::SocketAddrExt;
        let a = std::os::unix::net::SocketAddr::from_abstract_name(name.as_bytes()).ok()?;
        let l = UnixListener::bind_addr(&a).ok()?;
        l.set_nonblocking(true).ok()?;
        Some(Listener::Unix(l))
    } else if let Some(path) = addr.strip_prefix("unix:") {
        if let Some(parent) = std::path::Path::new(path).parent() {
            let _ = std::fs::create_dir_all(parent);
        }
        let l = UnixListener::bind(path).ok()?;
        l.set_nonblocking(true).ok()?;
        Some(Listener::Unix(l))
    } else {
        None
    }
}

struct Served {
    conns: usize,
    log: Vec<Vec<u8>>,
}

/// accept connections until told to stop; answer the first request of each with `reply`
fn serve(l: Listener, reply: Vec<u8>, cuts: Vec<usize>, hold: bool, stop: Arc<AtomicBool>, gate: Option<(usize, Arc<AtomicBool>)>) -> std::thread::JoinHandle<Served> {
    std::thread::spawn(move || {
        let mut out = Served { conns: 0, log: Vec::new() };
        loop {
            match l.accept() {
                Some(c) => {
                    out.conns += 1;
                    c.set_timeout();
                    let mut w = c.dup();
                    let mut rd = BufReader::new(c);
                    let mut first = true;
                    loop {
                        let mut buf = Vec::new();
                        match rd.read_until(0, &mut buf) {
                            Ok(0) | Err(_) => break,
                            Ok(_) => {
                                if buf.last() == Some(&0) {
                                    buf.pop();
                                }
                                out.log.push(buf);
                                if first {
                                    first = false;
                                    match &gate {
                                        Some((at, release)) => {
                                            // the part up to `at` now, the rest when the harness says so
                                            let at = (*at).min(reply.len());
                                            write_in_pieces(&mut w, &reply[..at], &cuts);
                                            let deadline = Instant::now() + Duration::from_secs(5);
                                            while !release.load(Ordering::SeqCst) && Instant::now() < deadline {
                                                std::thread::sleep(Duration::from_millis(1));
                                            }
                                            let _ = w.write_all(&reply[at..]);
                                            let _ = w.flush();
                                        }
                                        None => write_in_pieces(&mut w, &reply, &cuts),
                                    }
                                    if !hold {
                                        w.shut_wr();
                                    }
                                }
                            }
                        }
                    }
                }
                None => {
                    if stop.load(Ordering::SeqCst) {
                        break;
                    }
                    std::thread::sleep(Duration::from_millis(2));
                }
            }
        }
        out
    })
}

fn strip_ansi(s: &str) -> String {
    let mut out = String::new();
    let mut it = s.chars().peekable();
    while let Some(c) = it.next() {
        if c == '\u{1b}' && it.peek() == Some(&'[') {
            it.next();
            for d in it.by_ref() {
                if ('@'..='~').contains(&d) {
                    break;
                }
            }
        } else {
            out.push(c);
        }
    }
    out
}

fn classify_stderr(raw: &str) -> Sx {
    let s = strip_ansi(raw);
    let s = s.strip_suffix('\n').unwrap_or(&s);
    if s.is_empty() {
        return sx::atom("-");
    }
    let body = match s.strip_prefix("Error: ") {
        Some(b) => b,
        None => return sx::tagged("msg", vec![sx::atom("no-error-prefix")]),
    };
    if let Some(rest) = body.strip_prefix("Call failed with error: ") {
        for short in ["InterfaceNotFound", "MethodNotFound", "MethodNotImplemented", "InvalidParameter"] {
            if let Some(p) = rest.strip_prefix(short).and_then(|r| r.strip_prefix(": ")) {
                return sx::tagged("std", vec![sx::xs(short), sx::xs(p)]);
            }
        }
        return match rest.split_once('\n') {
            None => sx::tagged("named", vec![sx::xs(rest), sx::atom("-")]),
            Some((name, js)) => match serde_json::from_str::<Value>(js) {
                Ok(v) => sx::tagged("named", vec![sx::xs(name), sx::json(&v)]),
                Err(_) => sx::tagged("msg", vec![sx::atom("unparsable-error-parameters")]),
            },
        };
    }
    let class = if body.starts_with("Failed to call method") {
        return sx::atom("failed");
    } else if body.starts_with("Invalid address") {
        "invalid-address"
    } else if body.starts_with("Failed to connect with resolver") {
        "connect-resolver"
    } else if body.starts_with("Failed to connect") {
        "connect"
    } else if body.starts_with("Failed to parse JSON") {
        "parse-args"
    } else if body.starts_with("Interface '") {
        "resolver-not-found"
    } else {
        "other"
    };
    sx::tagged("msg", vec![sx::atom(class)])
}

/// a pseudo-terminal in raw mode: (master, slave)
fn open_pty() -> Option<(std::fs::File, std::fs::File)> {
    use std::os::unix::io::FromRawFd;
    unsafe {
        let m = libc::posix_openpt(libc::O_RDWR | libc::O_NOCTTY | libc::O_CLOEXEC);
        if m < 0 {
            return None;
        }
        if libc::grantpt(m) != 0 || libc::unlockpt(m) != 0 {
            libc::close(m);
            return None;
        }
        let mut name = [0 as libc::c_char; 128];
        if libc::ptsname_r(m, name.as_mut_ptr(), name.len()) != 0 {
            libc::close(m);
            return None;
        }
        let s = libc::open(name.as_ptr(), libc::O_RDWR | libc::O_NOCTTY | libc::O_CLOEXEC);
        if s < 0 {
            libc::close(m);
            return None;
        }
        let mut tio: libc::termios = std::mem::zeroed();
        if libc::tcgetattr(s, &mut tio) == 0 {
            libc::cfmakeraw(&mut tio);
            libc::tcsetattr(s, libc::TCSANOW, &tio);
        }
        Some((std::fs::File::from_raw_fd(m), std::fs::File::from_raw_fd(s)))
    }
}

fn varlink_bin() -> std::path::PathBuf {
    let exe = std::env::current_exe().expect("current_exe");
    exe.parent().unwrap().join("varlink")
}

/// bytes to send, whether the connection is then held open, and how many leading frames are successful replies
fn frames_bytes(frames: &Sx) -> (Vec<u8>, bool, usize, usize) {
    let mut bytes = Vec::new();
    let mut hold = false;
    let mut good = 0usize;
    let mut counting = true;
    let mut total = 0usize;
    for f in &frames.as_list().unwrap()[1..] {
        if f.as_atom() == Some("hold") {
            hold = true;
            continue;
        }
        if f.as_list().and_then(|l| l.first()).and_then(|a| a.as_atom()) == Some("cuts") {
            continue;
        }
        total += 1;
        let fl = f.as_list().unwrap();
        let is_good = fl[0].as_atom() == Some("f")
            && fl[2].as_list().map(|d| d.len() == 4 && d[2].as_atom() == Some("-")).unwrap_or(false);
        if counting && is_good {
            good += 1;
        } else {
            counting = false;
        }
        match fl[0].as_atom().unwrap() {
            "f" => {
                bytes.extend_from_slice(&fl[1].as_bytes().unwrap());
                bytes.push(0);
            }
            "part" => bytes.extend_from_slice(&fl[1].as_bytes().unwrap()),
            other => panic!("frame kind {}", other),
        }
    }
    (bytes, hold, good, total)
}

fn count_docs(raw: &[u8]) -> usize {
    let text = strip_ansi(&String::from_utf8_lossy(raw));
    serde_json::Deserializer::from_str(&text).into_iter::<Value>().take_while(|r| r.is_ok()).count()
}

fn free_port() -> u16 {
    let l = TcpListener::bind("127.0.0.1:0").unwrap();
    l.local_addr().unwrap().port()
}

fn run_cli(input: &Sx) -> Sx {
    let l = input.as_list().unwrap();
    let form = l[1].as_atom().unwrap().to_string();
    let listen_t = l[2].as_str().unwrap();
    let url_t = l[3].as_str().unwrap();
    let args: Option<String> = match &l[4] {
        Sx::Atom(_) => None,
        Sx::List(a) => Some(a[1].as_str().unwrap()),
    };
    let more = l[5].as_atom() == Some("t");
    let color = l[6].as_atom().unwrap().to_string();
    let (reply, hold, good, total) = frames_bytes(&l[7]);
    // the tool keeps waiting only if every frame is a successful reply (and it asked for more)
    let hold = hold && good == total && more;
    let keep_open = frames_bytes(&l[7]).1;
    let cuts: Vec<usize> = l[7].as_list().unwrap().iter().filter_map(|f| f.as_list()).filter(|f| f[0].as_atom() == Some("cuts"))
        .flat_map(|f| f[1..].iter().filter_map(|c| c.as_usize()).collect::<Vec<_>>()).collect();
    let tagged = |tag: &str| l[8..].iter().filter_map(|e| e.as_list()).find(|e| e[0].as_atom() == Some(tag)).map(|e| e.to_vec());
    let tty = tagged("tty");
    let out_tty = tty.as_ref().map(|t| t[1].as_atom() == Some("t")).unwrap_or(false);
    let err_tty = tty.as_ref().map(|t| t[2].as_atom() == Some("t")).unwrap_or(false);
    let decoy_t: Option<String> = l[8..].iter().filter_map(|e| e.as_list()).find(|e| e[0].as_atom() == Some("decoy")).and_then(|d| d.get(1)).and_then(|a| a.as_str());

    let n = COUNTER.fetch_add(1, Ordering::SeqCst);
    let dir = std::env::temp_dir().join(format!("vvcli-{}-{}", std::process::id(), n));
    let _ = std::fs::create_dir_all(&dir);
    let abs = format!("vvcli-{}-{}", std::process::id(), n);
    let port = if listen_t.contains("@PORT@") || url_t.contains("@PORT@") { free_port() } else { 0 };
    let subst = |s: &str| s.replace("@DIR@", dir.to_str().unwrap()).replace("@ABS@", &abs).replace("@PORT@", &port.to_string());
    let listen = subst(&listen_t);
    let url = subst(&url_t);

    let stop = Arc::new(AtomicBool::new(false));
    // (close-stdout n): the frames after the n-th are held back until the harness has closed the tool's stdout
    let close_after: Option<usize> = tagged("close-stdout").and_then(|t| t.get(1).and_then(|n| n.as_usize()));
    let release = Arc::new(AtomicBool::new(false));
    let gate = close_after.map(|n| {
        let body: Vec<Sx> = l[7].as_list().unwrap()[1..].iter().filter(|f| f.as_list().map(|x| x[0].as_atom() != Some("cuts")).unwrap_or(false)).take(n).cloned().collect();
        (frames_to_bytes(&body).len(), release.clone())
    });
    let bridge_reply = reply.clone();
    let main_srv = if form == "nolisten" || form == "bridge" { None } else { bind(&listen).map(|l| serve(l, reply, cuts, keep_open, stop.clone(), gate)) };
    let decoy_srv = decoy_t.map(|d| subst(&d)).and_then(|d| bind(&d)).map(|l| {
        let mut rb = serde_json::to_vec(&json!({"parameters": {"who": "decoy"}})).unwrap();
        rb.push(0);
        serve(l, rb, Vec::new(), false, stop.clone(), None)
    });
    // the resolver stub answers Resolve with the address of the scripted service
    let resolver_addr = format!("unix:{}/resolver", dir.to_str().unwrap());
    let resolver_seen: Arc<Mutex<Vec<Vec<u8>>>> = Arc::new(Mutex::new(Vec::new()));
    let res_srv = if form == "resolver" {
        let mut rb = serde_json::to_vec(&json!({"parameters": {"address": listen}})).unwrap();
        rb.push(0);
        bind(&resolver_addr).map(|l| serve(l, rb, Vec::new(), false, stop.clone(), None))
    } else {
        None
    };

    let debug = tagged("debug").is_some();
    let bogus_resolver = tagged("bogus-resolver").is_some();
    let hosts = tagged("hosts").is_some();
    let mut cmd = if hosts {
        // a private /etc/hosts for the tool only (mount namespace; the network namespace stays shared)
        let hf = dir.join("hosts");
        let _ = std::fs::write(&hf, "127.0.0.1 localhost\n::1 multihost\n127.0.0.1 multihost\n");
        let mut c = Command::new("unshare");
        c.arg("-rm").arg("sh").arg("-c").arg("mount --bind \"$0\" /etc/hosts && exec \"$@\"").arg(&hf).arg(varlink_bin());
        c
    } else {
        Command::new(varlink_bin())
    };
    if debug {
        cmd.arg("--debug");
    }
    if color != "absent" {
        cmd.arg("--color").arg(&color);
    }
    let req_file = dir.join("bridge-req");
    if form == "bridge" {
        let reply_file = dir.join("bridge-reply");
        let _ = std::fs::write(&reply_file, &bridge_reply);
        // the request exactly as the client serializes it
        let argv: Value = args.as_ref().and_then(|a| serde_json::from_str(a).ok()).unwrap_or(Value::Null);
        let mut rq = varlink::Request::create(url.clone(), Some(argv));
        if more {
            rq.more = Some(true);
        }
        let n = serde_json::to_string(&rq).unwrap().len() + 1;
        cmd.arg("-b").arg(format!("head -c {} > {}; cat {}", n, req_file.to_str().unwrap(), reply_file.to_str().unwrap()));
    }
    if form == "resolver" {
        cmd.arg("-R").arg(&resolver_addr);
    } else if bogus_resolver {
        cmd.arg("-R").arg(format!("unix:{}/no-resolver-here", dir.to_str().unwrap()));
    }
    cmd.arg("call");
    if more {
        cmd.arg("--more");
    }
    cmd.arg(&url);
    if let Some(a) = &args {
        cmd.arg(a);
    }
    cmd.env_remove("VARLINK_ADDRESS").env_remove("NO_COLOR").env_remove("CLICOLOR").env_remove("CLICOLOR_FORCE");
    cmd.env("TERM", "xterm");
    // stdout / stderr of the tool: a pipe, or the slave side of a pseudo-terminal (raw mode: no NL -> CRLF)
    let out_pty = if out_tty { open_pty() } else { None };
    let err_pty = if err_tty { open_pty() } else { None };
    if (out_tty && out_pty.is_none()) || (err_tty && err_pty.is_none()) {
        return sx::tagged("no-pty", vec![]);
    }
    cmd.stdin(Stdio::null());
    let mut out_master: Option<std::fs::File> = None;
    let mut err_master: Option<std::fs::File> = None;
    match out_pty {
        Some((m, sl)) => {
            cmd.stdout(Stdio::from(sl));
            out_master = Some(m);
        }
        None => {
            cmd.stdout(Stdio::piped());
        }
    }
    match err_pty {
        Some((m, sl)) => {
            cmd.stderr(Stdio::from(sl));
            err_master = Some(m);
        }
        None => {
            cmd.stderr(Stdio::piped());
        }
    }
    let mut child = cmd.spawn().expect("spawn varlink");
    drop(cmd); // closes the parent's copies of the pty slaves: the masters see the end when the tool exits
    let mut so: Box<dyn Read + Send> = match out_master {
        Some(m) => Box::new(m),
        None => Box::new(child.stdout.take().unwrap()),
    };
    let mut se: Box<dyn Read + Send> = match err_master {
        Some(m) => Box::new(m),
        None => Box::new(child.stderr.take().unwrap()),
    };
    // stdout is read while the tool runs: what has been printed so far is observable at any time
    let out_buf: Arc<Mutex<Vec<u8>>> = Arc::new(Mutex::new(Vec::new()));
    let out_buf2 = out_buf.clone();
    let release2 = release.clone();
    let t_out = std::thread::spawn(move || {
        let mut tmp = [0u8; 4096];
        loop {
            match so.read(&mut tmp) {
                Ok(0) | Err(_) => break,
                Ok(n) => out_buf2.lock().unwrap().extend_from_slice(&tmp[..n]),
            }
            if let Some(k) = close_after {
                if count_docs(&out_buf2.lock().unwrap()) >= k {
                    break;
                }
            }
        }
        // the reader goes away (for (close-stdout n): while the tool is still running), then the service goes on
        drop(so);
        release2.store(true, Ordering::SeqCst);
    });
    let t_err = std::thread::spawn(move || {
        let mut v = Vec::new();
        let _ = se.read_to_end(&mut v);
        v
    });
    let deadline = Instant::now() + Duration::from_secs(8);
    // a held stream: give the tool 3 s to show the replies that have arrived, then end it
    let hold_deadline = Instant::now() + Duration::from_secs(3);
    let hold_min = Instant::now() + Duration::from_millis(300);
    let mut hung = false;
    let status = loop {
        match child.try_wait() {
            Ok(Some(st)) => break Some(st),
            Ok(None) => {
                let now = Instant::now();
                let shown = if hold { count_docs(&out_buf.lock().unwrap()) } else { 0 };
                if now > deadline || (hold && (now > hold_deadline || (shown >= good && (good > 0 || now > hold_min)))) {
                    if hold && shown >= good {
                        // a little longer: anything printed beyond the expected documents is an observation too
                        std::thread::sleep(Duration::from_millis(60));
                    }
                    let _ = child.kill();
                    let _ = child.wait();
                    hung = true;
                    break None;
                }
                std::thread::sleep(Duration::from_millis(1));
            }
            Err(_) => break None,
        }
    };
    let _ = t_out.join();
    let stdout = out_buf.lock().unwrap().clone();
    let stderr = t_err.join().unwrap_or_default();
    stop.store(true, Ordering::SeqCst);
    let served = main_srv.map(|h| h.join().unwrap()).unwrap_or(Served { conns: 0, log: Vec::new() });
    let served = if form == "bridge" {
        match std::fs::read(&req_file) {
            Ok(mut b) if !b.is_empty() => {
                if b.last() == Some(&0) {
                    b.pop();
                }
                Served { conns: 1, log: vec![b] }
            }
            _ => Served { conns: 0, log: Vec::new() },
        }
    } else {
        served
    };
    let decoy_conns = decoy_srv.map(|h| h.join().unwrap().conns).unwrap_or(0);
    if let Some(h) = res_srv {
        let s = h.join().unwrap();
        *resolver_seen.lock().unwrap() = s.log;
    }

    // stdout: a sequence of JSON documents
    let esc = stdout.contains(&0x1b);
    let text = strip_ansi(&String::from_utf8_lossy(&stdout));
    let mut docs = vec![sx::atom("stdout")];
    let mut clean = true;
    let mut stream = serde_json::Deserializer::from_str(&text).into_iter::<Value>();
    loop {
        match stream.next() {
            Some(Ok(v)) => docs.push(sx::json(&v)),
            Some(Err(_)) => {
                clean = false;
                break;
            }
            None => break,
        }
    }
    let resolver = match resolver_seen.lock().unwrap().first() {
        None => sx::atom("-"),
        Some(f) => {
            let v: Value = serde_json::from_slice(f).unwrap_or(Value::Null);
            let ok = v.get("method").and_then(|m| m.as_str()) == Some("org.varlink.resolver.Resolve");
            match v.get("parameters").and_then(|p| p.get("interface")).and_then(|i| i.as_str()) {
                Some(i) if ok => sx::xs(i),
                _ => sx::xs("?"),
            }
        }
    };
    let mut logsx = vec![sx::atom("log")];
    logsx.extend(served.log.iter().map(|f| req_sx(f)));
    let _ = std::fs::remove_dir_all(&dir);
    let exit = match status.and_then(|s| s.code()) {
        Some(c) if close_after.is_some() => sx::int(if c == 0 { 0 } else { 1 }),
        Some(c) => sx::int(c as i64),
        None => sx::atom(if hung { "hung" } else { "signal" }),
    };
    sx::tagged(
        "cli-obs",
        vec![
            sx::tagged("conns", vec![sx::nat(served.conns)]),
            sx::tagged("decoy", vec![sx::nat(decoy_conns)]),
            sx::tagged("resolver", vec![resolver]),
            sx::list(logsx),
            sx::list(docs),
            sx::boolean(clean),
            sx::boolean(esc),
            exit,
            if close_after.is_some() {
                // how the tool words "I could not print" is its own business
                sx::atom("-")
            } else if debug {
                // --debug prints the error in its Debug form: only "something was reported" is compared
                if stderr.is_empty() { sx::atom("-") } else { sx::tagged("msg", vec![sx::atom("debug")]) }
            } else {
                classify_stderr(&String::from_utf8_lossy(&stderr))
            },
        ],
    )
}

// ---------------------------------------------------------------------------
// generators

fn gen_string(rng: &mut Rng) -> String {
    match rng.below(9) {
        0 => String::new(),
        1 => "plain".into(),
        2 => "q\"uo\\te/slash".into(),
        3 => "line\nfeed\ttab\r\u{8}\u{c}".into(),
        4 => "\u{0}\u{1}\u{1b}[31mred\u{7f}".into(),
        5 => "ünï©ödé → 漢字 😀 \u{10ffff}".into(),
        6 => "\u{2028}\u{2029}\u{feff}".into(),
        7 => "{\"looks\":\"like json\"}".into(),
        _ => "x".repeat(rng.range(1, 300)),
    }
}

fn gen_number(rng: &mut Rng) -> Value {
    match rng.below(12) {
        0 => json!(0),
        1 => json!(-1),
        2 => json!(i64::MAX),
        3 => json!(i64::MIN),
        4 => json!(u64::MAX),
        5 => json!(9007199254740993u64),
        6 => json!(0.1),
        7 => json!(-0.0),
        8 => json!(1e300),
        9 => json!(5e-324),
        10 => json!(123456789.125),
        _ => json!(rng.below(1000) as i64 - 500),
    }
}

pub fn gen_value(rng: &mut Rng, depth: usize) -> Value {
    let top = if depth == 0 { 6 } else { 9 };
    match rng.below(top) {
        0 => Value::Null,
        1 => json!(rng.chance(1, 2)),
        2 => gen_number(rng),
        3 | 4 => json!(gen_string(rng)),
        5 => {
            if rng.chance(1, 2) {
                json!({})
            } else {
                json!([])
            }
        }
        6 => Value::Array((0..rng.below(4)).map(|_| gen_value(rng, depth - 1)).collect()),
        _ => {
            let mut m = serde_json::Map::new();
            for _ in 0..rng.below(4) {
                let k = if rng.chance(1, 4) { gen_string(rng) } else { format!("k{}", rng.below(5)) };
                m.insert(k, gen_value(rng, depth - 1));
            }
            Value::Object(m)
        }
    }
}

fn gen_params(rng: &mut Rng) -> Option<Value> {
    match rng.below(10) {
        0 => None,
        1 => Some(json!({})),
        2 => Some(Value::Null),
        3 => Some(gen_value(rng, 3)),
        _ => {
            let mut m = serde_json::Map::new();
            for i in 0..rng.range(1, 4) {
                m.insert(format!("f{}", i), gen_value(rng, 3));
            }
            Some(Value::Object(m))
        }
    }
}

fn reply_bytes(rng: &mut Rng, cont: Option<bool>, error: Option<String>, params: Option<Value>) -> Vec<u8> {
    let mut o = serde_json::Map::new();
    if let Some(c) = cont {
        o.insert("continues".into(), json!(c));
    }
    if let Some(e) = error {
        o.insert("error".into(), json!(e));
    }
    if let Some(p) = params {
        o.insert("parameters".into(), p);
    }
    let v = Value::Object(o);
    if rng.chance(1, 8) {
        serde_json::to_vec_pretty(&v).unwrap()
    } else {
        serde_json::to_vec(&v).unwrap()
    }
}

const STD: [&str; 4] = [
    "org.varlink.service.InterfaceNotFound",
    "org.varlink.service.InvalidParameter",
    "org.varlink.service.MethodNotFound",
    "org.varlink.service.MethodNotImplemented",
];

fn gen_error(rng: &mut Rng) -> (String, Option<Value>) {
    match rng.below(8) {
        // (a raw ESC in the parameter would be indistinguishable from the tool's own colouring on stderr)
        0 => (STD[0].into(), Some(json!({"interface": gen_string(rng).replace('\u{1b}', "ESC")}))),
        1 => (STD[1].into(), Some(json!({"parameter": "p"}))),
        2 => (STD[2].into(), Some(json!({"method": "org.example.cli.Nope"}))),
        3 => (STD[3].into(), if rng.chance(1, 2) { None } else { Some(json!({"method": 5})) }),
        4 => ("org.example.cli.Custom".into(), None),
        5 => ("org.example.cli.Custom".into(), gen_params(rng)),
        6 => match rng.below(3) {
            0 => ("org.example.cli.Ünï".into(), Some(json!({"why": gen_string(rng)}))),
            // user errors that merely share the unqualified name of a standard error
            1 => (
                format!("com.example.{}", *rng.pick(&["InvalidParameter", "MethodNotFound", "MethodNotImplemented", "InterfaceNotFound"])),
                Some(json!({"field": "size", "limit": 64, "parameter": "p", "method": "m", "interface": "i"})),
            ),
            _ => (
                format!("org.varlink.service.sub.{}", *rng.pick(&["InvalidParameter", "MethodNotFound"])),
                if rng.chance(1, 2) { None } else { Some(json!({"parameter": "x"})) },
            ),
        },
        _ => (STD[rng.below(4)].into(), crate::suites::client::gen_error_params(rng)),
    }
}

fn gen_frames(rng: &mut Rng, more: bool, tags: &mut Vec<String>) -> Sx {
    let mut frames = vec![sx::atom("frames")];
    let k = if more || rng.chance(1, 10) { *rng.pick(&[0usize, 0, 1, 2, 3, 5]) } else { 0 };
    if !more && k > 0 {
        tags.push("stream:continues-to-plain-call".into());
    }
    if more {
        tags.push(format!("stream:k={}", k));
    }
    let err_at = if rng.chance(1, 8) && k > 0 { Some(rng.below(k)) } else { None };
    for i in 0..k {
        if err_at == Some(i) {
            let (n, p) = gen_error(rng);
            let b = reply_bytes(rng, Some(true), Some(n), p);
            frames.push(frame_sx(&b));
            tags.push("stream:error-in-the-middle".into());
        } else {
            let p = gen_params(rng);
            let b = reply_bytes(rng, Some(true), None, p);
            frames.push(frame_sx(&b));
        }
    }
    if more && rng.chance(1, 12) {
        // a monitor-style stream: the replies so far, then the connection stays open
        frames.push(sx::atom("hold"));
        tags.push("final:held-open".into());
        return sx::list(frames);
    }
    match rng.below(20) {
        0 => {
            tags.push("final:eof-instead".into());
        }
        1 => {
            frames.push(frame_sx(b"{\"parameters\":"));
            tags.push("final:garbage".into());
        }
        2 => {
            let p = gen_params(rng);
            let mut b = reply_bytes(rng, None, None, p);
            if rng.chance(1, 2) {
                b.truncate(b.len() / 2);
            }
            frames.push(part_sx(&b));
            tags.push("final:partial-then-eof".into());
        }
        3..=7 => {
            let (n, p) = gen_error(rng);
            let c = if rng.chance(1, 4) { Some(false) } else { None };
            let b = reply_bytes(rng, c, Some(n), p);
            frames.push(frame_sx(&b));
            tags.push("final:error".into());
        }
        _ => {
            let p = gen_params(rng);
            let c = if rng.chance(1, 4) { Some(false) } else { None };
            let b = reply_bytes(rng, c, None, p);
            frames.push(frame_sx(&b));
            tags.push("final:result".into());
            if rng.chance(1, 15) {
                let p = gen_params(rng);
                let b = reply_bytes(rng, None, None, p);
                frames.push(frame_sx(&b));
                tags.push("final:extra-reply-after".into());
            }
        }
    }
    sx::list(frames)
}

/// how the reply bytes travel: now and then the first reply is large with multi-byte characters at the 8 KiB /
/// 16 KiB boundary of the client's read buffer; now and then the service writes in pieces that split a character
fn transport(rng: &mut Rng, frames: Sx, tags: &mut Vec<String>) -> Sx {
    let mut fl: Vec<Sx> = frames.as_list().unwrap().to_vec();
    if rng.chance(1, 10) && fl.len() > 1 {
        let first_ok = fl[1].as_list().map(|l| l.to_vec()).filter(|l| {
            l[0].as_atom() == Some("f") && l[2].as_list().map(|d| d.len() == 4 && d[2].as_atom() == Some("-")).unwrap_or(false)
        });
        if let Some(l) = first_ok {
            let cont = l[2].as_list().unwrap()[1].as_opt_bool().unwrap_or(None);
            let at = *rng.pick(&[8189usize, 8190, 8191, 8192, 8193, 16381, 16382, 16383, 16384, 16385]);
            fl[1] = frame_sx(&big_reply_text(cont, at));
            tags.push("transport:large-reply-multibyte-at-buffer-boundary".into());
        }
    }
    if rng.chance(1, 7) {
        let body: Vec<Sx> = fl[1..].iter().filter(|f| f.as_list().is_some()).cloned().collect();
        let bytes = frames_to_bytes(&body);
        let mut offs = char_splitting_offsets(&bytes);
        if offs.is_empty() && !bytes.is_empty() {
            offs.push(rng.below(bytes.len()));
        }
        if !offs.is_empty() {
            let mut cuts = vec![sx::atom("cuts")];
            for _ in 0..rng.range(1, 3) {
                cuts.push(sx::nat(*rng.pick(&offs)));
            }
            // before a trailing `hold`
            let at = if fl.last().and_then(|x| x.as_atom()) == Some("hold") { fl.len() - 1 } else { fl.len() };
            fl.insert(at, sx::list(cuts));
            tags.push("transport:written-in-pieces".into());
        }
    }
    sx::list(fl)
}

/// can the harness give the tool a private /etc/hosts (user + mount namespace) and is ::1 there?
fn unshare_works() -> bool {
    static ONCE: std::sync::OnceLock<bool> = std::sync::OnceLock::new();
    *ONCE.get_or_init(|| {
        let ns = Command::new("unshare")
            .args(["-rm", "sh", "-c", "mount --bind /etc/hostname /etc/hosts"])
            .stdin(Stdio::null())
            .stdout(Stdio::null())
            .stderr(Stdio::null())
            .status()
            .map(|s| s.success())
            .unwrap_or(false);
        ns && TcpListener::bind("[::1]:0").is_ok()
    })
}

fn gen_case(rng: &mut Rng) -> Case {
    let mut tags = Vec::new();
    let method = match rng.below(6) {
        0 => "org.example.cli.Ping".to_string(),
        1 => "a.B".to_string(),
        2 => "org.example.cli.sub-x.Method".to_string(),
        3 => "x.y.z.W".to_string(),
        _ => format!("org.example.cli.M{}", rng.below(100)),
    };
    let mut decoy: Option<String> = None;
    let mut hosts = false;
    let (form, listen, url) = match rng.below(if unshare_works() { 27 } else { 23 + 2 }) {
        // -b CMD: the connection is the stdio of a command that consumes the request, prints the frames and exits
        n if n == (if unshare_works() { 25 } else { 23 }) || n == (if unshare_works() { 26 } else { 24 }) => {
            ("bridge", "-".to_string(), method.clone())
        }
        23 | 24 => {
            // a host name that resolves to several addresses, the service listens on one of them only
            hosts = true;
            let l = (*rng.pick(&["tcp:127.0.0.1:@PORT@", "tcp:[::1]:@PORT@"])).to_string();
            ("tcp", l, format!("tcp:multihost:@PORT@/{}", method))
        }
        20 => {
            // an abstract name that ends in '/' or '/.': the split is at the LAST slash; a sibling service listens
            // on the name without that ending
            let tail = *rng.pick(&["/", "/.", "/x/", "//"]);
            let l = format!("unix:@@ABS@{}", tail);
            decoy = Some(format!("unix:@@ABS@{}", tail.trim_end_matches('.').trim_end_matches('/')));
            ("abstract", l.clone(), format!("{}/{}", l, method))
        }
        21 => {
            // a socket path followed by '/' or '/.': names something below the socket, which cannot be connected
            let tail = *rng.pick(&["/", "/."]);
            ("path", "unix:@DIR@/sock".to_string(), format!("unix:@DIR@/sock{}/{}", tail, method))
        }
        22 => {
            // directory components '.' and doubled slashes inside the path are the kernel's business, not the tool's
            let l = *rng.pick(&["unix:@DIR@/./sock", "unix:@DIR@//sock", "unix:@DIR@/d/../sock"]);
            ("path", l.to_string(), format!("{}/{}", l, method))
        }
        0..=5 => {
            let sub = *rng.pick(&["", "/a", "/a/b.c/d", "/with.dots/and spaces", "/ü/é"]);
            let l = format!("unix:@DIR@{}/sock", sub);
            ("path", l.clone(), format!("{}/{}", l, method))
        }
        6..=8 => {
            let l = "unix:@DIR@/s;mode=0600".to_string();
            ("path", "unix:@DIR@/s".to_string(), format!("{}/{}", l, method))
        }
        9..=11 => {
            let sub = *rng.pick(&["", "/x", "/x/y.z", ".dots"]);
            let l = format!("unix:@@ABS@{}", sub);
            ("abstract", l.clone(), format!("{}/{}", l, method))
        }
        12..=14 => {
            // IPv4 and (where the loopback has it) IPv6 literal addresses
            let l = if rng.chance(1, 2) && TcpListener::bind("[::1]:0").is_ok() { "tcp:[::1]:@PORT@".to_string() } else { "tcp:127.0.0.1:@PORT@".to_string() };
            ("tcp", l.clone(), format!("{}/{}", l, method))
        }
        15..=16 => ("resolver", "unix:@DIR@/behind/resolver".to_string(), method.clone()),
        17 => {
            // method part without a dot: rejected before anything is contacted
            let l = "unix:@DIR@/sock".to_string();
            ("path", l.clone(), format!("{}/{}", l, "NoDotMethod"))
        }
        18 => match rng.below(4) {
            0 => ("nolisten", "unix:@DIR@/nobody".to_string(), "nodotnoslash".to_string()),
            // an address without scheme: split as usual, then refused by the connection code
            1 => ("nolisten", "unix:@DIR@/nobody".to_string(), format!("@DIR@/nobody/{}", method)),
            // trailing slash: the method part is empty
            2 => ("path", "unix:@DIR@/sock".to_string(), "unix:@DIR@/sock/".to_string()),
            // a slash after the method: the last piece has no dot
            _ => ("path", "unix:@DIR@/sock".to_string(), format!("unix:@DIR@/sock/{}/x", method)),
        },
        _ => {
            // nobody listens there
            ("nolisten", "unix:@DIR@/nobody".to_string(), format!("unix:@DIR@/nobody/{}", method))
        }
    };
    tags.push(format!("addr:{}", form));
    let args = match rng.below(6) {
        0 => sx::atom("-"),
        1 if form != "bridge" => {
            tags.push("args:invalid-json".into());
            sx::tagged("args", vec![sx::xs("{not json"), sx::atom("bad")])
        }
        _ => {
            let v = if rng.chance(1, 3) { gen_value(rng, 2) } else { json!({"n": rng.below(10), "s": gen_string(rng)}) };
            // clap takes a leading '-' for an option: negative numbers go into an array
            let v = if serde_json::to_string(&v).unwrap().starts_with('-') { json!([v]) } else { v };
            let text = if rng.chance(1, 4) { serde_json::to_string_pretty(&v).unwrap() } else { serde_json::to_string(&v).unwrap() };
            // what the tool will make of the text
            let dec: Value = serde_json::from_str(&text).unwrap();
            sx::tagged("args", vec![sx::xs(&text), sx::json(&dec)])
        }
    };
    let more = rng.chance(1, 2);
    // global options: the outcome (stdout, exit status) must not depend on them
    let debug = rng.chance(1, 4);
    let bogus_resolver = form != "resolver" && rng.chance(1, 10);
    tags.push(format!("debug:{}", debug));
    let color = *rng.pick(&["on", "off", "on", "off", "auto", "auto", "absent"]);
    tags.push(format!("color:{}", color));
    tags.push(format!("more:{}", more));
    // where stdout / stderr of the tool go: pipes mostly; pseudo-terminals in every combination for auto/absent
    let tty = if color == "auto" || color == "absent" {
        *rng.pick(&["pp", "pp", "pt", "tp", "tt"])
    } else {
        *rng.pick(&["pp", "pp", "pp", "pp", "pp", "pt", "tp", "tt"])
    };
    tags.push(format!("tty:stdout={},stderr={}", &tty[0..1], &tty[1..2]));
    let frames = gen_frames(rng, more, &mut tags);
    let mut frames = transport(rng, frames, &mut tags);
    // how many leading frames are successful replies; is anything behind them
    let (lead, total) = {
        let fl = frames.as_list().unwrap();
        let body: Vec<&Sx> = fl[1..].iter().filter(|f| f.as_list().map(|x| x[0].as_atom() != Some("cuts")).unwrap_or(false)).collect();
        let lead = body.iter().take_while(|f| {
            let l = f.as_list().unwrap();
            l[0].as_atom() == Some("f") && l[2].as_list().map(|d| d.len() == 4 && d[2].as_atom() == Some("-")).unwrap_or(false)
        }).count();
        (lead, body.len())
    };
    let strip_hold = |frames: &Sx| sx::list(frames.as_list().unwrap().iter().filter(|f| f.as_atom() != Some("hold")).cloned().collect());
    if form == "bridge" {
        // the command exits after printing: there is no "held open"
        frames = strip_hold(&frames);
    }
    // the reader of the tool's stdout goes away after n documents while more replies are still to come
    let mut close_stdout: Option<usize> = None;
    if more && form != "bridge" && lead >= 1 && total > 1 && rng.chance(1, 6) {
        let n = rng.range(1, lead.min(total - 1));
        close_stdout = Some(n);
        frames = strip_hold(&frames);
        tags.push("stdout:reader-goes-away".into());
    }
    let tty = if close_stdout.is_some() { "pp" } else { tty };
    tags.sort();
    tags.dedup();
    Case {
        input: sx::tagged(
            "cli",
            {
                let mut v = vec![sx::atom(form), sx::xs(&listen), sx::xs(&url), args, sx::boolean(more), sx::atom(color), frames];
                if let Some(d) = decoy {
                    v.push(sx::tagged("decoy", vec![sx::xs(&d)]));
                }
                if debug {
                    v.push(sx::list(vec![sx::atom("debug")]));
                }
                if bogus_resolver {
                    v.push(sx::list(vec![sx::atom("bogus-resolver")]));
                }
                if hosts {
                    v.push(sx::list(vec![sx::atom("hosts")]));
                }
                if let Some(n) = close_stdout {
                    v.push(sx::tagged("close-stdout", vec![sx::nat(n)]));
                }
                if tty != "pp" {
                    v.push(sx::tagged("tty", vec![sx::atom(&tty[0..1]), sx::atom(&tty[1..2])]));
                }
                v
            },
        ),
        tags,
    }
}

impl Suite for CliSuite {
    fn generate(&self, ctx: &Ctx) -> Vec<Case> {
        let mut rng = Rng::new(ctx.seed ^ 0xC20);
        let mut cases = Vec::new();
        if let Ok(txt) = std::fs::read_to_string(concat!(env!("CARGO_MANIFEST_DIR"), "/corpus/cli.txt")) {
            for l in txt.lines() {
                if l.trim_start().starts_with('(') {
                    if let Some(s) = sx::parse(l) {
                        cases.push(Case { input: s, tags: vec!["corpus".into()] });
                    }
                }
            }
        }
        let n = if ctx.thorough { 6000 } else { 1500 };
        for _ in 0..n {
            cases.push(gen_case(&mut rng));
        }
        cases
    }

    fn run(&self, _ctx: &Ctx, input: &Sx) -> Sx {
        run_cli(input)
    }
}
