//! vhelper — child-process side of the suites `addr` (C16) and `proxy` (C18).
//!
//!   vhelper serve <specfile> <address> [--idle SECS] [--dump FILE] [--banner]
//!       serve the world of <specfile> with varlink::listen (honours socket activation);
//!       --dump writes pid, activation variables and descriptor table before listening;
//!       --banner prints a line on stdout first (a service's stdout is not part of any varlink stream)
//!   vhelper stdio <specfile> [--dump FILE]
//!       serve one connection on stdin/stdout (the far end of Connection::with_bridge)
//!   vhelper listener <address> <outfile>
//!       Listener::new(address) in this process' environment; report what was adopted/bound
//!   vhelper pump <address>
//!       byte pump stdin/stdout <-> socket
//!   vhelper actclient <specfile> <dumpfile> <outfile> [<fd,fd,…>]
//!       close every descriptor from 3 up and the listed ones of 0,1,2, then Connection::with_activate
//!       (so that the listener of varlink_exec lands on the lowest free descriptor: 3 = the
//!       clear-close-on-exec branch, 0/1/2 = the dup2 branch from below), one GetInfo call; everything
//!       is reported through <outfile>
#![allow(dead_code, unused_imports)]

#[path = "../rng.rs"]
mod rng;
#[path = "../sx.rs"]
mod sx;

pub struct Ctx {
    pub seed: u64,
    pub thorough: bool,
    pub prop: String,
    pub out_dir: String,
}
pub struct Case {
    pub input: sx::Sx,
    pub tags: Vec<String>,
}
pub trait Suite {
    fn generate(&self, ctx: &Ctx) -> Vec<Case>;
    fn run(&self, ctx: &Ctx, input: &sx::Sx) -> sx::Sx;
    fn setup(&self, _ctx: &Ctx) {}
    fn teardown(&self, _ctx: &Ctx) {}
}

#[path = "../suites/wire.rs"]
pub mod wire_impl;
#[path = "../suites/addr.rs"]
pub mod addr_impl;
mod suites {
    pub use super::addr_impl as addr;
    pub use super::wire_impl as wire;
}

use std::io::{Read, Write};
use suites::addr::world;

fn read_spec(path: &str) -> world::WorldSpec {
    let txt = std::fs::read_to_string(path).expect("specfile");
    let s = sx::parse(txt.lines().next().unwrap_or("")).expect("spec sx");
    world::WorldSpec::from_sx(&s).expect("world spec")
}

fn opt(args: &[String], name: &str) -> Option<String> {
    args.iter().position(|a| a == name).and_then(|i| args.get(i + 1).cloned())
}

fn main() {
    let args: Vec<String> = std::env::args().collect();
    if args.len() < 2 {
        eprintln!("usage: vhelper serve|stdio|listener|pump ...");
        std::process::exit(2);
    }
    match args[1].as_str() {
        "serve" => {
            let spec = read_spec(&args[2]);
            let address = args[3].clone();
            if let Some(d) = opt(&args, "--dump") {
                let tmp = format!("{}.tmp", d);
                std::fs::write(&tmp, serde_json::to_string(&world::self_dump()).unwrap()).unwrap();
                std::fs::rename(&tmp, &d).unwrap();
            }
            if args.iter().any(|a| a == "--banner") {
                let mut o = std::io::stdout();
                let _ = writeln!(o, "{}", world::BANNER);
                let _ = o.flush();
            }
            let idle: u64 = opt(&args, "--idle").and_then(|s| s.parse().ok()).unwrap_or(2);
            let built = world::build_world(&spec);
            let cfg = varlink::ListenConfig { idle_timeout: idle, ..Default::default() };
            let r = varlink::listen(built.service, &address, &cfg);
            match r {
                Ok(()) => {}
                Err(e) => {
                    if *e.kind() != varlink::ErrorKind::Timeout {
                        eprintln!("vhelper serve: {:?}", e.kind());
                        std::process::exit(3);
                    }
                }
            }
        }
        "stdio" => {
            let spec = read_spec(&args[2]);
            if let Some(d) = opt(&args, "--dump") {
                let tmp = format!("{}.tmp", d);
                std::fs::write(&tmp, serde_json::to_string(&world::self_dump()).unwrap()).unwrap();
                std::fs::rename(&tmp, &d).unwrap();
            }
            let built = world::build_world(&spec);
            let stdin = std::io::stdin();
            let mut br = std::io::BufReader::new(stdin.lock());
            let mut out = std::io::stdout();
            world::serve_stream(&built.service, &mut br, &mut out);
        }
        "listener" => {
            let address = args[2].clone();
            let out = args[3].clone();
            let line = world::listener_report(&address);
            let tmp = format!("{}.tmp", out);
            std::fs::write(&tmp, line).unwrap();
            std::fs::rename(&tmp, &out).unwrap();
        }
        "listener2" => {
            // listener2 ADDRESS1 OUT ADDRESS2 FDS2 PIDKIND PRE SUF NAMES2: a second listener after the
            // environment has been changed (`-` = unset, `=value` = set)
            let out = args[3].clone();
            // what is open from 3 up before the first listener is created (the descriptors handed over)
            let is_open = |fd: i32| unsafe { libc::fcntl(fd, libc::F_GETFD) } >= 0;
            let inherited: Vec<i32> = (3..64).filter(|fd| is_open(*fd)).collect();
            let first = world::listener_report(&args[2]);
            // descriptors of the service's own, opened between the two listeners
            let mut p1 = [0i32; 2];
            let mut p2 = [0i32; 2];
            unsafe {
                libc::pipe(p1.as_mut_ptr());
                libc::pipe(p2.as_mut_ptr());
            }
            let set = |k: &str, v: &str| {
                if let Some(val) = v.strip_prefix('=') {
                    std::env::set_var(k, val);
                } else {
                    std::env::remove_var(k);
                }
            };
            set("LISTEN_FDS", &args[5]);
            match args[6].as_str() {
                "self" => std::env::set_var("LISTEN_PID", format!("{}{}{}", args[7], std::process::id(), args[8])),
                "lit" => std::env::set_var("LISTEN_PID", &args[7]),
                _ => std::env::remove_var("LISTEN_PID"),
            }
            set("LISTEN_FDNAMES", &args[9]);
            let second = world::listener_report(&args[4]);
            // creating a listener touches no descriptor but its own
            let pipe_ok = |p: &[i32; 2], byte: u8| unsafe {
                let mut b = [0u8; 1];
                libc::write(p[1], [byte].as_ptr() as *const libc::c_void, 1) == 1
                    && libc::read(p[0], b.as_mut_ptr() as *mut libc::c_void, 1) == 1
                    && b[0] == byte
            };
            let lost: Vec<String> = inherited.iter().filter(|fd| !is_open(**fd)).map(|fd| fd.to_string()).collect();
            let fds = if !lost.is_empty() {
                format!("(fds closed-{})", lost.join("-"))
            } else if !pipe_ok(&p1, 7) || !pipe_ok(&p2, 9) {
                "(fds own-descriptors-damaged)".to_string()
            } else {
                "(fds ok)".to_string()
            };
            let tmp = format!("{}.tmp", out);
            std::fs::write(&tmp, format!("{}\n{}\n{}\n", first, second, fds)).unwrap();
            std::fs::rename(&tmp, &out).unwrap();
        }
        "actclient" => {
            let spec = args[2].clone();
            let dump = args[3].clone();
            let out = args[4].clone();
            let exe = std::env::current_exe().unwrap().to_string_lossy().to_string();
            let low: Vec<i32> = args.get(5).map(|l| l.split(',').filter_map(|x| x.parse().ok()).collect()).unwrap_or_default();
            for fd in 3..256 {
                unsafe {
                    libc::close(fd);
                }
            }
            for fd in low {
                if (0..3).contains(&fd) {
                    unsafe {
                        libc::close(fd);
                    }
                }
            }
            let cmd = format!("{} serve {} $VARLINK_ADDRESS --idle 2 --dump {} --banner", exe, spec, dump);
            let line = match varlink::Connection::with_activate(&cmd) {
                Err(e) => format!("(fail x{})", sx::hex(format!("{:?}", e.kind()).as_bytes())),
                Ok(conn) => {
                    let child = conn.write().unwrap().child.take();
                    let address = conn.read().unwrap().address();
                    // the call under a watchdog: a service that never got its socket never answers
                    let (tx, rx) = std::sync::mpsc::channel();
                    let conn2 = conn.clone();
                    std::thread::spawn(move || {
                        use varlink::OrgVarlinkServiceInterface;
                        let mut c = varlink::OrgVarlinkServiceClient::new(conn2);
                        let _ = tx.send(c.get_info().map(|i| i.vendor.to_string()).map_err(|e| format!("{:?}", e.kind())));
                    });
                    let r = rx.recv_timeout(std::time::Duration::from_millis(2500)).unwrap_or_else(|_| Err("timeout".to_string()));
                    let pid = child.as_ref().map(|c| c.id()).unwrap_or(0);
                    if let Some(mut c) = child {
                        // leave the service a moment to write its dump, then stop it
                        let t0 = std::time::Instant::now();
                        while !std::path::Path::new(&dump).exists() && t0.elapsed() < std::time::Duration::from_secs(2) {
                            std::thread::sleep(std::time::Duration::from_millis(2));
                        }
                        let _ = c.kill();
                        let _ = c.wait();
                    }
                    match r {
                        Ok(v) => format!("(ok x{} {} x{})", sx::hex(v.as_bytes()), pid, sx::hex(address.as_bytes())),
                        Err(e) => format!("(callfail x{} {} x{})", sx::hex(e.as_bytes()), pid, sx::hex(address.as_bytes())),
                    }
                }
            };
            let tmp = format!("{}.tmp", out);
            std::fs::write(&tmp, line).unwrap();
            std::fs::rename(&tmp, &out).unwrap();
        }
        "pump" => {
            let address = args[2].clone();
            let (mut s, _) = varlink::varlink_connect(&address).expect("connect");
            let (mut r, mut w) = s.split().expect("split");
            let t = std::thread::spawn(move || {
                let mut buf = [0u8; 8192];
                let mut stdin = std::io::stdin();
                loop {
                    match stdin.read(&mut buf) {
                        Ok(0) | Err(_) => break,
                        Ok(n) => {
                            if w.write_all(&buf[..n]).is_err() {
                                break;
                            }
                            let _ = w.flush();
                        }
                    }
                }
                // client closed: half-close towards the service
                drop(w);
            });
            let mut buf = [0u8; 8192];
            let mut stdout = std::io::stdout();
            loop {
                match r.read(&mut buf) {
                    Ok(0) | Err(_) => break,
                    Ok(n) => {
                        if stdout.write_all(&buf[..n]).is_err() {
                            break;
                        }
                        let _ = stdout.flush();
                    }
                }
            }
            let _ = s.shutdown();
            drop(t);
        }
        other => {
            eprintln!("unknown subcommand {}", other);
            std::process::exit(2);
        }
    }
}
