//! vharness — runs the real varlink/rust code on generated cases and prints
//! one observation line per case (see /verif/DESIGN.md §3.3, §4.1).
//!
//!   vharness <suite> --out DIR [--seed N] [--tier quick|thorough] [--prop Cxx]
//!   vharness <suite> --out DIR --replay FILE      (re-run the case lines of FILE)
//!
//! Writes DIR/cases.txt (inputs), DIR/impl.txt (observations, line i belongs to
//! case i) and DIR/meta.json (input distribution).
mod rng;
mod suites;
mod sx;

use std::collections::BTreeMap;
use std::io::Write;

pub struct Ctx {
    pub seed: u64,
    pub thorough: bool,
    pub prop: String,
    pub out_dir: String,
}

pub struct Case {
    pub input: sx::Sx,
    pub tags: Vec<String>,
}

pub trait Suite: Sync {
    /// how many cases may run at the same time (cases that mostly wait for real time)
    fn parallelism(&self, _ctx: &Ctx) -> usize {
        1
    }
    /// generate the case inputs of this run (corpus first)
    fn generate(&self, ctx: &Ctx) -> Vec<Case>;
    /// run the real code on one case input
    fn run(&self, ctx: &Ctx, input: &sx::Sx) -> sx::Sx;
    /// optional whole-suite setup/teardown
    fn setup(&self, _ctx: &Ctx) {}
    fn teardown(&self, _ctx: &Ctx) {}
}

fn main() {
    let args: Vec<String> = std::env::args().collect();
    if args.len() < 2 {
        eprintln!("usage: vharness <suite> --out DIR [--seed N] [--tier T] [--prop Cxx] [--replay FILE]");
        std::process::exit(2);
    }
    let suite_name = args[1].clone();
    let mut seed: u64 = std::env::var("VERIF_SEED").ok().and_then(|s| s.parse().ok()).unwrap_or(1);
    let mut tier = std::env::var("VERIF_TIER").unwrap_or_else(|_| "quick".into());
    let mut out_dir = String::from(".");
    let mut prop = String::new();
    let mut replay: Option<String> = None;
    let mut i = 2;
    while i < args.len() {
        match args[i].as_str() {
            "--seed" => { seed = args[i + 1].parse().expect("seed"); i += 2; }
            "--tier" => { tier = args[i + 1].clone(); i += 2; }
            "--out" => { out_dir = args[i + 1].clone(); i += 2; }
            "--prop" => { prop = args[i + 1].clone(); i += 2; }
            "--replay" => { replay = Some(args[i + 1].clone()); i += 2; }
            other => { eprintln!("unknown argument {}", other); std::process::exit(2); }
        }
    }
    let ctx = Ctx { seed, thorough: tier == "thorough", prop, out_dir: out_dir.clone() };
    std::fs::create_dir_all(&out_dir).expect("out dir");
    // panics inside cases are observations, not crashes of the harness
    std::panic::set_hook(Box::new(|_| {}));

    let suite = suites::by_name(&suite_name).unwrap_or_else(|| {
        eprintln!("unknown suite {}", suite_name);
        std::process::exit(2);
    });

    let cases: Vec<Case> = match replay {
        Some(f) => std::fs::read_to_string(&f)
            .expect("replay file")
            .lines()
            .filter(|l| l.trim_start().starts_with('('))
            .filter_map(sx::parse)
            .map(|input| Case { input, tags: vec!["replay".into()] })
            .collect(),
        None => suite.generate(&ctx),
    };

    suite.setup(&ctx);
    // the inputs are on disk before anything runs, and every case leaves a start and an end mark: when the
    // real code takes the whole process down (abort, stack overflow, allocation failure) or hangs, the
    // check finds the case that was running (DESIGN §5.2)
    {
        let mut cases_f = std::io::BufWriter::new(std::fs::File::create(format!("{}/cases.txt", out_dir)).unwrap());
        for c in &cases {
            writeln!(cases_f, "{}", c.input.render()).unwrap();
        }
        cases_f.flush().unwrap();
    }
    let progress = std::sync::Mutex::new(std::fs::File::create(format!("{}/progress.txt", out_dir)).unwrap());
    let mark = |what: &str, i: usize| {
        let mut f = progress.lock().unwrap();
        let _ = writeln!(f, "{} {}", what, i);
    };
    let mut impl_f = std::io::BufWriter::new(std::fs::File::create(format!("{}/impl.txt", out_dir)).unwrap());
    let mut hist: BTreeMap<String, usize> = BTreeMap::new();
    let mut panics = 0usize;
    for c in &cases {
        for t in &c.tags {
            *hist.entry(t.clone()).or_insert(0) += 1;
        }
    }
    let run_one = |c: &Case| -> (sx::Sx, bool) {
        match std::panic::catch_unwind(std::panic::AssertUnwindSafe(|| suite.run(&ctx, &c.input))) {
            Ok(o) => (o, false),
            Err(e) => {
                let msg = if let Some(s) = e.downcast_ref::<String>() {
                    s.clone()
                } else if let Some(s) = e.downcast_ref::<&str>() {
                    s.to_string()
                } else {
                    "?".into()
                };
                (sx::tagged("panic", vec![sx::xs(&msg)]), true)
            }
        }
    };
    let par = suite.parallelism(&ctx).max(1);
    let mut results: Vec<Option<(sx::Sx, bool)>> = (0..cases.len()).map(|_| None).collect();
    if par == 1 {
        for (i, c) in cases.iter().enumerate() {
            mark("s", i);
            results[i] = Some(run_one(c));
            mark("e", i);
        }
    } else {
        let next = std::sync::atomic::AtomicUsize::new(0);
        let slots = std::sync::Mutex::new(&mut results);
        std::thread::scope(|sc| {
            for _ in 0..par {
                sc.spawn(|| loop {
                    let i = next.fetch_add(1, std::sync::atomic::Ordering::SeqCst);
                    if i >= cases.len() {
                        break;
                    }
                    mark("s", i);
                    let r = run_one(&cases[i]);
                    mark("e", i);
                    slots.lock().unwrap()[i] = Some(r);
                });
            }
        });
    }
    for (c, r) in cases.iter().zip(results.into_iter()) {
        let (obs, p) = r.unwrap();
        if p {
            panics += 1;
        }
        let _ = c;
        writeln!(impl_f, "{}", obs.render()).unwrap();
    }
    suite.teardown(&ctx);
    impl_f.flush().unwrap();
    let meta = serde_json::json!({
        "suite": suite_name,
        "seed": seed,
        "tier": tier,
        "cases": cases.len(),
        "panics": panics,
        "distribution": hist,
    });
    std::fs::write(format!("{}/meta.json", out_dir), serde_json::to_string_pretty(&meta).unwrap()).unwrap();
}
