//! S-expression line protocol shared with the Lean driver (see lean/Driver/Sx.lean).
use serde_json::Value;

#[derive(Clone, Debug, PartialEq)]
pub enum Sx {
    Atom(String),
    List(Vec<Sx>),
}

pub fn atom<S: Into<String>>(s: S) -> Sx {
    Sx::Atom(s.into())
}
pub fn list(v: Vec<Sx>) -> Sx {
    Sx::List(v)
}
pub fn hex(b: &[u8]) -> String {
    let mut s = String::with_capacity(b.len() * 2);
    for x in b {
        s.push_str(&format!("{:02x}", x));
    }
    s
}
pub fn unhex(s: &str) -> Option<Vec<u8>> {
    if s.len() % 2 != 0 {
        return None;
    }
    (0..s.len() / 2)
        .map(|i| u8::from_str_radix(&s[2 * i..2 * i + 2], 16).ok())
        .collect()
}
pub fn xs(s: &str) -> Sx {
    atom(format!("x{}", hex(s.as_bytes())))
}
pub fn bs(b: &[u8]) -> Sx {
    atom(format!("b{}", hex(b)))
}
pub fn nat(n: usize) -> Sx {
    atom(format!("{}", n))
}
pub fn int(n: i64) -> Sx {
    atom(format!("{}", n))
}
pub fn boolean(b: bool) -> Sx {
    atom(if b { "t" } else { "f" })
}
pub fn opt_bool(b: Option<bool>) -> Sx {
    match b {
        None => atom("-"),
        Some(true) => atom("t"),
        Some(false) => atom("f"),
    }
}
pub fn opt_str(s: Option<&str>) -> Sx {
    match s {
        None => atom("-"),
        Some(s) => xs(s),
    }
}
pub fn tagged(tag: &str, mut v: Vec<Sx>) -> Sx {
    let mut l = vec![atom(tag)];
    l.append(&mut v);
    Sx::List(l)
}

pub fn json(v: &Value) -> Sx {
    match v {
        Value::Null => atom("n"),
        Value::Bool(true) => atom("t"),
        Value::Bool(false) => atom("f"),
        Value::Number(n) => {
            if let Some(i) = n.as_i64() {
                list(vec![atom("i"), atom(format!("{}", i))])
            } else if let Some(u) = n.as_u64() {
                list(vec![atom("i"), atom(format!("{}", u))])
            } else {
                let f = n.as_f64().unwrap_or(0.0);
                list(vec![atom("d"), atom(format!("{}", f.to_bits()))])
            }
        }
        Value::String(s) => list(vec![atom("s"), xs(s)]),
        Value::Array(a) => {
            let mut l = vec![atom("a")];
            l.extend(a.iter().map(json));
            list(l)
        }
        Value::Object(o) => {
            // serde_json::Map is a BTreeMap here (no preserve_order): sorted keys
            let mut kv: Vec<(&String, &Value)> = o.iter().collect();
            kv.sort_by(|a, b| a.0.as_bytes().cmp(b.0.as_bytes()));
            let mut l = vec![atom("o")];
            l.extend(kv.into_iter().map(|(k, v)| list(vec![xs(k), json(v)])));
            list(l)
        }
    }
}
pub fn opt_json(v: Option<&Value>) -> Sx {
    match v {
        None => atom("-"),
        Some(v) => json(v),
    }
}

impl Sx {
    pub fn render(&self) -> String {
        let mut s = String::new();
        self.render_into(&mut s);
        s
    }
    fn render_into(&self, out: &mut String) {
        match self {
            Sx::Atom(a) => out.push_str(a),
            Sx::List(l) => {
                out.push('(');
                for (i, x) in l.iter().enumerate() {
                    if i > 0 {
                        out.push(' ');
                    }
                    x.render_into(out);
                }
                out.push(')');
            }
        }
    }
    pub fn as_atom(&self) -> Option<&str> {
        match self {
            Sx::Atom(a) => Some(a),
            _ => None,
        }
    }
    pub fn as_list(&self) -> Option<&[Sx]> {
        match self {
            Sx::List(l) => Some(l),
            _ => None,
        }
    }
    pub fn as_str(&self) -> Option<String> {
        let a = self.as_atom()?;
        let h = a.strip_prefix('x')?;
        String::from_utf8(unhex(h)?).ok()
    }
    pub fn as_bytes(&self) -> Option<Vec<u8>> {
        let a = self.as_atom()?;
        unhex(a.strip_prefix('b')?)
    }
    pub fn as_usize(&self) -> Option<usize> {
        self.as_atom()?.parse().ok()
    }
    pub fn as_opt_bool(&self) -> Option<Option<bool>> {
        match self.as_atom()? {
            "-" => Some(None),
            "t" => Some(Some(true)),
            "f" => Some(Some(false)),
            _ => None,
        }
    }
    pub fn to_json(&self) -> Option<Value> {
        match self {
            Sx::Atom(a) => match a.as_str() {
                "n" => Some(Value::Null),
                "t" => Some(Value::Bool(true)),
                "f" => Some(Value::Bool(false)),
                _ => None,
            },
            Sx::List(l) => {
                let tag = l.first()?.as_atom()?;
                match tag {
                    "i" => {
                        let t = l.get(1)?.as_atom()?;
                        if let Ok(i) = t.parse::<i64>() {
                            Some(Value::from(i))
                        } else {
                            t.parse::<u64>().ok().map(Value::from)
                        }
                    }
                    "d" => {
                        let bits: u64 = l.get(1)?.as_atom()?.parse().ok()?;
                        serde_json::Number::from_f64(f64::from_bits(bits)).map(Value::Number)
                    }
                    "s" => l.get(1)?.as_str().map(Value::String),
                    "a" => l[1..].iter().map(|x| x.to_json()).collect::<Option<Vec<_>>>().map(Value::Array),
                    "o" => {
                        let mut m = serde_json::Map::new();
                        for kv in &l[1..] {
                            let kv = kv.as_list()?;
                            m.insert(kv.first()?.as_str()?, kv.get(1)?.to_json()?);
                        }
                        Some(Value::Object(m))
                    }
                    _ => None,
                }
            }
        }
    }
}

pub fn parse(line: &str) -> Option<Sx> {
    let mut toks: Vec<String> = Vec::new();
    let mut cur = String::new();
    for c in line.chars() {
        match c {
            '(' | ')' => {
                if !cur.is_empty() {
                    toks.push(std::mem::take(&mut cur));
                }
                toks.push(c.to_string());
            }
            ' ' | '\n' | '\r' | '\t' => {
                if !cur.is_empty() {
                    toks.push(std::mem::take(&mut cur));
                }
            }
            _ => cur.push(c),
        }
    }
    if !cur.is_empty() {
        toks.push(cur);
    }
    let mut pos = 0;
    let r = parse_one(&toks, &mut pos)?;
    if pos == toks.len() {
        Some(r)
    } else {
        None
    }
}

fn parse_one(toks: &[String], pos: &mut usize) -> Option<Sx> {
    let t = toks.get(*pos)?;
    *pos += 1;
    if t == "(" {
        let mut v = Vec::new();
        loop {
            let t = toks.get(*pos)?;
            if t == ")" {
                *pos += 1;
                return Some(Sx::List(v));
            }
            v.push(parse_one(toks, pos)?);
        }
    } else if t == ")" {
        None
    } else {
        Some(Sx::Atom(t.clone()))
    }
}
