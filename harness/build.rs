fn main() {
    // the real generator, run on every build of the harness
    varlink_generator::cargo_build("idl/org.example.vtest.varlink");
    varlink_generator::cargo_build("idl/org.example.crlf.varlink");
}
