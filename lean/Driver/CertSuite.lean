/-
Driver.CertSuite — suite `cert` (C19): run Model.Cert on the request history of a
case and print the observation in the canonical form of harness/src/suites/cert.rs;
evaluate `P_C19` on the implementation's observation.
-/
import Driver.SerdeInst
import VarlinkVerif.Pred.Cert

namespace VV
open Sx

def certConsts : Consts := { serviceDesc := "" }

def repSx (r : Reply) : Sx :=
  .list [.atom "rep", ofOptBool r.continues, ofOptStr r.error, ofOptJson r.parameters]

structure CertRun where
  st : CertState := CertState.empty
  starts : Nat := 0
  out : List Sx := []

def certStepLine (run : CertRun) (raw : Json) : CertRun :=
  match decodeRequest cvtF64 raw with
  | none => { run with out := run.out ++ [.list [.atom "r", .atom "t"]] }
  | some req =>
    let fresh := "@cid" ++ toString run.starts
    let (st', res) := certServe cvtF64 certConsts "" run.st fresh req
    let started := decide (res.out = [startReply fresh])
    { st := st', starts := if started then run.starts + 1 else run.starts,
      out := run.out ++ [.list (.atom "r" :: ofBool (!res.ok) :: res.out.map repSx)] }

def parseQ : Sx → Option (String × Json)
  | .list [.atom "q", _, .atom cls, raw] => (toJson raw).map fun j => (cls, j)
  | _ => none

def roundRobin (n : Nat) : List Nat := (List.range 13).flatMap fun _ => List.range n

def certLine (line : String) : String :=
  match parse line with
  | some (.list (.atom "cert" :: qs)) =>
    match qs.mapM parseQ with
    | some qs =>
      let run := qs.foldl (fun run q => certStepLine run q.2) {}
      render (.list (.atom "obs" :: run.out))
    | none => "(model-case-error)"
  | some (.list [.atom "conc", n]) =>
    match asNat n with
    | some n =>
      -- any interleaving gives every client its success replies (C19_canonical_succeeds):
      -- the model runs the round-robin one
      let idOf := fun (c : Nat) => "@cid" ++ toString c
      let evs := runSched cvtF64 idOf CertState.empty (fun _ => .start) (roundRobin n)
      let clients := (List.range n).map fun c =>
        Sx.list (.atom "client" :: (evs.filter fun e => e.1 == c).map fun e =>
          Sx.list (.atom "r" :: .atom "f" :: e.2.2.map repSx))
      render (.list (.atom "obs" :: clients))
    | none => "(model-case-error)"
  | some (.list [.atom "realclient", n]) =>
    match asNat n with
    | some n => render (.list (.atom "obs" :: List.replicate n (.list [.atom "exit", .atom "0"])))
    | none => "(model-case-error)"
  | _ => "(model-parse-error)"

/-! ### predicate glue -/

def parseRep : Sx → Option Reply
  | .list [.atom "rep", c, e, p] => do
    let c ← asOptBool c
    let e ← asOptStr e
    let p ← asOptJson p
    pure { continues := c, error := e, parameters := p }
  | _ => none

def parseR : Sx → Option (Bool × List Reply)
  | .list (.atom "r" :: .atom "f" :: reps) => (reps.mapM parseRep).map fun l => (false, l)
  | .list (.atom "r" :: .atom "t" :: reps) => (reps.mapM parseRep).map fun l => (true, l)
  | _ => none

def certPred (prop : String) (caseLine obsLine : String) : String :=
  if prop != "C19" then "fail unknown-property" else
  match parse caseLine, parse obsLine with
  | some _, some (.list (.atom "panic" :: _)) => "fail panic"
  | some (.list (.atom "cert" :: qs)), some (.list (.atom "obs" :: rs)) =>
    match qs.mapM parseQ, rs.mapM parseR with
    | some qs, some rs =>
      if qs.length != rs.length then "fail observation-length" else
      let hist : List CertQ := (qs.zip rs).map fun (q, r) =>
        { cls := q.1, raw := q.2, closed := r.1, replies := r.2 }
      match P_C19_history cvtF64 [] hist with
      | none => "ok"
      | some r => "fail " ++ r
    | _, _ => "fail unparsable-case-or-observation"
  | some (.list [.atom "conc", _]), some (.list (.atom "obs" :: cs)) =>
    let clients := cs.mapM fun c => match c with
      | Sx.list (Sx.atom "client" :: rs) => rs.mapM parseR
      | _ => none
    match clients with
    | some clients =>
      match P_C19_conc clients with
      | none => "ok"
      | some r => "fail " ++ r
    | none => "fail unparsable-observation"
  | some (.list [.atom "realclient", n]), some (.list (.atom "obs" :: es)) =>
    if es.length == (asNat n).getD 0 && es.all (fun e => render e == "(exit 0)") then "ok"
    else "fail real-canonical-client-failed"
  | _, _ => "fail unparsable-line"

end VV
