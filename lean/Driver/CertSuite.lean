/-
Driver.CertSuite — suite `cert` (C19): run Model.Cert on the request history of a
case and print the observation in the canonical form of harness/src/suites/cert.rs;
evaluate `P_C19` on the implementation's observation.
-/
import Driver.SerdeInst
import VarlinkVerif.Pred.Cert

namespace VV
open Sx

def certConsts : Consts := { serviceDesc := "" }

def repSx (r : Reply) : Sx :=
  .list [.atom "rep", ofOptBool r.continues, ofOptStr r.error, ofOptJson r.parameters]

structure CertRun where
  st : CertState := CertState.empty
  starts : Nat := 0
  out : List Sx := []

def certStepLine (run : CertRun) (raw : Json) : CertRun :=
  match frameRequest cvtF64 raw with
  | none => { run with out := run.out ++ [.list [.atom "r", .atom "t"]] }
  | some req =>
    let fresh := "@cid" ++ toString run.starts
    let (st', res) := certServe cvtF64 certConsts "" run.st fresh req
    let started := decide (res.out = [startReply fresh])
    { st := st', starts := if started then run.starts + 1 else run.starts,
      out := run.out ++ [.list (.atom "r" :: ofBool (!res.ok) :: res.out.map repSx)] }

def parseQ : Sx → Option (String × Json)
  | .list [.atom "q", _, .atom cls, raw] => (toJson raw).map fun j => (cls, j)
  | _ => none

/-- `(sleep n)` elements let real time pass in the harness; the model is untimed
    (exact within the 12 h lifetime: `C19_lifetime_sweep_is_noop_within_12h`) -/
def dropSleeps (qs : List Sx) : List Sx :=
  qs.filter fun q => match q with
    | .list [.atom "sleep", _] => false
    | _ => true

def roundRobin (n : Nat) : List Nat := (List.range 13).flatMap fun _ => List.range n

/-- n identical requests, one after the other (any order of identical requests is this order) -/
def raceStep (n : Nat) (st : CertState) (req : Request) : CertState × List Sx :=
  (List.range n).foldl (fun (acc : CertState × List Sx) _ =>
    let (st', res) := certServe cvtF64 certConsts "" acc.1 "@unused" req
    (st', acc.2 ++ [Sx.list (.atom "r" :: ofBool (!res.ok) :: res.out.map repSx)])) (st, [])

def sortSx (l : List Sx) : List Sx :=
  (l.map fun x => (render x, x)).mergeSort (fun a b => a.1 ≤ b.1) |>.map (·.2)

/-- one round of a `(race n _)` case in the model: `Start`, then every raced step as n
    sequential identical requests (a step is atomic, so the concurrent run is one of the
    n! orders, and they are all this one) -/
def raceRound (n : Nat) : Sx :=
  let cid := "@cid0"
  let st0 := (certServe cvtF64 certConsts "" CertState.empty cid canonStartReq).1
  let steps : List Step := [.t01, .t02, .t03, .t04, .t05, .t06, .t07, .t08, .t09, .t10]
  let (st1, outs) := steps.foldl (fun (acc : CertState × List Sx) k =>
    let (st', rs) := raceStep n acc.1 (canonStepReq k cid)
    (st', acc.2 ++ [Sx.list (.atom "step" :: .atom (toString (posOfStep k)) :: sortSx rs)])) (st0, [])
  let st2 := (certServe cvtF64 certConsts "" st1 "@unused" (canonStepReq .t11 cid)).1
  let (_, rs) := raceStep n st2 (canonStepReq .fin cid)
  .list (.atom "round" :: outs ++ [Sx.list (.atom "step" :: .atom "12" :: sortSx rs)])

partial def jsonSubstStr (frm to : String) : Json → Json
  | .str s => .str (if s == frm then to else s)
  | .arr l => .arr (l.map (jsonSubstStr frm to))
  | .obj l => .obj (l.map fun (k, v) => (k, jsonSubstStr frm to v))
  | j => j

/-- group equal outcomes: (rendered, count, first index, outcome), in order of first appearance -/
def groupOutcomes (outs : List Sx) : List Sx :=
  let gs := (outs.zipIdx).foldl (fun (acc : List (String × Nat × Nat × Sx)) (o, i) =>
    let key := render o
    if acc.any (fun g => g.1 == key) then
      acc.map fun g => if g.1 == key then (g.1, g.2.1 + 1, g.2.2.1, g.2.2.2) else g
    else acc ++ [(key, 1, i, o)]) []
  gs.map fun g => Sx.list [.atom (toString g.2.1), .atom (toString g.2.2.1), g.2.2.2]

/-- `(many n _)`: n clients `Start`, then every client's step k for k = 1..12, client 0 first -/
def manyRun (n : Nat) : Sx :=
  let idOf := fun (c : Nat) => "@cid" ++ toString c
  let positions := List.range 13
  let (_, steps) := positions.foldl (fun (acc : CertState × List Sx) pos =>
    let (st, outs) := (List.range n).foldl (fun (a : CertState × List Sx) c =>
      let req := canonReq pos (idOf c)
      let (st', res) := certServe cvtF64 certConsts "" a.1 (idOf c) req
      let reps := res.out.map fun r =>
        repSx { r with parameters := r.parameters.map (jsonSubstStr (idOf c) "@cid") }
      (st', a.2 ++ [Sx.list (.atom "r" :: ofBool (!res.ok) :: reps)])) (acc.1, [])
    (st, acc.2 ++ [Sx.list (.atom "step" :: .atom (toString pos) :: groupOutcomes outs)])) (CertState.empty, [])
  .list (.atom "obs" :: steps)

def certLine (line : String) : String :=
  match parse line with
  | some (.list (.atom "cert" :: qs)) =>
    match (dropSleeps qs).mapM parseQ with
    | some qs =>
      let run := qs.foldl (fun run q => certStepLine run q.2) {}
      render (.list (.atom "obs" :: run.out))
    | none => "(model-case-error)"
  | some (.list [.atom "conc", n]) =>
    match asNat n with
    | some n =>
      -- any interleaving gives every client its success replies (C19_canonical_succeeds):
      -- the model runs the round-robin one
      let idOf := fun (c : Nat) => "@cid" ++ toString c
      let evs := runSched cvtF64 idOf CertState.empty (fun _ => .start) (roundRobin n)
      let clients := (List.range n).map fun c =>
        Sx.list (.atom "client" :: (evs.filter fun e => e.1 == c).map fun e =>
          Sx.list (.atom "r" :: .atom "f" :: e.2.2.map repSx))
      render (.list (.atom "obs" :: clients))
    | none => "(model-case-error)"
  | some (.list [.atom "churn", n, rounds]) =>
    -- every canonical sequence completes, whatever the interleaving (C19_canonical_succeeds)
    match asNat n, asNat rounds with
    | some n, some rounds =>
      render (.list [.atom "obs", .list [.atom "seqs", .atom (toString (n * rounds))],
                     .list [.atom "first-failure", .atom "-"]])
    | _, _ => "(model-case-error)"
  | some (.list [.atom "many", n, _]) =>
    match asNat n with
    | some n => render (manyRun n)
    | none => "(model-case-error)"
  | some (.list [.atom "race", n, rounds]) =>
    match asNat n, asNat rounds with
    | some n, some rounds =>
      render (.list [.atom "obs", .list [.atom "x", .atom (toString rounds), raceRound n]])
    | _, _ => "(model-case-error)"
  | some (.list [.atom "realclient", n]) =>
    match asNat n with
    | some n => render (.list (.atom "obs" :: List.replicate n (.list [.atom "exit", .atom "0"])))
    | none => "(model-case-error)"
  | _ => "(model-parse-error)"

/-! ### predicate glue -/

def parseRep : Sx → Option Reply
  | .list [.atom "rep", c, e, p] => do
    let c ← asOptBool c
    let e ← asOptStr e
    let p ← asOptJson p
    pure { continues := c, error := e, parameters := p }
  | _ => none

def parseR : Sx → Option (Bool × List Reply)
  | .list (.atom "r" :: .atom "f" :: reps) => (reps.mapM parseRep).map fun l => (false, l)
  | .list (.atom "r" :: .atom "t" :: reps) => (reps.mapM parseRep).map fun l => (true, l)
  | _ => none

/-- some request of the observation ran into its deadline / could not even connect -/
partial def mentionsTimeout : Sx → Bool
  | .atom a => a == "timeout" || a == "connect-failed"
  | .list l => l.any mentionsTimeout

def certPred (prop : String) (caseLine obsLine : String) : String :=
  if prop != "C19" then "fail unknown-property" else
  if (parse obsLine).any mentionsTimeout then "fail request-not-answered" else
  match parse caseLine, parse obsLine with
  | some _, some (.list (.atom "panic" :: _)) => "fail panic"
  | some (.list [.atom "churn", n, rounds]), some (.list [.atom "obs", .list [.atom "seqs", k], .list [.atom "first-failure", ff]]) =>
    if asNat k == (do let a ← asNat n; let b ← asNat rounds; pure (a * b)) && (ff matches .atom "-") then "ok"
    else match ff with
      | .list [_, _, _, .atom "timeout"] => "fail request-not-answered"
      | _ => "fail concurrent-canonical-client-failed"
  | some (.list (.atom "cert" :: qs)), some (.list (.atom "obs" :: rs)) =>
    match (dropSleeps qs).mapM parseQ, rs.mapM parseR with
    | some qs, some rs =>
      if qs.length != rs.length then "fail observation-length" else
      let hist : List CertQ := (qs.zip rs).map fun (q, r) =>
        { cls := q.1, raw := q.2, closed := r.1, replies := r.2 }
      match P_C19_history cvtF64 [] [] hist with
      | none => "ok"
      | some r => "fail " ++ r
    | _, _ => "fail unparsable-case-or-observation"
  | some (.list [.atom "conc", _]), some (.list (.atom "obs" :: cs)) =>
    let clients := cs.mapM fun c => match c with
      | Sx.list (Sx.atom "client" :: rs) => rs.mapM parseR
      | _ => none
    match clients with
    | some clients =>
      match P_C19_conc clients with
      | none => "ok"
      | some r => "fail " ++ r
    | none => "fail unparsable-observation"
  | some (.list [.atom "many", n, _]), some (.list (.atom "obs" :: steps)) =>
    let parsed : Option (List (Nat × List (Nat × Nat × Bool × List Reply))) := steps.mapM fun st => match st with
      | Sx.list (Sx.atom "step" :: pos :: gs) => do
        let pos ← asNat pos
        let gs ← gs.mapM fun g => match g with
          | Sx.list [cnt, first, r] => do
            let cnt ← asNat cnt
            let first ← asNat first
            let r ← parseR r
            pure (cnt, first, r.1, r.2)
          | _ => none
        pure (pos, gs)
      | _ => none
    match parsed, asNat n with
    | some parsed, some n =>
      match P_C19_many n parsed with
      | none => "ok"
      | some r => "fail " ++ r
    | _, _ => "fail unparsable-observation"
  | some (.list [.atom "race", n, _]), some (.list (.atom "obs" :: xs)) =>
    let rounds : Option (List (List (Nat × List (Bool × List Reply)))) := xs.mapM fun x => match x with
      | Sx.list [Sx.atom "x", _, Sx.list (Sx.atom "round" :: steps)] =>
        steps.mapM fun st => match st with
          | Sx.list (Sx.atom "step" :: pos :: rs) => do
            let pos ← asNat pos
            let rs ← rs.mapM parseR
            pure (pos, rs)
          | _ => none
      | _ => none
    match rounds, asNat n with
    | some rounds, some n =>
      match firstSome (rounds.map (P_C19_race n)) with
      | none => "ok"
      | some r => "fail " ++ r
    | _, _ => "fail unparsable-observation"
  | some (.list [.atom "realclient", n]), some (.list (.atom "obs" :: es)) =>
    if es.length == (asNat n).getD 0 && es.all (fun e => render e == "(exit 0)") then "ok"
    else "fail real-canonical-client-failed"
  | _, _ => "fail unparsable-line"

end VV
