/-
Driver.CertSuite — suite `cert` (stub: replaced by the owner of the suite).
Must define `certLine : String → String` (case line ↦ model observation line) and
`certPred : String → String → String → String` (property id, case line, implementation
observation line ↦ "ok" | "fail <reason>").
-/
import Driver.Sx

namespace VV

def certLine (_line : String) : String := "(stub)"

def certPred (_prop _caseLine _obsLine : String) : String := "fail stub-suite"

end VV
