/-
Driver.WorldInst — Lean mirrors of the test fixtures of harness/src/suites/addr_world.rs
shared by the suites `addr` and `proxy`: a `world` is a scripted wire service plus
optionally an `org.varlink.resolver` interface and the upgrade echo interface.
Instantiations of `Iface.script`; no theorem depends on this file.
-/
import Driver.WireSuite

namespace VV
open Sx

def upName := "org.example.up"
def upDesc := "interface org.example.up\nmethod Start() -> (ok: bool)\n"
def resolverName := "org.varlink.resolver"
def resolverDesc := "interface org.varlink.resolver\nmethod GetInfo() -> (vendor: string, product: string, version: string, url: string, interfaces: []string)\nmethod Resolve(interface: string) -> (address: string)\nerror InterfaceNotFound (interface: string)\n"

def upIface : Iface :=
  { name := upName, desc := upDesc,
    script := fun r =>
      if r.method == "org.example.up.Start" then
        [.toUpgraded, .reply (Reply.params (some (.obj [("ok", .bool true)])))]
      else [.reply (errMethodNotFound r.method)] }

def abortName := "org.example.abort"
def abortDesc := "interface org.example.abort\nmethod Silent() -> ()\nmethod ReplyThenAbort(delay_ms: int, token: string) -> (aborting: string)\nmethod SlowReply(delay_ms: int, token: string) -> (slow: string)\nmethod SlowStream(delay_ms: int, token: string) -> (i: int, token: string)\n"

def abortIface : Iface :=
  { name := abortName, desc := abortDesc,
    script := fun r =>
      if r.method == "org.example.abort.Silent" then [.fail]
      else if r.method == "org.example.abort.ReplyThenAbort" then
        let tok := match r.parameters.bind (·.get? "token") with
          | some (.str s) => s
          | _ => ""
        let pad : List (String × Json) := match r.parameters.bind (·.get? "pad_bytes") with
          | some (.int n) => [("pad", .str (String.ofList (List.replicate n.toNat 'p')))]
          | _ => []
        [.reply (Reply.params (some (.obj ([("aborting", .str tok)] ++ pad)))), .fail]
      else if r.method == "org.example.abort.SlowReply" then
        let tok := match r.parameters.bind (·.get? "token") with
          | some (.str s) => s
          | _ => ""
        [.reply (Reply.params (some (.obj [("slow", .str tok)])))]
      else if r.method == "org.example.abort.SlowStream" then
        let tok := match r.parameters.bind (·.get? "token") with
          | some (.str s) => s
          | _ => ""
        (if wantsMore r then
          [.setContinues true, .reply (Reply.params (some (.obj [("i", .int 0), ("token", .str tok)]))), .setContinues false]
         else []) ++
        [.reply (Reply.params (some (.obj [("i", .int 1), ("token", .str tok)])))]
      else [.reply (errMethodNotFound r.method)] }

/-- does the service close the connection right after replying (no delay)? -/
def abortsAtOnce (r : Request) : Bool :=
  r.method == "org.example.abort.ReplyThenAbort" &&
    (match r.parameters.bind (·.get? "delay_ms") with
     | some (.int d) => d == 0
     | _ => true)

/-- the greeting `org.example.up.Start(greeting, lf_back)` makes the upgraded service write first -/
def upGreeting (r : Request) : List UInt8 :=
  match r.parameters.bind (·.get? "greeting") with
  | some (.int n) =>
    let n := n.toNat
    let lf := match r.parameters.bind (·.get? "lf_back") with
      | some (.int k) => k.toNat
      | _ => 0
    (List.range n).map fun i => if 0 < lf ∧ lf ≤ n ∧ i = n - lf then (10 : UInt8) else (103 : UInt8)
  | _ => []

/-- the byte transformation of the upgraded echo service -/
def upTransform (b : UInt8) : UInt8 := b + 1

abbrev ResolverTable := List (String × List String)

/-- the k-th `Resolve` call (counted from 0 over all interfaces) -/
def resolveAt (t : ResolverTable) (k : Nat) (iface : String) : Option String :=
  match t.find? (fun e => e.1 == iface) with
  | some (_, []) => none
  | some (_, a :: as) => some ((a :: as)[min k as.length]!)
  | none => none

def dedupSorted (l : List String) : List String :=
  (l.mergeSort (fun a b => a ≤ b)).eraseDups

def resolverInfo (t : ResolverTable) : Json :=
  .obj [("interfaces", .arr ((dedupSorted (t.map (·.1))).map .str)),
        ("product", .str "resolver-product"),
        ("url", .str "http://resolver.example/"),
        ("vendor", .str "resolver-vendor"),
        ("version", .str "7")]

/-- stateless view (call counter 0): enough for `GetInfo` and for static tables -/
def resolverIface (t : ResolverTable) : Iface :=
  { name := resolverName, desc := resolverDesc,
    script := fun r =>
      if r.method == "org.varlink.resolver.GetInfo" then [.reply (Reply.params (some (resolverInfo t)))]
      else if r.method == "org.varlink.resolver.Resolve" then
        match (r.parameters.bind (·.get? "interface")) with
        | some (.str i) =>
          match resolveAt t 0 i with
          | some a => [.reply (Reply.params (some (.obj [("address", .str a)])))]
          | none => [.reply (Reply.err "org.varlink.resolver.InterfaceNotFound" (some (.obj [("interface", .str i)])))]
        | _ => [.reply (errInvalidParameter "interface")]
      else [.reply (errMethodNotFound r.method)] }

structure WorldSpec where
  svc : Service
  resolver : Option ResolverTable
  up : Bool
  /-- names of the scripted interfaces (the ones whose calls the harness logs) -/
  scripts : List String := []

instance : Inhabited WorldSpec :=
  ⟨{ svc := { vendor := "", product := "", version := "", url := "", ifaces := [] }, resolver := none, up := false }⟩

def WorldSpec.service (w : WorldSpec) : Service :=
  { w.svc with ifaces := w.svc.ifaces ++
      (match w.resolver with | some t => [resolverIface t] | none => []) ++
      (if w.up then [upIface, abortIface] else []) }

def parseResolver : Sx → Option (Option ResolverTable)
  | .atom "-" => some none
  | .list (.atom "resolver" :: es) =>
    (es.mapM fun e => match e with
      | Sx.list (i :: as) => do
        let i ← asStr i
        let as ← as.mapM asStr
        pure (i, as)
      | _ => none).map some
  | _ => none

/-- the names registered with a `script` / `script-avail` entry -/
def scriptNamesOf : Sx → List String
  | .list [.atom "svc", _, _, _, _, .list (.atom "ifaces" :: is)] =>
    is.filterMap fun i => match i with
      | Sx.list [Sx.atom k, n, _] => if k == "script" || k == "script-avail" then asStr n else none
      | _ => none
  | _ => []

def parseWorld : Sx → Option WorldSpec
  | .list [.atom "world", svcSx, r, up, .atom "seq"] =>
    -- a single-threaded server: same replies, one connection at a time (not visible in the model)
    parseWorld (.list [.atom "world", svcSx, r, up])
  | .list [.atom "world", svcSx, r, up] => do
    let svc ← parseSvc svcSx
    let r ← parseResolver r
    let up ← match up with | .atom "t" => some true | .atom "f" => some false | _ => none
    pure { svc, resolver := r, up, scripts := scriptNamesOf svcSx }
  | _ => none

end VV
